/-
  Helper lemmas for C12 (Hangul): the model's buffer primitives never fail on well-formed arguments and touch
  clusters only; the model refines the abstract parser `Spec.Hangul.render` on (code point, feature) pairs.
-/
import RbModel.Hangul
import RbModel.Spec.Hangul

set_option maxRecDepth 100000
namespace RbModel.Hangul
open RbModel.Gen.Hangul
open RbModel.Spec.Hangul (K Support R stepK parse render)

/-! ## the compiled tables are the Unicode ones -/

/-- unfold the generated and the Unicode constants to literals (for `omega`) -/
macro "hconst" : tactic => `(tactic| simp only [LBase, VBase, TBase, LCount, VCount, TCount, NCount, SCount, SBase,
  Spec.Hangul.LBase, Spec.Hangul.VBase, Spec.Hangul.TBase, Spec.Hangul.LCount, Spec.Hangul.VCount,
  Spec.Hangul.TCount, Spec.Hangul.NCount, Spec.Hangul.SCount, Spec.Hangul.SBase] at *)

theorem isL_eq (u : Nat) : isL u = Spec.Hangul.isL u := by
  simp [isL, inRanges, lRanges, Spec.Hangul.isL]
theorem isV_eq (u : Nat) : isV u = Spec.Hangul.isV u := by
  simp [isV, inRanges, vRanges, Spec.Hangul.isV]
theorem isT_eq (u : Nat) : isT u = Spec.Hangul.isT u := by
  simp [isT, inRanges, tRanges, Spec.Hangul.isT]
theorem isTone_eq (u : Nat) : isTone u = Spec.Hangul.isTone u := by
  simp only [isTone, inRanges, toneRanges, Spec.Hangul.isTone, List.any_cons, List.any_nil, Bool.or_false]
  rw [Bool.eq_iff_iff]; simp; omega
theorem isCombiningL_eq (u : Nat) : isCombiningL u = Spec.Hangul.isCombiningL u := by
  simp only [isCombiningL, Spec.Hangul.isCombiningL]
  rw [Bool.eq_iff_iff]; simp only [Bool.and_eq_true, decide_eq_true_eq]; hconst; omega
theorem isCombiningV_eq (u : Nat) : isCombiningV u = Spec.Hangul.isCombiningV u := by
  simp only [isCombiningV, Spec.Hangul.isCombiningV]
  rw [Bool.eq_iff_iff]; simp only [Bool.and_eq_true, decide_eq_true_eq]; hconst; omega
theorem isCombiningT_eq (u : Nat) : isCombiningT u = Spec.Hangul.isCombiningT u := by
  simp only [isCombiningT, Spec.Hangul.isCombiningT]
  rw [Bool.eq_iff_iff]; simp only [Bool.and_eq_true, decide_eq_true_eq]; hconst; omega
theorem isCombinedS_eq (u : Nat) : isCombinedS u = Spec.Hangul.isS u := by
  simp only [isCombinedS, Spec.Hangul.isS]
  rw [Bool.eq_iff_iff]; simp only [Bool.and_eq_true, decide_eq_true_eq]; hconst; omega

/-! ## keys: what is left of a glyph when clusters are forgotten -/

def key (g : G) : K := (g.cp, g.tag)
def keys (l : List G) : List K := l.map key

@[simp] theorem key_setCl (c : Nat) (g : G) : key (setCl c g) = key g := rfl
@[simp] theorem key_setCp (c : Nat) (g : G) : key (setCp c g) = (c, g.tag) := rfl
@[simp] theorem key_setTag (t : Nat) (g : G) : key (setTag t g) = (g.cp, t) := rfl
@[simp] theorem keys_nil : keys [] = [] := rfl
@[simp] theorem keys_cons (g : G) (l : List G) : keys (g :: l) = key g :: keys l := rfl
@[simp] theorem keys_append (a b : List G) : keys (a ++ b) = keys a ++ keys b := by simp [keys]
@[simp] theorem keys_length (a : List G) : (keys a).length = a.length := by simp [keys]
theorem keys_take (n : Nat) (a : List G) : keys (a.take n) = (keys a).take n := by simp [keys]
theorem keys_drop (n : Nat) (a : List G) : keys (a.drop n) = (keys a).drop n := by simp [keys]
@[simp] theorem keys_reverse (a : List G) : keys a.reverse = (keys a).reverse := by simp [keys]
@[simp] theorem keys_map_setCl (c : Nat) (a : List G) : keys (a.map (setCl c)) = keys a := by
  simp [keys, Function.comp_def]

theorem mapWhile_length (p : G → Bool) (f : G → G) (l : List G) : (mapWhile p f l).length = l.length := by
  induction l with
  | nil => rfl
  | cons g gs ih => simp only [mapWhile]; split <;> simp [ih]

@[simp] theorem keys_mapWhile (p : G → Bool) (c : Nat) (l : List G) : keys (mapWhile p (setCl c) l) = keys l := by
  induction l with
  | nil => rfl
  | cons g gs ih => simp only [mapWhile]; split <;> simp [ih]

@[simp] theorem mapWhileBack_length (p : G → Bool) (f : G → G) (l : List G) :
    (mapWhileBack p f l).length = l.length := by simp [mapWhileBack, mapWhile_length]

@[simp] theorem keys_mapWhileBack (p : G → Bool) (c : Nat) (l : List G) :
    keys (mapWhileBack p (setCl c) l) = keys l := by simp [mapWhileBack]

/-! ## the buffer primitives: defined on well-formed arguments, clusters only -/

theorem mergeIn_ok (lvl n : Nat) (out inp : List G) (h : n ≤ inp.length) :
    ∃ o i, mergeIn lvl n out inp = some (o, i) ∧ keys o = keys out ∧ keys i = keys inp
      ∧ o.length = out.length ∧ i.length = inp.length := by
  unfold mergeIn
  by_cases h2 : n < 2
  · exact ⟨out, inp, by simp [h2], rfl, rfl, rfl, rfl⟩
  by_cases hl : lvl = 2
  · exact ⟨out, inp, by simp [h2, hl], rfl, rfl, rfl, rfl⟩
  have h3 : ¬ inp.length < n := by omega
  simp only [h2, hl, h3, if_false]
  cases hseg : inp.take n with
  | nil =>
    have := congrArg List.length hseg
    simp only [List.length_take, List.length_nil] at this; omega
  | cons g0 tl =>
    simp only
    refine ⟨_, _, rfl, ?_, ?_, ?_, ?_⟩
    · split <;> simp
    · have : keys inp = keys (inp.take n) ++ keys (inp.drop n) := by rw [← keys_append, List.take_append_drop]
      rw [this, hseg]
      split <;> simp
    · split <;> simp
    · have : inp.length = (inp.take n).length + (inp.drop n).length := by
        rw [← List.length_append, List.take_append_drop]
      rw [this, hseg]
      split <;> simp [mapWhile_length] <;> omega

theorem mergeOut_ok (lvl s e : Nat) (out inp : List G) (hse : s ≤ e) (he : e ≤ out.length) :
    ∃ o i, mergeOut lvl s e out inp = some (o, i) ∧ keys o = keys out ∧ keys i = keys inp
      ∧ o.length = out.length ∧ i.length = inp.length := by
  unfold mergeOut
  by_cases hl : lvl = 2
  · exact ⟨out, inp, by simp [hl], rfl, rfl, rfl, rfl⟩
  have h1 : ¬ e < s := by omega
  by_cases h2 : e - s < 2
  · exact ⟨out, inp, by simp [hl, h1, h2], rfl, rfl, rfl, rfl⟩
  have h3 : ¬ out.length < e := by omega
  simp only [hl, h1, h2, h3, if_false]
  have hsplit : out = out.take s ++ ((out.take e).drop s ++ out.drop e) := by
    have h1 : out.take e = (out.take e).take s ++ (out.take e).drop s := (List.take_append_drop s _).symm
    have h2 : (out.take e).take s = out.take s := by rw [List.take_take]; congr 1; omega
    rw [← List.append_assoc, ← h2, ← h1, List.take_append_drop]
  cases hseg : (out.take e).drop s with
  | nil =>
    have := congrArg List.length hseg
    simp only [List.length_take, List.length_drop, List.length_nil] at this; omega
  | cons g0 tl =>
    simp only
    rw [hseg] at hsplit
    refine ⟨_, _, rfl, ?_, ?_, ?_, ?_⟩
    · conv => rhs; rw [hsplit]
      simp
    · split <;> simp
    · conv => rhs; rw [hsplit]
      simp [mapWhile_length]
    · split <;> simp [mapWhile_length]

theorem replaceGlyphs_ok (lvl n : Nat) (data : List Nat) (out : List G) (g0 : G) (rest : List G)
    (h : n ≤ (g0 :: rest).length) :
    ∃ o i, replaceGlyphs lvl n data out (g0 :: rest) = some (o, i)
      ∧ keys o = keys out ++ data.map (fun c => (c, g0.tag)) ∧ keys i = keys ((g0 :: rest).drop n)
      ∧ o.length = out.length + data.length ∧ i.length = (g0 :: rest).length - n := by
  obtain ⟨o1, i1, hm, hko, hki, hlo, hli⟩ := mergeIn_ok lvl n out (g0 :: rest) h
  unfold replaceGlyphs
  have h3 : ¬ (g0 :: rest).length < n := by omega
  simp only [h3, if_false, hm]
  cases i1 with
  | nil => simp at hli
  | cons g1 r1 =>
    simp only
    have hk : key g1 = key g0 := by simp at hki; exact hki.1
    have ht : g1.tag = g0.tag := by have := congrArg Prod.snd hk; exact this
    refine ⟨_, _, rfl, ?_, ?_, ?_, ?_⟩
    · simp only [keys_append, hko]; simp [keys, ht, Function.comp_def]
    · rw [keys_drop, keys_drop, hki]
    · simp [hlo]
    · simp [hli]

theorem modAt_append (f : G → G) (a b : List G) (k : Nat) :
    modAt f (a.length + k) (a ++ b) = (modAt f k b).map (a ++ ·) := by
  induction a with
  | nil => simp
  | cons x xs ih =>
    have : (x :: xs).length + k = (xs.length + k) + 1 := by simp; omega
    rw [this]
    simp only [List.cons_append, modAt, ih, Option.map_map]
    rfl


/-! ## the state seen through keys -/

def sup (c : Cfg) : Support :=
  { has := c.has, zeroW := c.zeroW, dotted := !c.noDotted && c.has DOTTED_CIRCLE }

/-- the previous iteration recognised a syllable: `start < end && end == out_len` -/
def valid (st : St) : Prop := st.start < st.end_ ∧ st.end_ = st.out.length
instance (st : St) : Decidable (valid st) := by unfold valid; infer_instance

def pendK (st : St) : List K := if valid st then (keys st.out).drop st.start else []
def doneK (st : St) : List K := if valid st then (keys st.out).take st.start else keys st.out
/-- loop invariant: `end` never points beyond the out-buffer -/
def Inv (st : St) : Prop := st.end_ ≤ st.out.length

theorem done_pend (st : St) : doneK st ++ pendK st = keys st.out := by
  unfold doneK pendK; split <;> simp

theorem view_valid {st : St} {A B : List K} (hk : keys st.out = A ++ B) (hs : st.start = A.length)
    (he : st.end_ = st.out.length) (hB : B ≠ []) : doneK st = A ∧ pendK st = B := by
  have hl : st.out.length = A.length + B.length := by rw [← keys_length, hk]; simp
  have hB' : 0 < B.length := List.length_pos_iff.mpr hB
  have hv : valid st := ⟨by omega, he⟩
  unfold doneK pendK
  simp [hv, hk, hs]

theorem view_invalid {st : St} (h : ¬ valid st) : doneK st = keys st.out ∧ pendK st = [] := by
  unfold doneK pendK; simp [h]

theorem rotateTone_ok (s e : Nat) (out : List G) (P : List K) (x : K) (hk : keys out = P ++ [x])
    (he : e = P.length) (hse : s ≤ e) :
    ∃ o, rotateTone s e out = some o ∧ keys o = P.take s ++ x :: P.drop s ∧ o.length = out.length
      ∧ o.take s = out.take s := by
  have hl : out.length = e + 1 := by rw [← keys_length, hk]; simp [he]
  unfold rotateTone
  have h1 : ¬ e < s := by omega
  simp only [h1, if_false]
  cases hd : out.drop e with
  | nil =>
    have := congrArg List.length hd
    simp only [List.length_drop, List.length_nil] at this; omega
  | cons t after =>
    have hafter : after = [] := by
      have := congrArg List.length hd
      simp only [List.length_drop, List.length_cons] at this
      exact List.eq_nil_of_length_eq_zero (by omega)
    subst hafter
    refine ⟨_, rfl, ?_, ?_, ?_⟩
    rotate_left
    · have h1 : min s out.length = s := by omega
      have h2 : min e out.length = e := by omega
      simp only [List.length_append, List.length_cons, List.length_take, List.length_drop, List.length_nil, h1, h2]
      omega
    · have hls : (out.take s).length = s := by simp; omega
      rw [List.append_assoc]
      exact List.take_left' hls
    have hsplit : keys out = keys (out.take e) ++ keys (out.drop e) := by
      rw [← keys_append, List.take_append_drop]
    rw [hd, hk] at hsplit
    have hlen : (keys (out.take e)).length = P.length := by simp [he]; omega
    have h2 := List.append_inj hsplit (by simp [he]; omega)
    have hP : keys (out.take e) = P := h2.1.symm
    have hx : key t = x := by have := h2.2; simp at this; exact this.symm
    have htake : out.take s = (out.take e).take s := by rw [List.take_take]; congr 1; omega
    simp only [keys_append, keys_cons, keys_nil, List.append_nil, htake, keys_take, keys_drop, hP, hx]

/-- all glyphs of the list carry the same cluster value -/
def sameCluster (l : List G) : Prop := ∀ g ∈ l, ∀ h ∈ l, g.cl = h.cl

theorem sameCluster_short (l : List G) (h : l.length ≤ 1) : sameCluster l := by
  match l, h with
  | [], _ => intro g hg; cases hg
  | [x], _ => intro g hg h' hh; simp at hg hh; rw [hg, hh]

theorem sameCluster_map_setCl (c : Nat) (l : List G) : sameCluster (l.map (setCl c)) := by
  intro g hg h hh
  simp only [List.mem_map] at hg hh
  obtain ⟨g', _, rfl⟩ := hg
  obtain ⟨h', _, rfl⟩ := hh
  rfl

theorem mergeOut_same (lvl s e : Nat) (out inp o i : List G) (hl : lvl ≠ 2) (hse : s + 2 ≤ e) (he : e = out.length)
    (h : mergeOut lvl s e out inp = some (o, i)) : sameCluster (o.drop s) := by
  unfold mergeOut at h
  have h1 : ¬ e < s := by omega
  have h2 : ¬ e - s < 2 := by omega
  have h3 : ¬ out.length < e := by omega
  simp only [hl, h1, h2, h3, if_false] at h
  cases hseg : (out.take e).drop s with
  | nil => rw [hseg] at h; cases h
  | cons g0 tl =>
    rw [hseg] at h
    simp only [Option.some.injEq, Prod.mk.injEq] at h
    obtain ⟨ho, _⟩ := h
    subst ho
    have hb : out.drop e = [] := by rw [he]; simp
    rw [hb]
    simp only [mapWhile, List.append_nil]
    have hlen : (mapWhileBack (fun g => g.cl == g0.cl) (setCl (minCl (g0 :: tl) g0.cl)) (List.take s out)).length = s := by
      simp; omega
    rw [List.drop_append_of_le_length (by omega), List.drop_of_length_le (by omega), List.nil_append]
    exact sameCluster_map_setCl _ _


/-! ## clusters are only ever merged: neighbours that share a cluster keep sharing one -/

/-- `new` has the glyphs of `old` with clusters rewritten so that any two *adjacent* glyphs with equal clusters
    still have equal clusters -/
def AdjPres : List G → List G → Prop
  | a :: b :: r, a' :: b' :: r' => (a.cl = b.cl → a'.cl = b'.cl) ∧ AdjPres (b :: r) (b' :: r')
  | [_], [_] => True
  | [], [] => True
  | _, _ => False

theorem AdjPres_refl : ∀ l : List G, AdjPres l l
  | [] => trivial
  | [_] => trivial
  | _ :: b :: r => ⟨id, AdjPres_refl (b :: r)⟩

theorem AdjPres_length : ∀ {a b : List G}, AdjPres a b → a.length = b.length
  | [], [], _ => rfl
  | [_], [_], _ => rfl
  | _ :: b :: r, _ :: b' :: r', h => by
      have := AdjPres_length (a := b :: r) (b := b' :: r') h.2
      simp at this ⊢; omega
  | [], _ :: _, h => by cases h
  | [_], [], h => by cases h
  | [_], _ :: _ :: _, h => by cases h
  | _ :: _ :: _, [], h => by cases h
  | _ :: _ :: _, [_], h => by cases h

theorem AdjPres_trans : ∀ {a b c : List G}, AdjPres a b → AdjPres b c → AdjPres a c
  | [], [], [], _, _ => trivial
  | [_], [_], [_], _, _ => trivial
  | x :: y :: r, x' :: y' :: r', x'' :: y'' :: r'', h1, h2 =>
      ⟨fun h => h2.1 (h1.1 h), AdjPres_trans (a := y :: r) (b := y' :: r') (c := y'' :: r'') h1.2 h2.2⟩
  | [], [], _ :: _, _, h2 => by cases h2
  | [_], [_], [], _, h2 => by cases h2
  | [_], [_], _ :: _ :: _, _, h2 => by cases h2
  | _ :: _ :: _, _ :: _ :: _, [], _, h2 => by cases h2
  | _ :: _ :: _, _ :: _ :: _, [_], _, h2 => by cases h2
  | [], _ :: _, _, h1, _ => by cases h1
  | [_], [], _, h1, _ => by cases h1
  | [_], _ :: _ :: _, _, h1, _ => by cases h1
  | _ :: _ :: _, [], _, h1, _ => by cases h1
  | _ :: _ :: _, [_], _, h1, _ => by cases h1

/-- everything rewritten to one cluster -/
theorem AdjPres_map_setCl (c : Nat) : ∀ l : List G, AdjPres l (l.map (setCl c))
  | [] => trivial
  | [_] => trivial
  | _ :: b :: r => ⟨fun _ => rfl, AdjPres_map_setCl c (b :: r)⟩

theorem AdjPres_take : ∀ (m : Nat) {a b : List G}, AdjPres a b → AdjPres (a.take m) (b.take m)
  | 0, _, _, _ => by simp [AdjPres]
  | _ + 1, [], [], _ => trivial
  | _ + 1, [_], [_], _ => by simp [AdjPres]
  | 1, _ :: _ :: _, _ :: _ :: _, _ => by simp [AdjPres]
  | m + 2, x :: y :: r, x' :: y' :: r', h => by
      have := AdjPres_take (m + 1) (a := y :: r) (b := y' :: r') h.2
      simp only [List.take_succ_cons] at this ⊢
      exact ⟨h.1, this⟩
  | _ + 1, [], _ :: _, h => by cases h
  | _ + 1, [_], [], h => by cases h
  | _ + 1, [_], _ :: _ :: _, h => by cases h
  | _ + 1, _ :: _ :: _, [], h => by cases h
  | _ + 1, _ :: _ :: _, [_], h => by cases h


theorem AdjPres_drop : ∀ (m : Nat) {a b : List G}, AdjPres a b → AdjPres (a.drop m) (b.drop m)
  | 0, _, _, h => h
  | _ + 1, [], [], _ => trivial
  | _ + 1, [_], [_], _ => by simp [AdjPres]
  | m + 1, _ :: y :: r, _ :: y' :: r', h => by
      simpa using AdjPres_drop m (a := y :: r) (b := y' :: r') h.2
  | _ + 1, [], _ :: _, h => by cases h
  | _ + 1, [_], [], h => by cases h
  | _ + 1, [_], _ :: _ :: _, h => by cases h
  | _ + 1, _ :: _ :: _, [], h => by cases h
  | _ + 1, _ :: _ :: _, [_], h => by cases h

theorem sameCluster_cons {x : G} {l : List G} : sameCluster (x :: l) ↔ (∀ g ∈ l, g.cl = x.cl) := by
  constructor
  · intro h g hg; exact h g (List.mem_cons_of_mem _ hg) x (List.mem_cons_self ..)
  · intro h g hg k hk
    have hg' : g.cl = x.cl := by
      cases List.mem_cons.mp hg with
      | inl e => rw [e]
      | inr e => exact h g e
    have hk' : k.cl = x.cl := by
      cases List.mem_cons.mp hk with
      | inl e => rw [e]
      | inr e => exact h k e
    rw [hg', hk']

/-- a list in one cluster stays in one cluster -/
theorem sameCluster_of_AdjPres : ∀ {a b : List G}, AdjPres a b → sameCluster a → sameCluster b
  | [], [], _, _ => by intro g hg; cases hg
  | [_], [_], _, _ => sameCluster_short _ (by simp)
  | x :: y :: r, x' :: y' :: r', h, hs => by
      have hxy : x.cl = y.cl := (sameCluster_cons.mp hs y (List.mem_cons_self ..)).symm
      have htail : sameCluster (y :: r) := fun g hg k hk => hs g (List.mem_cons_of_mem _ hg) k (List.mem_cons_of_mem _ hk)
      have ih := sameCluster_of_AdjPres (a := y :: r) (b := y' :: r') h.2 htail
      rw [sameCluster_cons]
      intro g hg
      rw [h.1 hxy]
      cases List.mem_cons.mp hg with
      | inl e => rw [e]
      | inr e => exact sameCluster_cons.mp ih g e
  | [], _ :: _, h, _ => by cases h
  | [_], [], h, _ => by cases h
  | [_], _ :: _ :: _, h, _ => by cases h
  | _ :: _ :: _, [], h, _ => by cases h
  | _ :: _ :: _, [_], h, _ => by cases h

/-- … hence every block (`n` glyphs from position `i`) that was in one cluster stays in one cluster -/
theorem block_of_AdjPres {a b : List G} (h : AdjPres a b) (i n : Nat)
    (hs : sameCluster ((a.drop i).take n)) : sameCluster ((b.drop i).take n) :=
  sameCluster_of_AdjPres (AdjPres_take n (AdjPres_drop i h)) hs

/-- the cluster walks: `p` looks at the cluster only -/
theorem AdjPres_mapWhile (c0 c : Nat) : ∀ l : List G, AdjPres l (mapWhile (fun g => g.cl == c0) (setCl c) l)
  | [] => trivial
  | [x] => by simp only [mapWhile]; split <;> trivial
  | x :: y :: r => by
      have ih := AdjPres_mapWhile c0 c (y :: r)
      simp only [mapWhile] at ih ⊢
      by_cases hx : (x.cl == c0) = true
      · simp only [hx, if_true]
        by_cases hy : (y.cl == c0) = true
        · simp only [hy, if_true] at ih ⊢
          exact ⟨fun _ => rfl, ih⟩
        · simp only [hy, if_false] at ih ⊢
          refine ⟨fun h => ?_, ih⟩
          rw [h] at hx; exact absurd hx hy
      · simp only [hx, if_false]
        exact AdjPres_refl _

theorem mapWhile_append_single (p : G → Bool) (f : G → G) (g : G) : ∀ xs : List G,
    mapWhile p f (xs ++ [g]) = if xs.all p then xs.map f ++ (if p g then [f g] else [g]) else mapWhile p f xs ++ [g]
  | [] => by simp [mapWhile]
  | x :: xs => by
      have ih := mapWhile_append_single p f g xs
      simp only [List.cons_append, mapWhile, List.all_cons, List.map_cons]
      by_cases hx : p x = true
      · simp only [hx, if_true, Bool.true_and, ih]
        split <;> rfl
      · simp [hx]

theorem mapWhile_all (p : G → Bool) (f : G → G) : ∀ l : List G, l.all p = true → mapWhile p f l = l.map f
  | [], _ => rfl
  | x :: xs, h => by
      simp only [List.all_cons, Bool.and_eq_true] at h
      simp only [mapWhile, h.1, if_true, List.map_cons, mapWhile_all p f xs h.2]

/-- walking back from the end, seen from the front -/
theorem mapWhileBack_cons (p : G → Bool) (f : G → G) (g : G) (gs : List G) :
    mapWhileBack p f (g :: gs) = if (p g && gs.all p) = true then (g :: gs).map f else g :: mapWhileBack p f gs := by
  unfold mapWhileBack
  rw [List.reverse_cons, mapWhile_append_single]
  by_cases ha : gs.all p = true
  · have ha' : gs.reverse.all p = true := by simpa using ha
    simp only [ha', if_true, ha, Bool.and_true]
    by_cases hg : p g = true
    · simp [hg]
    · simp only [hg, if_false, Bool.false_eq_true]
      simp
      rw [mapWhile_all p f _ ha']; simp
  · have ha' : ¬ gs.reverse.all p = true := by simpa using ha
    have ha0 : gs.all p = false := by simpa using ha
    simp only [ha', if_false, ha0, Bool.and_false, Bool.false_eq_true]
    simp


theorem AdjPres_mapWhileBack (c0 c : Nat) : ∀ l : List G, AdjPres l (mapWhileBack (fun g => g.cl == c0) (setCl c) l)
  | [] => trivial
  | [x] => by rw [mapWhileBack_cons]; split <;> simp [AdjPres, mapWhileBack, mapWhile]
  | x :: y :: r => by
      have ih := AdjPres_mapWhileBack c0 c (y :: r)
      rw [mapWhileBack_cons]
      by_cases hall : ((x.cl == c0) && (y :: r).all (fun g => g.cl == c0)) = true
      · simp only [hall, if_true]
        exact AdjPres_map_setCl c _
      · simp only [hall, if_false]
        rw [mapWhileBack_cons] at ih ⊢
        by_cases hy : ((y.cl == c0) && r.all (fun g => g.cl == c0)) = true
        · -- the walk reaches y but stops before x: their clusters differ
          simp only [hy, if_true] at ih ⊢
          refine ⟨fun h => ?_, ih⟩
          exfalso
          apply hall
          simp only [Bool.and_eq_true, List.all_cons] at hy ⊢
          exact ⟨by rw [h]; exact hy.1, hy.1, hy.2⟩
        · simp only [hy, if_false] at ih ⊢
          exact ⟨id, ih⟩


theorem mergeIn_adj {lvl n : Nat} {out inp o i : List G} (h : mergeIn lvl n out inp = some (o, i)) : AdjPres out o := by
  unfold mergeIn at h
  split at h
  · cases h; exact AdjPres_refl _
  split at h
  · cases h; exact AdjPres_refl _
  split at h
  · cases h
  · split at h
    · cases h
    · simp only [Option.some.injEq, Prod.mk.injEq] at h
      obtain ⟨ho, _⟩ := h
      subst ho
      split
      · exact AdjPres_mapWhileBack _ _ _
      · exact AdjPres_refl _

theorem mergeOut_adj {lvl s e : Nat} {out inp o i : List G} (h : mergeOut lvl s e out inp = some (o, i))
    (hs : s ≤ out.length) : AdjPres (out.take s) (o.take s) := by
  unfold mergeOut at h
  split at h
  · cases h; exact AdjPres_refl _
  split at h
  · cases h
  split at h
  · cases h; exact AdjPres_refl _
  split at h
  · cases h
  · split at h
    · cases h
    · simp only [Option.some.injEq, Prod.mk.injEq] at h
      obtain ⟨ho, _⟩ := h
      subst ho
      rw [List.append_assoc, List.take_left' (by simp; omega)]
      exact AdjPres_mapWhileBack _ _ _


theorem replaceGlyphs_adj {lvl n : Nat} {data : List Nat} {out inp o i : List G}
    (h : replaceGlyphs lvl n data out inp = some (o, i)) : AdjPres out (o.take out.length) := by
  unfold replaceGlyphs at h
  split at h
  · cases h
  · split at h
    · cases h
    · rename_i out1 inp1 hm
      have hl := (AdjPres_length (mergeIn_adj hm)).symm
      split at h
      · cases h
      · simp only [Option.some.injEq, Prod.mk.injEq] at h
        obtain ⟨ho, _⟩ := h
        subst ho
        rw [List.take_left' hl]
        exact mergeIn_adj hm

theorem replaceGlyphs_struct_adj {lvl n : Nat} {data : List Nat} {out inp o1 x i : List G}
    (h : replaceGlyphs lvl n data out inp = some (o1 ++ x, i)) (hl : o1.length = out.length) : AdjPres out o1 := by
  have := replaceGlyphs_adj h
  rwa [← hl, List.take_left' rfl] at this

theorem closeSyllable_adj {c : Cfg} {s e : Nat} {out inp : List G} {st' : St}
    (h : closeSyllable c s e out inp = some st') (hs : s ≤ out.length) : AdjPres (out.take s) (st'.out.take s) := by
  unfold closeSyllable at h
  split at h
  · split at h
    · cases h
    · rename_i hm
      cases h
      exact mergeOut_adj hm hs
  · cases h; exact AdjPres_refl _

theorem modAt_take (f : G → G) : ∀ (k : Nat) (l l' : List G) (j : Nat), modAt f k l = some l' → j ≤ k → l'.take j = l.take j
  | _, [], _, _, h, _ => by simp [modAt] at h
  | 0, g :: gs, l', j, h, hj => by
      have : j = 0 := by omega
      subst this; simp
  | k + 1, g :: gs, l', j, h, hj => by
      simp only [modAt] at h
      cases hm : modAt f k gs with
      | none => rw [hm] at h; cases h
      | some r =>
        rw [hm] at h
        simp only [Option.map_some, Option.some.injEq] at h
        subst h
        cases j with
        | zero => simp
        | succ j' => simp only [List.take_succ_cons]; rw [modAt_take f k gs r j' hm (by omega)]

theorem tagOut_take {s e : Nat} {out o : List G} (h : tagOut s e out = some o) : o.take s = out.take s := by
  unfold tagOut at h
  split at h
  · cases h
  · rename_i o3 h3
    split at h
    · cases h
    · rename_i o4 h4
      have e3 := modAt_take _ _ _ _ s h3 (by omega)
      have e4 := modAt_take _ _ _ _ s h4 (by omega)
      split at h
      · have e5 := modAt_take _ _ _ _ s h (by omega)
        rw [e5, e4, e3]
      · cases h; rw [e4, e3]

theorem modAt_length (f : G → G) : ∀ (k : Nat) (l l' : List G), modAt f k l = some l' → l'.length = l.length
  | _, [], _, h => by simp [modAt] at h
  | 0, g :: gs, l', h => by simp only [modAt, Option.some.injEq] at h; subst h; rfl
  | k + 1, g :: gs, l', h => by
      simp only [modAt] at h
      cases hm : modAt f k gs with
      | none => rw [hm] at h; cases h
      | some r =>
        rw [hm] at h
        simp only [Option.map_some, Option.some.injEq] at h
        subst h
        simp [modAt_length f k gs r hm]

theorem tagOut_length {s e : Nat} {out o : List G} (h : tagOut s e out = some o) : o.length = out.length := by
  unfold tagOut at h
  split at h
  · cases h
  · rename_i o3 h3
    split at h
    · cases h
    · rename_i o4 h4
      have e3 := modAt_length _ _ _ _ h3
      have e4 := modAt_length _ _ _ _ h4
      split at h
      · rw [modAt_length _ _ _ _ h, e4, e3]
      · cases h; rw [e4, e3]

theorem finishDecomposed_adj {c : Cfg} {s n : Nat} {out inp : List G} {st' : St}
    (h : finishDecomposed c s n out inp = some st') (hs : s ≤ out.length) :
    AdjPres (out.take s) (st'.out.take s) := by
  unfold finishDecomposed at h
  split at h
  · cases h
  · rename_i o ht
    have := closeSyllable_adj h (by rw [tagOut_length ht]; exact hs)
    rwa [tagOut_take ht] at this


theorem closeSyllable_ok (c : Cfg) (s e : Nat) (out inp : List G) (hse : s ≤ e) (he : e ≤ out.length) :
    ∃ st', closeSyllable c s e out inp = some st' ∧ st'.start = s ∧ st'.end_ = e ∧ keys st'.out = keys out
      ∧ keys st'.inp = keys inp ∧ st'.out.length = out.length
      ∧ (c.level = 0 → s + 2 ≤ e → e = out.length → sameCluster (st'.out.drop s)) := by
  unfold closeSyllable
  split
  · rename_i h0
    obtain ⟨o, i, hm, hko, hki, hlo, _⟩ := mergeOut_ok c.level s e out inp hse he
    simp only [hm]
    exact ⟨_, rfl, rfl, rfl, hko, hki, hlo, fun _ h2 h3 => mergeOut_same c.level s e out inp o i (by omega) h2 h3 hm⟩
  · rename_i h0
    exact ⟨_, rfl, rfl, rfl, rfl, rfl, rfl, fun h => absurd h h0⟩

theorem afterTone_view (o i : List G) :
    doneK (afterTone o i) = keys o ∧ pendK (afterTone o i) = [] ∧ Inv (afterTone o i) := by
  have hv : ¬ valid (afterTone o i) := by simp [valid, afterTone]
  exact ⟨(view_invalid hv).1, (view_invalid hv).2, by simp [Inv, afterTone]⟩

theorem afterTone_invalid (o i : List G) : ¬ valid (afterTone o i) := by simp [valid, afterTone]

/-- the prefix of the out-buffer whose positions an iteration cannot disturb: all of it, except that a tone mark
    is moved in front of the open syllable -/
def stable (st : St) (g : G) : Nat := if isTone g.cp = true ∧ valid st then st.start else st.out.length

/-- what one iteration does to the glyphs already in the out-buffer: they stay (in the stable prefix), adjacent
    glyphs that shared a cluster still share one, and a newly opened syllable starts behind them -/
def AdjInfo (st : St) (g : G) (st' : St) : Prop :=
  st.out.length ≤ st'.out.length ∧ (valid st' → st.out.length ≤ st'.start) ∧
  AdjPres (st.out.take (stable st g)) (st'.out.take (stable st g))

/-- what one iteration has to establish -/
def Sim (c : Cfg) (st : St) (g : G) (rest : List G) (st' : St) : Prop :=
  Inv st' ∧
  doneK st' = doneK st ++ (stepK (sup c) (pendK st) (key g) (keys rest)).emit ∧
  pendK st' = (stepK (sup c) (pendK st) (key g) (keys rest)).pend ∧
  keys st'.inp = (stepK (sup c) (pendK st) (key g) (keys rest)).rest

theorem stepTone_sim (c : Cfg) (st : St) (g : G) (rest : List G) (ht : isTone g.cp = true) :
    ∃ st', stepTone c st g rest = some st' ∧ Sim c st g rest st' ∧ AdjInfo st g st' := by
  have htS : Spec.Hangul.isTone (key g).1 = true := by rw [← isTone_eq]; exact ht
  unfold Sim stepK AdjInfo
  simp only [htS, if_true]
  by_cases hv : valid st
  · -- a syllable is open
    have hv' := hv
    obtain ⟨hse, he⟩ := hv'
    have hpend : pendK st = (keys st.out).drop st.start := by simp [pendK, hv]
    have hdone : doneK st = (keys st.out).take st.start := by simp [doneK, hv]
    have hne : (pendK st).isEmpty = false := by
      rw [hpend]; simp [List.isEmpty_iff]; omega
    unfold stepTone
    have hcond : st.start < st.end_ ∧ st.end_ = st.out.length := hv
    rw [if_pos hcond]
    simp only [hne]
    by_cases hz : c.zeroW g.cp = true
    · simp only [hz, Bool.not_true, Bool.false_eq_true, if_false]
      have hst : stable st g = st.start := by simp [stable, ht, hv]
      refine ⟨_, rfl, ⟨(afterTone_view _ _).2.2, ?_, (afterTone_view _ _).2.1, rfl⟩,
        by simp [afterTone], fun h => absurd h (afterTone_invalid _ _), ?_⟩
      · rw [(afterTone_view _ _).1]
        simp only [sup, key, hz, hpend, hdone, if_true, keys_append, keys_cons, keys_nil]
        rw [← List.append_assoc, List.take_append_drop]
      · rw [hst]
        simp only [afterTone]
        rw [List.take_append_of_le_length (by omega)]
        exact AdjPres_refl _
    · have hz' : c.zeroW g.cp = false := by simpa using hz
      simp only [hz', Bool.not_false, if_true]
      obtain ⟨o2, i2, hm, hko, hki, hlo, _⟩ :=
        mergeOut_ok c.level st.start (st.end_ + 1) (st.out ++ [g]) rest (by omega) (by simp; omega)
      simp only [hm]
      obtain ⟨o3, hr, hk3, hl3, ht3⟩ := rotateTone_ok st.start st.end_ o2 (keys st.out) (key g)
        (by rw [hko]; simp) (by simp [he]) (by omega)
      simp only [hr]
      have hst : stable st g = st.start := by simp [stable, ht, hv]
      refine ⟨_, rfl, ⟨(afterTone_view _ _).2.2, ?_, (afterTone_view _ _).2.1, hki⟩,
        by simp [afterTone, hl3, hlo], fun h => absurd h (afterTone_invalid _ _), ?_⟩
      · rw [(afterTone_view _ _).1, hk3]
        simp [sup, key, hz', hpend, hdone]
      · rw [hst]
        simp only [afterTone]
        rw [ht3]
        have := mergeOut_adj hm (by simp; omega)
        rwa [List.take_append_of_le_length (by omega)] at this
  · have hpend : pendK st = [] := (view_invalid hv).2
    have hdone : doneK st = keys st.out := (view_invalid hv).1
    unfold stepTone
    have hcond : ¬ (st.start < st.end_ ∧ st.end_ = st.out.length) := hv
    rw [if_neg hcond]
    simp only [hpend, List.isEmpty_nil, if_true]
    by_cases hd : (!c.noDotted && c.has DOTTED_CIRCLE) = true
    · simp only [hd, if_true]
      obtain ⟨o, i, hrep, hko, hki, _, _⟩ := replaceGlyphs_ok c.level 1
        (if (!c.zeroW g.cp) = true then [g.cp, DOTTED_CIRCLE] else [DOTTED_CIRCLE, g.cp]) st.out g rest (by simp)
      simp only [hrep]
      have hst : stable st g = st.out.length := by simp [stable, hv]
      have hadj := replaceGlyphs_adj hrep
      refine ⟨_, rfl, ⟨(afterTone_view _ _).2.2, ?_, (afterTone_view _ _).2.1, by simpa [afterTone] using hki⟩,
        by simp only [afterTone]; rw [(AdjPres_length hadj)]; simp; omega,
        fun h => absurd h (afterTone_invalid _ _), ?_⟩
      · rw [(afterTone_view _ _).1, hko, hdone]
        have hd' : (sup c).dotted = true := hd
        simp only [hd', if_true]
        by_cases hz : c.zeroW g.cp = true
        · simp [sup, hz, key, DOTTED_CIRCLE, Spec.Hangul.DOTTED_CIRCLE]
        · have hz' : c.zeroW g.cp = false := by simpa using hz
          simp [sup, hz', key, DOTTED_CIRCLE, Spec.Hangul.DOTTED_CIRCLE]
      · rw [hst]
        simpa [afterTone] using hadj
    · have hd0 : (!c.noDotted && c.has DOTTED_CIRCLE) = false := by simpa using hd
      simp only [hd0, Bool.false_eq_true, if_false]
      have hst : stable st g = st.out.length := by simp [stable, hv]
      refine ⟨_, rfl, ⟨(afterTone_view _ _).2.2, ?_, (afterTone_view _ _).2.1, rfl⟩,
        by simp [afterTone], fun h => absurd h (afterTone_invalid _ _), ?_⟩
      · rw [(afterTone_view _ _).1, hdone]
        have hd' : (sup c).dotted = false := hd0
        simp [hd']
      · rw [hst]
        simpa [afterTone] using AdjPres_refl st.out


/-! ## syllable iterations -/

theorem isT_ne_zero {u : Nat} (h : isT u = true) : u ≠ 0 := by
  intro h0; subst h0; simp [isT, inRanges, tRanges] at h

theorem s_formula (l v ti : Nat) :
    SBase + (l - LBase) * NCount + (v - VBase) * TCount + ti
      = Spec.Hangul.SBase + ((l - Spec.Hangul.LBase) * Spec.Hangul.VCount + (v - Spec.Hangul.VBase)) * Spec.Hangul.TCount + ti := by
  hconst; omega

theorem compose_TBase (l v : Nat) : Spec.Hangul.compose l v Spec.Hangul.TBase
    = Spec.Hangul.SBase + ((l - Spec.Hangul.LBase) * Spec.Hangul.VCount + (v - Spec.Hangul.VBase)) * Spec.Hangul.TCount := by
  unfold Spec.Hangul.compose; hconst; omega

theorem sim_syllable (c : Cfg) (st : St) (g : G) (rest : List G) (st' : St) (hnt : isTone g.cp = false)
    (hp : (parse (sup c) (key g) (keys rest)).1 ≠ [])
    (hs : st'.start = st.out.length) (he : st'.end_ = st'.out.length)
    (hk : keys st'.out = keys st.out ++ (parse (sup c) (key g) (keys rest)).1)
    (hi : keys st'.inp = (keys rest).drop (parse (sup c) (key g) (keys rest)).2) : Sim c st g rest st' := by
  have htS : Spec.Hangul.isTone (key g).1 = false := by rw [← isTone_eq]; exact hnt
  have hpe : (parse (sup c) (key g) (keys rest)).1.isEmpty = false := by
    cases h : (parse (sup c) (key g) (keys rest)).1 with
    | nil => exact absurd h hp
    | cons _ _ => rfl
  obtain ⟨hd, hpd⟩ := view_valid (st := st') hk (by simp [hs]) he hp
  unfold Sim stepK
  simp only [htS, Bool.false_eq_true, if_false, hpe]
  exact ⟨by simp [Inv, he], by rw [hd, done_pend], hpd, hi⟩

theorem sim_fallThrough (c : Cfg) (st : St) (g : G) (rest : List G) (hinv : Inv st) (hnt : isTone g.cp = false)
    (hp : (parse (sup c) (key g) (keys rest)).1 = []) : Sim c st g rest (fallThrough st g rest) := by
  have htS : Spec.Hangul.isTone (key g).1 = false := by rw [← isTone_eq]; exact hnt
  have hv : ¬ valid (fallThrough st g rest) := by
    unfold Inv at hinv
    simp only [valid, fallThrough, List.length_append, List.length_cons, List.length_nil]
    omega
  unfold Sim stepK
  simp only [htS, Bool.false_eq_true, if_false, hp, List.isEmpty_nil, if_true]
  refine ⟨?_, ?_, (view_invalid hv).2, rfl⟩
  · unfold Inv at *; simp [fallThrough]; omega
  · rw [(view_invalid hv).1, ← List.append_assoc, done_pend]; simp [fallThrough]

/-- the shape of a state after an iteration that recognised a syllable -/
def SylOK (c : Cfg) (st : St) (g : G) (rest : List G) (st' : St) : Prop :=
  st'.start = st.out.length ∧ st'.end_ = st'.out.length ∧
  keys st'.out = keys st.out ++ (parse (sup c) (key g) (keys rest)).1 ∧
  keys st'.inp = (keys rest).drop (parse (sup c) (key g) (keys rest)).2 ∧
  (parse (sup c) (key g) (keys rest)).1 ≠ [] ∧
  (c.level = 0 → sameCluster (st'.out.drop st.out.length)) ∧
  AdjPres st.out (st'.out.take st.out.length)

theorem s_formula_0 (l v : Nat) :
    SBase + (l - LBase) * NCount + (v - VBase) * TCount + 0 = Spec.Hangul.compose l v Spec.Hangul.TBase := by
  unfold Spec.Hangul.compose; hconst; omega
theorem s_formula_t (l v t : Nat) :
    SBase + (l - LBase) * NCount + (v - VBase) * TCount + (t - TBase) = Spec.Hangul.compose l v t := by
  unfold Spec.Hangul.compose; hconst; omega

theorem stepLV_ok (c : Cfg) (st : St) (gl gv : G) (rest2 : List G) (hl : isL gl.cp = true) (hv : isV gv.cp = true) :
    ∃ st', stepLV c st gl gv rest2 = some st' ∧ SylOK c st gl (gv :: rest2) st' := by
  have hlS : Spec.Hangul.isL gl.cp = true := by rw [← isL_eq]; exact hl
  have hvS : Spec.Hangul.isV gv.cp = true := by rw [← isV_eq]; exact hv
  unfold SylOK
  cases rest2 with
  | nil =>
    simp only [stepLV, parse, key, keys_cons, keys_nil, hlS, hvS, if_true]
    simp only [isCombiningL_eq, isCombiningV_eq, isCombiningT_eq, sup,
      bne_self_eq_false, beq_self_eq_true, Bool.true_or, Bool.and_true, Bool.false_eq_true, if_false, s_formula_0]
    by_cases hc : (Spec.Hangul.isCombiningL gl.cp && Spec.Hangul.isCombiningV gv.cp &&
        c.has (Spec.Hangul.compose gl.cp gv.cp Spec.Hangul.TBase)) = true
    · simp only [hc, if_true]
      obtain ⟨o, i, hrep, hko, hki, hlo, _⟩ := replaceGlyphs_ok c.level 2
        [Spec.Hangul.compose gl.cp gv.cp Spec.Hangul.TBase] st.out gl [gv] (by simp)
      simp only [hrep]
      exact ⟨_, rfl, rfl, by simp [hlo], by simpa using hko, by simpa [key] using hki, by simp,
          fun _ => sameCluster_short _ (by simp [hlo]), replaceGlyphs_adj hrep⟩
    · simp only [hc, if_false]
      obtain ⟨st', hcs, h1, h2, h3, h4, h5, h6⟩ := closeSyllable_ok c st.out.length (st.out.length + 2)
        (st.out ++ [setTag LJMO gl, setTag VJMO gv]) [] (by omega) (by simp)
      refine ⟨st', hcs, h1, by rw [h2, h5]; simp, ?_, by simpa [key] using h4, by simp,
          fun h0 => h6 h0 (by omega) (by simp), by simpa using closeSyllable_adj hcs (by simp)⟩
      rw [h3]; simp [LJMO, VJMO, Spec.Hangul.LJMO, Spec.Hangul.VJMO]
  | cons gt rest3 =>
    by_cases hT : isT gt.cp = true
    · have hTS : Spec.Hangul.isT gt.cp = true := by rw [← isT_eq]; exact hT
      have hne : (gt.cp != 0) = true := by simp [isT_ne_zero hT]
      have heq : (gt.cp == 0) = false := by simp [isT_ne_zero hT]
      simp only [stepLV, parse, key, keys_cons, hlS, hvS, hT, hTS, if_true, hne, heq]
      simp only [isCombiningL_eq, isCombiningV_eq, isCombiningT_eq, sup, Bool.false_or, s_formula_t]
      by_cases hc : (Spec.Hangul.isCombiningL gl.cp && Spec.Hangul.isCombiningV gv.cp && Spec.Hangul.isCombiningT gt.cp &&
          c.has (Spec.Hangul.compose gl.cp gv.cp gt.cp)) = true
      · simp only [hc, if_true]
        obtain ⟨o, i, hrep, hko, hki, hlo, _⟩ := replaceGlyphs_ok c.level 3
          [Spec.Hangul.compose gl.cp gv.cp gt.cp] st.out gl (gv :: gt :: rest3) (by simp)
        simp only [hrep]
        exact ⟨_, rfl, rfl, by simp [hlo], by simpa using hko, by simpa [key] using hki, by simp,
          fun _ => sameCluster_short _ (by simp [hlo]), replaceGlyphs_adj hrep⟩
      · simp only [hc, if_false]
        obtain ⟨st', hcs, h1, h2, h3, h4, h5, h6⟩ := closeSyllable_ok c st.out.length (st.out.length + 3)
          (st.out ++ [setTag LJMO gl, setTag VJMO gv, setTag TJMO gt]) rest3 (by omega) (by simp)
        refine ⟨st', hcs, h1, by rw [h2, h5]; simp, ?_, by simpa [key] using h4, by simp,
          fun h0 => h6 h0 (by omega) (by simp), by simpa using closeSyllable_adj hcs (by simp)⟩
        rw [h3]; simp [LJMO, VJMO, TJMO, Spec.Hangul.LJMO, Spec.Hangul.VJMO, Spec.Hangul.TJMO]
    · have hT' : isT gt.cp = false := by simpa using hT
      have hTS : Spec.Hangul.isT gt.cp = false := by rw [← isT_eq]; exact hT'
      simp only [stepLV, parse, key, keys_cons, hlS, hvS, hT', hTS, if_true]
      simp only [isCombiningL_eq, isCombiningV_eq, isCombiningT_eq, sup,
        bne_self_eq_false, beq_self_eq_true, Bool.true_or, Bool.and_true, Bool.false_eq_true, if_false, s_formula_0]
      by_cases hc : (Spec.Hangul.isCombiningL gl.cp && Spec.Hangul.isCombiningV gv.cp &&
          c.has (Spec.Hangul.compose gl.cp gv.cp Spec.Hangul.TBase)) = true
      · simp only [hc, if_true]
        obtain ⟨o, i, hrep, hko, hki, hlo, _⟩ := replaceGlyphs_ok c.level 2
          [Spec.Hangul.compose gl.cp gv.cp Spec.Hangul.TBase] st.out gl (gv :: gt :: rest3) (by simp)
        simp only [hrep]
        exact ⟨_, rfl, rfl, by simp [hlo], by simpa using hko, by simpa [key] using hki, by simp,
          fun _ => sameCluster_short _ (by simp [hlo]), replaceGlyphs_adj hrep⟩
      · simp only [hc, if_false]
        obtain ⟨st', hcs, h1, h2, h3, h4, h5, h6⟩ := closeSyllable_ok c st.out.length (st.out.length + 2)
          (st.out ++ [setTag LJMO gl, setTag VJMO gv]) (gt :: rest3) (by omega) (by simp)
        refine ⟨st', hcs, h1, by rw [h2, h5]; simp, ?_, by simpa [key] using h4, by simp,
          fun h0 => h6 h0 (by omega) (by simp), by simpa using closeSyllable_adj hcs (by simp)⟩
        rw [h3]; simp [LJMO, VJMO, Spec.Hangul.LJMO, Spec.Hangul.VJMO]


theorem replaceGlyphs_struct (lvl n : Nat) (data : List Nat) (out : List G) (g0 : G) (rest : List G)
    (h : n ≤ (g0 :: rest).length) :
    ∃ o1 g1 i, replaceGlyphs lvl n data out (g0 :: rest) = some (o1 ++ data.map (fun c => setCp c g1), i)
      ∧ keys o1 = keys out ∧ o1.length = out.length ∧ g1.tag = g0.tag ∧ keys i = keys ((g0 :: rest).drop n) := by
  obtain ⟨o1, i1, hm, hko, hki, hlo, hli⟩ := mergeIn_ok lvl n out (g0 :: rest) h
  unfold replaceGlyphs
  have h3 : ¬ (g0 :: rest).length < n := by omega
  simp only [h3, if_false, hm]
  cases i1 with
  | nil => simp at hli
  | cons g1 r1 =>
    simp only
    have hk : key g1 = key g0 := by simp at hki; exact hki.1
    have ht : g1.tag = g0.tag := by have := congrArg Prod.snd hk; exact this
    exact ⟨o1, g1, _, rfl, hko, hlo, ht, by rw [keys_drop, keys_drop, hki]⟩

theorem tagOut_two (a : List G) (x y : G) :
    tagOut a.length (a.length + 2) (a ++ [x, y]) = some (a ++ [setTag LJMO x, setTag VJMO y]) := by
  unfold tagOut
  have h0 := modAt_append (setTag LJMO) a [x, y] 0
  simp only [Nat.add_zero] at h0
  rw [h0]
  simp only [modAt, Option.map_some]
  rw [modAt_append]
  simp [modAt]

theorem tagOut_three (a : List G) (x y z : G) :
    tagOut a.length (a.length + 3) (a ++ [x, y, z])
      = some (a ++ [setTag LJMO x, setTag VJMO y, setTag TJMO z]) := by
  unfold tagOut
  have h0 := modAt_append (setTag LJMO) a [x, y, z] 0
  simp only [Nat.add_zero] at h0
  rw [h0]
  simp only [modAt, Option.map_some]
  rw [modAt_append]
  simp only [modAt, Option.map_some]
  have : a.length + 2 < a.length + 3 := by omega
  simp only [this, if_true]
  rw [modAt_append]
  simp [modAt]

theorem finishDecomposed_two (c : Cfg) (a : List G) (x y : G) (inp : List G) :
    ∃ st', finishDecomposed c a.length 2 (a ++ [x, y]) inp = some st' ∧ st'.start = a.length
      ∧ st'.end_ = st'.out.length ∧ keys st'.out = keys a ++ [(x.cp, Spec.Hangul.LJMO), (y.cp, Spec.Hangul.VJMO)]
      ∧ keys st'.inp = keys inp ∧ (c.level = 0 → sameCluster (st'.out.drop a.length)) := by
  unfold finishDecomposed
  rw [tagOut_two]
  obtain ⟨st', hcs, h1, h2, h3, h4, h5, h6⟩ := closeSyllable_ok c a.length (a.length + 2)
    (a ++ [setTag LJMO x, setTag VJMO y]) inp (by omega) (by simp)
  refine ⟨st', hcs, h1, by rw [h2, h5]; simp, ?_, h4, fun h0 => h6 h0 (by omega) (by simp)⟩
  rw [h3]; simp [LJMO, VJMO, Spec.Hangul.LJMO, Spec.Hangul.VJMO]

theorem finishDecomposed_three (c : Cfg) (a : List G) (x y z : G) (inp : List G) :
    ∃ st', finishDecomposed c a.length 3 (a ++ [x, y, z]) inp = some st' ∧ st'.start = a.length
      ∧ st'.end_ = st'.out.length
      ∧ keys st'.out = keys a ++ [(x.cp, Spec.Hangul.LJMO), (y.cp, Spec.Hangul.VJMO), (z.cp, Spec.Hangul.TJMO)]
      ∧ keys st'.inp = keys inp ∧ (c.level = 0 → sameCluster (st'.out.drop a.length)) := by
  unfold finishDecomposed
  rw [tagOut_three]
  obtain ⟨st', hcs, h1, h2, h3, h4, h5, h6⟩ := closeSyllable_ok c a.length (a.length + 3)
    (a ++ [setTag LJMO x, setTag VJMO y, setTag TJMO z]) inp (by omega) (by simp)
  refine ⟨st', hcs, h1, by rw [h2, h5]; simp, ?_, h4, fun h0 => h6 h0 (by omega) (by simp)⟩
  rw [h3]; simp [LJMO, VJMO, TJMO, Spec.Hangul.LJMO, Spec.Hangul.VJMO, Spec.Hangul.TJMO]

theorem isS_not_L {u : Nat} (h : Spec.Hangul.isS u = true) : Spec.Hangul.isL u = false := by
  simp only [Spec.Hangul.isS, Spec.Hangul.isL, Bool.and_eq_true, decide_eq_true_eq] at *
  hconst
  simp only [Bool.or_eq_false_iff, Bool.and_eq_false_iff, decide_eq_false_iff_not]
  omega
theorem tindex_eq (s : Nat) : (s - SBase) % NCount % TCount = (s - Spec.Hangul.SBase) % Spec.Hangul.TCount := by
  hconst; omega
theorem lpart_eq (s : Nat) : LBase + (s - SBase) / NCount = Spec.Hangul.decompL s := rfl
theorem vpart_eq (s : Nat) : VBase + (s - SBase) % NCount / TCount = Spec.Hangul.decompV s := rfl
theorem tpart_eq (s : Nat) : TBase + (s - Spec.Hangul.SBase) % Spec.Hangul.TCount = Spec.Hangul.decompT s := rfl

theorem TBase_eq : TBase = Spec.Hangul.TBase := rfl

theorem stepS_ok (c : Cfg) (st : St) (g : G) (rest : List G) (hS : isCombinedS g.cp = true) :
    ∃ st', stepS c st g rest = some st' ∧
      (((parse (sup c) (key g) (keys rest)).1 = [] ∧ st' = fallThrough st g rest) ∨ SylOK c st g rest st') := by
  have hSS : Spec.Hangul.isS g.cp = true := by rw [← isCombinedS_eq]; exact hS
  have hnl : Spec.Hangul.isL g.cp = false := isS_not_L hSS
  unfold SylOK
  cases rest with
  | nil =>
    unfold stepS
    simp only [parse, key, keys_nil, hSS, hnl, if_true, Bool.false_eq_true, if_false]
    simp only [tindex_eq, lpart_eq, vpart_eq, tpart_eq, sup, Spec.Hangul.isLV, Bool.and_false, Bool.or_false, ite_self]
    by_cases hh : c.has g.cp = true
    · -- the font has S: keep it
      simp only [hh, Bool.not_true, Bool.false_and, Bool.false_eq_true, if_false, if_true]
      refine ⟨_, rfl, Or.inr ⟨rfl, by simp, by simp [key], by simp, by simp, fun _ => sameCluster_short _ (by simp), by simpa using AdjPres_refl st.out⟩⟩
    · have hh' : c.has g.cp = false := by simpa using hh
      simp only [hh', Bool.not_false, Bool.true_and, Bool.false_and, Bool.false_eq_true, if_false]
      by_cases hj : (c.has (Spec.Hangul.decompL g.cp) && c.has (Spec.Hangul.decompV g.cp) &&
                  ((g.cp - Spec.Hangul.SBase) % Spec.Hangul.TCount == 0 || c.has (Spec.Hangul.decompT g.cp))) = true
      · simp only [hj, if_true]
        by_cases hlv : ((g.cp - Spec.Hangul.SBase) % Spec.Hangul.TCount == 0) = true
        · have hb : ((g.cp - Spec.Hangul.SBase) % Spec.Hangul.TCount != 0) = false := by simp [bne, hlv]
          simp only [hlv, hb, Bool.false_eq_true, if_false, if_true, List.take]
          obtain ⟨o1, g1, i, hrep, hko, hlo, _, hki⟩ := replaceGlyphs_struct c.level 1
            [Spec.Hangul.decompL g.cp, Spec.Hangul.decompV g.cp] st.out g [] (by simp)
          simp only [hrep, List.map]
          obtain ⟨st', hf, h1, h2, h3, h4, h7⟩ := finishDecomposed_two c o1
            (setCp (Spec.Hangul.decompL g.cp) g1) (setCp (Spec.Hangul.decompV g.cp) g1) i
          rw [← hlo, hf]
          refine ⟨st', rfl, Or.inr ⟨by rw [h1, hlo], h2, ?_, by simpa using (h4.trans hki), by simp, fun h0 => h7 h0,
            AdjPres_trans (replaceGlyphs_struct_adj hrep hlo) (by simpa using finishDecomposed_adj hf (by simp))⟩⟩
          rw [h3, hko]; simp [setCp]
        · have hlv' : ((g.cp - Spec.Hangul.SBase) % Spec.Hangul.TCount == 0) = false := by simpa using hlv
          have hb : ((g.cp - Spec.Hangul.SBase) % Spec.Hangul.TCount != 0) = true := by simp [bne, hlv']
          simp only [hlv', hb, Bool.false_eq_true, if_false, if_true, List.take]
          obtain ⟨o1, g1, i, hrep, hko, hlo, _, hki⟩ := replaceGlyphs_struct c.level 1
            [Spec.Hangul.decompL g.cp, Spec.Hangul.decompV g.cp, Spec.Hangul.decompT g.cp] st.out g [] (by simp)
          simp only [hrep, List.map]
          obtain ⟨st', hf, h1, h2, h3, h4, h7⟩ := finishDecomposed_three c o1
            (setCp (Spec.Hangul.decompL g.cp) g1) (setCp (Spec.Hangul.decompV g.cp) g1)
            (setCp (Spec.Hangul.decompT g.cp) g1) i
          rw [← hlo, hf]
          refine ⟨st', rfl, Or.inr ⟨by rw [h1, hlo], h2, ?_, by simpa using (h4.trans hki), by simp, fun h0 => h7 h0,
            AdjPres_trans (replaceGlyphs_struct_adj hrep hlo) (by simpa using finishDecomposed_adj hf (by simp))⟩⟩
          rw [h3, hko]; simp [setCp]
      · have hj' : (c.has (Spec.Hangul.decompL g.cp) && c.has (Spec.Hangul.decompV g.cp) &&
                  ((g.cp - Spec.Hangul.SBase) % Spec.Hangul.TCount == 0 || c.has (Spec.Hangul.decompT g.cp))) = false := by
          simpa using hj
        simp only [hj', Bool.false_eq_true, if_false]
        exact ⟨_, rfl, Or.inl ⟨trivial, rfl⟩⟩
  | cons gt rest' =>
    unfold stepS
    simp only [parse, key, keys_cons, hSS, hnl, if_true, Bool.false_eq_true, if_false]
    simp only [tindex_eq, lpart_eq, vpart_eq, tpart_eq, sup, Spec.Hangul.isLV, isCombiningT_eq, isT_eq, TBase_eq]
    by_cases hlv : ((g.cp - Spec.Hangul.SBase) % Spec.Hangul.TCount == 0) = true
    · have hb : ((g.cp - Spec.Hangul.SBase) % Spec.Hangul.TCount != 0) = false := by simp [bne, hlv]
      simp only [hlv, hb, Bool.true_and, Bool.true_or, Bool.and_true, if_true, Bool.false_eq_true, if_false, List.take]
      by_cases hcomp : (Spec.Hangul.isCombiningT gt.cp && c.has (g.cp + (gt.cp - Spec.Hangul.TBase))) = true
      · -- <LV,T> composes
        simp only [hcomp, if_true]
        obtain ⟨o, i, hrep, hko, hki, hlo, _⟩ := replaceGlyphs_ok c.level 2
          [g.cp + (gt.cp - Spec.Hangul.TBase)] st.out g (gt :: rest') (by simp)
        simp only [hrep]
        exact ⟨_, rfl, Or.inr ⟨rfl, by simp [hlo], by simpa using hko, by simpa using hki, by simp,
          fun _ => sameCluster_short _ (by simp [hlo]), replaceGlyphs_adj hrep⟩⟩
      · have hcomp' : (Spec.Hangul.isCombiningT gt.cp && c.has (g.cp + (gt.cp - Spec.Hangul.TBase))) = false := by
          simpa using hcomp
        simp only [hcomp', Bool.false_eq_true, if_false]
        by_cases hh : c.has g.cp = true
        · simp only [hh, Bool.not_true, Bool.false_or, Bool.and_true, Bool.true_and, Bool.false_and]
          by_cases hTj : (Spec.Hangul.isT gt.cp && (c.has (Spec.Hangul.decompL g.cp) && c.has (Spec.Hangul.decompV g.cp))) = true
          · -- LV glyph exists, a non-composing T follows: three tagged jamo
            simp only [hTj, if_true]
            obtain ⟨o1, g1, i, hrep, hko, hlo, _, hki⟩ := replaceGlyphs_struct c.level 1
              [Spec.Hangul.decompL g.cp, Spec.Hangul.decompV g.cp] st.out g (gt :: rest') (by simp)
            simp only [hrep, List.map]
            cases i with
            | nil => simp at hki
            | cons gt1 r1 =>
              simp only [List.drop, keys_cons, List.cons.injEq] at hki
              simp only [List.append_assoc, List.cons_append, List.nil_append]
              obtain ⟨st', hf, h1, h2, h3, h4, h7⟩ := finishDecomposed_three c o1
                (setCp (Spec.Hangul.decompL g.cp) g1) (setCp (Spec.Hangul.decompV g.cp) g1) gt1 r1
              rw [← hlo, hf]
              refine ⟨st', rfl, Or.inr ⟨by rw [h1, hlo], h2, ?_, by simpa using (h4.trans hki.2), by simp, fun h0 => h7 h0,
            AdjPres_trans (replaceGlyphs_struct_adj hrep hlo) (by simpa using finishDecomposed_adj hf (by simp))⟩⟩
              have hc1 : gt1.cp = gt.cp := congrArg Prod.fst hki.1
              rw [h3, hko]; simp [setCp, hc1]
          · have hTj' : (Spec.Hangul.isT gt.cp && (c.has (Spec.Hangul.decompL g.cp) && c.has (Spec.Hangul.decompV g.cp))) = false := by
              simpa using hTj
            simp only [hTj', Bool.false_eq_true, if_false, if_true]
            refine ⟨_, rfl, Or.inr ⟨rfl, by simp, by simp [key], by simp [key], by simp, fun _ => sameCluster_short _ (by simp), by simpa using AdjPres_refl st.out⟩⟩
        · have hh' : c.has g.cp = false := by simpa using hh
          simp only [hh', Bool.not_false, Bool.true_or, Bool.true_and, Bool.and_false, Bool.false_and, Bool.false_eq_true, if_false]
          by_cases hj : (c.has (Spec.Hangul.decompL g.cp) && c.has (Spec.Hangul.decompV g.cp)) = true
          · simp only [hj, if_true]
            obtain ⟨o1, g1, i, hrep, hko, hlo, _, hki⟩ := replaceGlyphs_struct c.level 1
              [Spec.Hangul.decompL g.cp, Spec.Hangul.decompV g.cp] st.out g (gt :: rest') (by simp)
            simp only [hrep, List.map]
            obtain ⟨st', hf, h1, h2, h3, h4, h7⟩ := finishDecomposed_two c o1
              (setCp (Spec.Hangul.decompL g.cp) g1) (setCp (Spec.Hangul.decompV g.cp) g1) i
            rw [← hlo, hf]
            refine ⟨st', rfl, Or.inr ⟨by rw [h1, hlo], h2, ?_, by simpa [key] using (h4.trans hki), by simp, fun h0 => h7 h0,
            AdjPres_trans (replaceGlyphs_struct_adj hrep hlo) (by simpa using finishDecomposed_adj hf (by simp))⟩⟩
            rw [h3, hko]; simp [setCp]
          · have hj' : (c.has (Spec.Hangul.decompL g.cp) && c.has (Spec.Hangul.decompV g.cp)) = false := by simpa using hj
            simp only [hj', Bool.false_eq_true, if_false]
            exact ⟨_, rfl, Or.inl ⟨trivial, rfl⟩⟩
    · have hlv' : ((g.cp - Spec.Hangul.SBase) % Spec.Hangul.TCount == 0) = false := by simpa using hlv
      have hb : ((g.cp - Spec.Hangul.SBase) % Spec.Hangul.TCount != 0) = true := by simp [bne, hlv']
      simp only [hlv', hb, Bool.false_and, Bool.false_or, Bool.or_false, Bool.and_false, if_true, Bool.false_eq_true, if_false, List.take]
      by_cases hh : c.has g.cp = true
      · simp only [hh, Bool.not_true, Bool.false_and, Bool.false_eq_true, if_false, if_true]
        refine ⟨_, rfl, Or.inr ⟨rfl, by simp, by simp [key], by simp [key], by simp, fun _ => sameCluster_short _ (by simp), by simpa using AdjPres_refl st.out⟩⟩
      · have hh' : c.has g.cp = false := by simpa using hh
        simp only [hh', Bool.not_false, Bool.true_and, Bool.false_and, Bool.false_eq_true, if_false]
        by_cases hj : (c.has (Spec.Hangul.decompL g.cp) && c.has (Spec.Hangul.decompV g.cp) && c.has (Spec.Hangul.decompT g.cp)) = true
        · simp only [hj, if_true]
          obtain ⟨o1, g1, i, hrep, hko, hlo, _, hki⟩ := replaceGlyphs_struct c.level 1
            [Spec.Hangul.decompL g.cp, Spec.Hangul.decompV g.cp, Spec.Hangul.decompT g.cp] st.out g (gt :: rest') (by simp)
          simp only [hrep, List.map]
          obtain ⟨st', hf, h1, h2, h3, h4, h7⟩ := finishDecomposed_three c o1
            (setCp (Spec.Hangul.decompL g.cp) g1) (setCp (Spec.Hangul.decompV g.cp) g1)
            (setCp (Spec.Hangul.decompT g.cp) g1) i
          rw [← hlo, hf]
          refine ⟨st', rfl, Or.inr ⟨by rw [h1, hlo], h2, ?_, by simpa [key] using (h4.trans hki), by simp, fun h0 => h7 h0,
            AdjPres_trans (replaceGlyphs_struct_adj hrep hlo) (by simpa using finishDecomposed_adj hf (by simp))⟩⟩
          rw [h3, hko]; simp [setCp]
        · have hj' : (c.has (Spec.Hangul.decompL g.cp) && c.has (Spec.Hangul.decompV g.cp) && c.has (Spec.Hangul.decompT g.cp)) = false := by
            simpa using hj
          simp only [hj', Bool.false_eq_true, if_false]
          exact ⟨_, rfl, Or.inl ⟨trivial, rfl⟩⟩

theorem isL_not_S {u : Nat} (h : Spec.Hangul.isL u = true) : Spec.Hangul.isS u = false := by
  cases hs : Spec.Hangul.isS u with
  | false => rfl
  | true => rw [isS_not_L hs] at h; cases h

theorem parse_other (f : Support) (x : K) (rest : List K) (hl : Spec.Hangul.isL x.1 = false)
    (hs : Spec.Hangul.isS x.1 = false) : (parse f x rest).1 = [] := by
  simp [parse, hl, hs]

theorem parse_L_end (f : Support) (x : K) (hl : Spec.Hangul.isL x.1 = true) : (parse f x []).1 = [] := by
  simp [parse, hl]

theorem parse_L_nonV (f : Support) (x y : K) (rest : List K) (hl : Spec.Hangul.isL x.1 = true)
    (hv : Spec.Hangul.isV y.1 = false) : (parse f x (y :: rest)).1 = [] := by
  simp [parse, hl, hv]


theorem adj_syllable (st : St) (g : G) (st' : St) (X : List K) (hnt : isTone g.cp = false)
    (hs : st'.start = st.out.length) (hk : keys st'.out = keys st.out ++ X)
    (hadj : AdjPres st.out (st'.out.take st.out.length)) : AdjInfo st g st' := by
  have hst : stable st g = st.out.length := by simp [stable, hnt]
  have hl : st.out.length ≤ st'.out.length := by
    have := congrArg List.length hk
    simp at this; omega
  refine ⟨hl, fun _ => Nat.le_of_eq hs.symm, ?_⟩
  rw [hst, List.take_length]; exact hadj

theorem adj_fallThrough (st : St) (g : G) (rest : List G) (hnt : isTone g.cp = false) :
    AdjInfo st g (fallThrough st g rest) := by
  have hst : stable st g = st.out.length := by simp [stable, hnt]
  refine ⟨by simp [fallThrough], fun _ => by simp [fallThrough], ?_⟩
  rw [hst]
  simpa [fallThrough] using AdjPres_refl st.out

theorem step_sim (c : Cfg) (st : St) (g : G) (rest : List G) (hi : st.inp = g :: rest) (hinv : Inv st) :
    ∃ st', step c st = some st' ∧ Sim c st g rest st' ∧ AdjInfo st g st' := by
  unfold step
  rw [hi]
  simp only
  by_cases ht : isTone g.cp = true
  · simp only [ht, if_true]
    exact stepTone_sim c st g rest ht
  have ht' : isTone g.cp = false := by simpa using ht
  simp only [ht', Bool.false_eq_true, if_false]
  by_cases hl : isL g.cp = true
  · have hlS : Spec.Hangul.isL (key g).1 = true := by rw [← isL_eq]; exact hl
    have hnS : isCombinedS g.cp = false := by rw [isCombinedS_eq]; exact isL_not_S hlS
    cases rest with
    | nil =>
      simp only [hl, List.isEmpty_nil, Bool.not_true, Bool.and_false, Bool.false_eq_true, if_false, hnS]
      exact ⟨_, rfl, sim_fallThrough c st g [] hinv ht' (parse_L_end _ _ hlS), adj_fallThrough st g [] ht'⟩
    | cons gv rest2 =>
      simp only [hl, List.isEmpty_cons, Bool.not_false, Bool.and_true, if_true]
      by_cases hv : isV gv.cp = true
      · simp only [hv, if_true]
        obtain ⟨st', hs, h1, h2, h3, h4, h5⟩ := stepLV_ok c st g gv rest2 hl hv
        exact ⟨st', hs, sim_syllable c st g (gv :: rest2) st' ht' h5.1 h1 h2 h3 h4,
          adj_syllable st g st' _ ht' h1 h3 h5.2.2⟩
      · have hv' : isV gv.cp = false := by simpa using hv
        simp only [hv', Bool.false_eq_true, if_false]
        refine ⟨_, rfl, sim_fallThrough c st g (gv :: rest2) hinv ht' ?_, adj_fallThrough st g _ ht'⟩
        exact parse_L_nonV _ _ _ _ hlS (by rw [← isV_eq]; exact hv')
  · have hl' : isL g.cp = false := by simpa using hl
    simp only [hl', Bool.false_and, Bool.false_eq_true, if_false]
    by_cases hs : isCombinedS g.cp = true
    · simp only [hs, if_true]
      obtain ⟨st', hst, hor⟩ := stepS_ok c st g rest hs
      refine ⟨st', hst, ?_⟩
      cases hor with
      | inl h => rw [h.2]; exact ⟨sim_fallThrough c st g rest hinv ht' h.1, adj_fallThrough st g rest ht'⟩
      | inr h => exact ⟨sim_syllable c st g rest st' ht' h.2.2.2.2.1 h.1 h.2.1 h.2.2.1 h.2.2.2.1,
          adj_syllable st g st' _ ht' h.1 h.2.2.1 h.2.2.2.2.2.2⟩
    · have hs' : isCombinedS g.cp = false := by simpa using hs
      simp only [hs', Bool.false_eq_true, if_false]
      refine ⟨_, rfl, sim_fallThrough c st g rest hinv ht' ?_, adj_fallThrough st g rest ht'⟩
      exact parse_other _ _ _ (by rw [← isL_eq]; exact hl') (by rw [← isCombinedS_eq]; exact hs')

theorem stepK_rest_le (f : Support) (p : List K) (x : K) (rest : List K) :
    (stepK f p x rest).rest.length ≤ rest.length := by
  unfold stepK
  split
  · split <;> simp
  · simp only
    split <;> simp [List.length_drop]

theorem render_cons (f : Support) (p : List K) (x : K) (rest : List K) :
    render f p (x :: rest) = (stepK f p x rest).emit ++ render f (stepK f p x rest).pend (stepK f p x rest).rest := by
  rw [render]

theorem render_nil (f : Support) (p : List K) : render f p [] = p := by
  rw [render]

/-- the loop, seen through keys, is the abstract parser -/
theorem run_sim (c : Cfg) : ∀ (n : Nat) (st : St), st.inp.length = n → Inv st →
    ∃ st', run c st = some st' ∧ st'.inp = [] ∧
      keys st'.out = doneK st ++ render (sup c) (pendK st) (keys st.inp) := by
  intro n
  induction n using Nat.strongRecOn with
  | _ n ih =>
    intro st hn hinv
    rw [run]
    cases hi : st.inp with
    | nil =>
      simp only [if_true]
      refine ⟨st, rfl, hi, ?_⟩
      rw [keys_nil, render_nil, done_pend]
    | cons g rest =>
      simp only [reduceCtorEq, if_false]
      obtain ⟨st1, hstep, ⟨hinv1, hd, hp, hk⟩, _⟩ := step_sim c st g rest hi hinv
      rw [← hi, hstep]
      simp only
      have hlen : st1.inp.length < st.inp.length := by
        have h1 : st1.inp.length = (keys st1.inp).length := by simp
        rw [h1, hk, hi]
        have := stepK_rest_le (sup c) (pendK st) (key g) (keys rest)
        simp at this ⊢; omega
      simp only [hlen, if_true]
      obtain ⟨st', hrun, hnil, hkeys⟩ := ih st1.inp.length (by omega) st1 rfl hinv1
      refine ⟨st', hrun, hnil, ?_⟩
      rw [hkeys, hd, hp, hk, hi, keys_cons, render_cons, List.append_assoc]

/-- **Refinement.** The model never fails (no panic, no endless loop) and its output, with clusters
    forgotten, is what the abstract parser renders. -/
theorem preprocess_keys (c : Cfg) (text : List G) :
    ∃ res, preprocess c text = some res ∧ keys res = render (sup c) [] (keys text) := by
  obtain ⟨st', hrun, hnil, hkeys⟩ := run_sim c text.length { out := [], inp := text, start := 0, end_ := 0 } rfl
    (by simp [Inv])
  unfold preprocess
  rw [hrun]
  refine ⟨_, rfl, ?_⟩
  have hv : ¬ valid { out := [], inp := text, start := 0, end_ := 0 } := by simp [valid]
  simp only [hnil, List.append_nil]
  rw [hkeys, (view_invalid hv).1, (view_invalid hv).2]
  simp


/-! ## the abstract parser is local: nothing after a non-V, non-T glyph influences what comes before -/

/-- a boundary no syllable can reach across: the next glyph (if any) is neither a vowel nor a trailing jamo -/
def Safe (extra : List K) : Prop := ∀ y ∈ extra.head?, Spec.Hangul.isV y.1 = false ∧ Spec.Hangul.isT y.1 = false

theorem combT_isT {u : Nat} (h : Spec.Hangul.isCombiningT u = true) : Spec.Hangul.isT u = true := by
  simp only [Spec.Hangul.isCombiningT, Spec.Hangul.isT, Bool.and_eq_true, Bool.or_eq_true, decide_eq_true_eq] at *
  hconst; omega

theorem parse_append (f : Support) (x : K) (rest extra : List K) (hs : Safe extra) :
    parse f x (rest ++ extra) = parse f x rest := by
  cases extra with
  | nil => simp
  | cons e extra' =>
    obtain ⟨hv, ht⟩ := hs e (by simp)
    have hct : Spec.Hangul.isCombiningT e.1 = false := by
      cases h : Spec.Hangul.isCombiningT e.1 with
      | false => rfl
      | true => rw [combT_isT h] at ht; cases ht
    rcases rest with _ | ⟨y, _ | ⟨z, rest3⟩⟩
    · simp [parse, hv, ht, hct]
    · simp [parse, hv, ht, hct]
    · simp [parse]

theorem parse_snd_le (f : Support) (x : K) (rest : List K) : (parse f x rest).2 ≤ rest.length := by
  rcases rest with _ | ⟨y, _ | ⟨z, rest3⟩⟩ <;> simp only [parse] <;> (repeat' split) <;> simp

theorem stepK_append (f : Support) (p : List K) (x : K) (rest extra : List K) (hs : Safe extra) :
    stepK f p x (rest ++ extra) =
      { emit := (stepK f p x rest).emit, pend := (stepK f p x rest).pend, rest := (stepK f p x rest).rest ++ extra } := by
  unfold stepK
  by_cases ht : Spec.Hangul.isTone x.1 = true
  · simp only [ht, if_true]
    by_cases hp : p.isEmpty = true
    · simp only [hp, if_true]
    · have hp' : p.isEmpty = false := by simpa using hp
      simp only [hp', Bool.false_eq_true, if_false]
  · have ht' : Spec.Hangul.isTone x.1 = false := by simpa using ht
    simp only [ht', Bool.false_eq_true, if_false, parse_append f x rest extra hs]
    by_cases hp : (parse f x rest).1.isEmpty = true
    · simp only [hp, if_true]
    · have hp' : (parse f x rest).1.isEmpty = false := by simpa using hp
      simp only [hp', Bool.false_eq_true, if_false]
      have := parse_snd_le f x rest
      rw [List.drop_append_of_le_length this]

/-- **Locality.** Rendering a text that continues after a safe boundary: the part before the boundary is
    rendered as if it stood alone (`e ++ p`, with `p` the syllable still open for a tone mark). -/
theorem render_split (f : Support) : ∀ (n : Nat) (p inp : List K), inp.length = n →
    ∃ e q, render f p inp = e ++ q ∧
      ∀ extra, Safe extra → render f p (inp ++ extra) = e ++ render f q extra := by
  intro n
  induction n using Nat.strongRecOn with
  | _ n ih =>
    intro p inp hn
    cases inp with
    | nil => exact ⟨[], p, by simp [render_nil], by intro extra _; simp⟩
    | cons x rest =>
      have hle := stepK_rest_le f p x rest
      obtain ⟨e, q, h1, h2⟩ := ih (stepK f p x rest).rest.length (by simp at hn; omega)
        (stepK f p x rest).pend (stepK f p x rest).rest rfl
      refine ⟨(stepK f p x rest).emit ++ e, q, ?_, ?_⟩
      · rw [render_cons, h1, List.append_assoc]
      · intro extra hs
        rw [List.cons_append, render_cons, stepK_append f p x rest extra hs]
        simp only
        rw [h2 extra hs, List.append_assoc]

/-- a pending syllable is simply emitted when no tone mark follows -/
theorem render_pend (f : Support) (p inp : List K) (h : ∀ y ∈ inp.head?, Spec.Hangul.isTone y.1 = false) :
    render f p inp = p ++ render f [] inp := by
  cases inp with
  | nil => simp [render_nil]
  | cons x rest =>
    have ht := h x (by simp)
    rw [render_cons, render_cons]
    unfold stepK
    simp only [ht, Bool.false_eq_true, if_false]
    split <;> simp

/-- **Chunking.** A syllable chunk `x :: tail` that the parser takes in as a whole, standing anywhere in a
    text: everything before it and everything after it (unless that starts with a tone mark) is rendered as
    if it stood alone. -/
theorem render_chunk (f : Support) (pre tail post : List K) (x : K) (syl : List K)
    (hx : Spec.Hangul.isV x.1 = false ∧ Spec.Hangul.isT x.1 = false) (hnt : Spec.Hangul.isTone x.1 = false)
    (hp : parse f x (tail ++ post) = (syl, tail.length)) (hsyl : syl ≠ [])
    (hpost : ∀ y ∈ post.head?, Spec.Hangul.isTone y.1 = false) :
    render f [] (pre ++ x :: tail ++ post) = render f [] pre ++ syl ++ render f [] post := by
  obtain ⟨e, q, h1, h2⟩ := render_split f pre.length [] pre rfl
  have hs : Safe (x :: (tail ++ post)) := by intro y hy; simp at hy; subst hy; exact hx
  rw [List.append_assoc, List.cons_append, h2 _ hs, h1, render_cons]
  have hk : stepK f q x (tail ++ post) = { emit := q, pend := syl, rest := post } := by
    unfold stepK
    have hne : syl.isEmpty = false := by cases syl with | nil => exact absurd rfl hsyl | cons _ _ => rfl
    simp [hnt, hp, hne]
  rw [hk]
  simp only
  rw [render_pend f syl post hpost]
  simp


/-! ## what the parser does with each kind of syllable chunk -/

theorem parse_LV (f : Support) (u a v b : Nat) (rest2 : List K) (hl : Spec.Hangul.isL u = true)
    (hv : Spec.Hangul.isV v = true) (hn : ∀ y ∈ rest2.head?, Spec.Hangul.isT y.1 = false) :
    parse f (u, a) ((v, b) :: rest2) =
      (if (Spec.Hangul.isCombiningL u && Spec.Hangul.isCombiningV v && f.has (Spec.Hangul.compose u v Spec.Hangul.TBase)) = true
        then [(Spec.Hangul.compose u v Spec.Hangul.TBase, a)] else [(u, Spec.Hangul.LJMO), (v, Spec.Hangul.VJMO)], 1) := by
  cases rest2 with
  | nil => simp only [parse, hl, hv, if_true]; split <;> rfl
  | cons y r =>
    have := hn y (by simp)
    simp only [parse, hl, hv, if_true, this, Bool.false_eq_true, if_false]; split <;> rfl

theorem parse_LVT (f : Support) (u a v b t d : Nat) (rest3 : List K) (hl : Spec.Hangul.isL u = true)
    (hv : Spec.Hangul.isV v = true) (ht : Spec.Hangul.isT t = true) :
    parse f (u, a) ((v, b) :: (t, d) :: rest3) =
      (if (Spec.Hangul.isCombiningL u && Spec.Hangul.isCombiningV v && Spec.Hangul.isCombiningT t
            && f.has (Spec.Hangul.compose u v t)) = true
        then [(Spec.Hangul.compose u v t, a)]
        else [(u, Spec.Hangul.LJMO), (v, Spec.Hangul.VJMO), (t, Spec.Hangul.TJMO)], 2) := by
  simp only [parse, hl, hv, ht, if_true]; split <;> rfl

/-- the jamo a precomposed syllable decomposes into, with their features -/
def jamoOf (s : Nat) : List K :=
  [(Spec.Hangul.decompL s, Spec.Hangul.LJMO), (Spec.Hangul.decompV s, Spec.Hangul.VJMO)]
    ++ (if Spec.Hangul.isLV s = true then [] else [(Spec.Hangul.decompT s, Spec.Hangul.TJMO)])

/-- the font has every jamo of the syllable -/
def jamoOK (f : Support) (s : Nat) : Bool :=
  f.has (Spec.Hangul.decompL s) && f.has (Spec.Hangul.decompV s) && (Spec.Hangul.isLV s || f.has (Spec.Hangul.decompT s))

theorem parse_S (f : Support) (u a : Nat) (rest : List K) (hs : Spec.Hangul.isS u = true)
    (hn : ∀ y ∈ rest.head?, Spec.Hangul.isT y.1 = false) :
    parse f (u, a) rest =
      (if (!f.has u && jamoOK f u) = true then jamoOf u else if f.has u = true then [(u, a)] else [], 0) := by
  have hnl := isS_not_L hs
  cases rest with
  | nil => simp only [parse, hnl, hs, Bool.false_eq_true, if_false, if_true, jamoOf, jamoOK]; split <;> (try split) <;> rfl
  | cons y r =>
    have hT := hn y (by simp)
    have hct : Spec.Hangul.isCombiningT y.1 = false := by
      cases h : Spec.Hangul.isCombiningT y.1 with
      | false => rfl
      | true => rw [combT_isT h] at hT; cases hT
    simp only [parse, hnl, hs, hT, hct, Bool.false_eq_true, if_false, if_true, jamoOf, jamoOK, Bool.and_false, Bool.false_and]
    split <;> (try split) <;> rfl

theorem parse_S_T (f : Support) (u a t d : Nat) (rest : List K) (hs : Spec.Hangul.isS u = true) :
    parse f (u, a) ((t, d) :: rest) =
      if (Spec.Hangul.isLV u && Spec.Hangul.isCombiningT t && f.has (u + (t - Spec.Hangul.TBase))) = true
        then ([(u + (t - Spec.Hangul.TBase), a)], 1)
      else if (Spec.Hangul.isLV u && Spec.Hangul.isT t && f.has u && jamoOK f u) = true
        then (jamoOf u ++ [(t, Spec.Hangul.TJMO)], 1)
      else if (!f.has u && jamoOK f u) = true then (jamoOf u, 0)
      else if f.has u = true then ([(u, a)], 0) else ([], 0) := by
  have hnl := isS_not_L hs
  simp only [parse, hnl, hs, Bool.false_eq_true, if_false, if_true]
  rfl

/-- the same chunk followed by a tone mark -/
theorem render_chunk_tone (f : Support) (pre tail post : List K) (x tn : K) (syl : List K)
    (hx : Spec.Hangul.isV x.1 = false ∧ Spec.Hangul.isT x.1 = false) (hnt : Spec.Hangul.isTone x.1 = false)
    (hp : parse f x (tail ++ tn :: post) = (syl, tail.length)) (hsyl : syl ≠ [])
    (htn : Spec.Hangul.isTone tn.1 = true) :
    render f [] (pre ++ x :: tail ++ tn :: post) =
      render f [] pre ++ (if f.zeroW tn.1 = true then syl ++ [tn] else tn :: syl) ++ render f [] post := by
  obtain ⟨e, q, h1, h2⟩ := render_split f pre.length [] pre rfl
  have hs : Safe (x :: (tail ++ tn :: post)) := by intro y hy; simp at hy; subst hy; exact hx
  rw [List.append_assoc, List.cons_append, h2 _ hs, h1, render_cons]
  have hk : stepK f q x (tail ++ tn :: post) = { emit := q, pend := syl, rest := tn :: post } := by
    unfold stepK
    have hne : syl.isEmpty = false := by cases syl with | nil => exact absurd rfl hsyl | cons _ _ => rfl
    simp [hnt, hp, hne]
  rw [hk]
  simp only
  rw [render_cons]
  have hne : syl.isEmpty = false := by cases syl with | nil => exact absurd rfl hsyl | cons _ _ => rfl
  unfold stepK
  simp only [htn, if_true, hne, Bool.false_eq_true, if_false]
  simp


/-! ## from the abstract parser back to `preprocess` -/

theorem head_keys {P : Nat → Prop} (l : List G) (h : ∀ g ∈ l.head?, P g.cp) : ∀ y ∈ (keys l).head?, P y.1 := by
  cases l with
  | nil => intro y hy; simp at hy
  | cons g r => intro y hy; simp at hy; subst hy; exact h g (by simp)

/-- chunk `x :: tail` taken in as a whole, in any context whose continuation does not start with a tone mark -/
theorem preprocess_chunk (c : Cfg) (pre tail post : List G) (x : G) (syl : List K)
    (hx : isV x.cp = false ∧ isT x.cp = false) (hnt : isTone x.cp = false)
    (hp : parse (sup c) (key x) (keys tail ++ keys post) = (syl, tail.length)) (hsyl : syl ≠ [])
    (hpost : ∀ g ∈ post.head?, isTone g.cp = false) :
    ∃ a b r, preprocess c pre = some a ∧ preprocess c post = some b ∧
      preprocess c (pre ++ x :: tail ++ post) = some r ∧ keys r = keys a ++ syl ++ keys b := by
  obtain ⟨a, ha, hka⟩ := preprocess_keys c pre
  obtain ⟨b, hb, hkb⟩ := preprocess_keys c post
  obtain ⟨r, hr, hkr⟩ := preprocess_keys c (pre ++ x :: tail ++ post)
  refine ⟨a, b, r, ha, hb, hr, ?_⟩
  rw [hkr, hka, hkb]
  simp only [keys_append, keys_cons]
  have := render_chunk (sup c) (keys pre) (keys tail) (keys post) (key x) syl
    ⟨by rw [← isV_eq]; exact hx.1, by rw [← isT_eq]; exact hx.2⟩ (by rw [← isTone_eq]; exact hnt)
    (by simpa using hp) hsyl (head_keys (P := fun u => Spec.Hangul.isTone u = false) post
      (by intro g hg; rw [← isTone_eq]; exact hpost g hg))
  simpa using this

/-- … and followed by a tone mark `tn`: in front of the syllable unless zero-width -/
theorem preprocess_chunk_tone (c : Cfg) (pre tail post : List G) (x tn : G) (syl : List K)
    (hx : isV x.cp = false ∧ isT x.cp = false) (hnt : isTone x.cp = false)
    (hp : parse (sup c) (key x) (keys tail ++ key tn :: keys post) = (syl, tail.length)) (hsyl : syl ≠ [])
    (htn : isTone tn.cp = true) :
    ∃ a b r, preprocess c pre = some a ∧ preprocess c post = some b ∧
      preprocess c (pre ++ x :: tail ++ tn :: post) = some r ∧
      keys r = keys a ++ (if c.zeroW tn.cp = true then syl ++ [key tn] else key tn :: syl) ++ keys b := by
  obtain ⟨a, ha, hka⟩ := preprocess_keys c pre
  obtain ⟨b, hb, hkb⟩ := preprocess_keys c post
  obtain ⟨r, hr, hkr⟩ := preprocess_keys c (pre ++ x :: tail ++ tn :: post)
  refine ⟨a, b, r, ha, hb, hr, ?_⟩
  rw [hkr, hka, hkb]
  simp only [keys_append, keys_cons]
  have := render_chunk_tone (sup c) (keys pre) (keys tail) (keys post) (key x) (key tn) syl
    ⟨by rw [← isV_eq]; exact hx.1, by rw [← isT_eq]; exact hx.2⟩ (by rw [← isTone_eq]; exact hnt)
    (by simpa using hp) hsyl (by rw [← isTone_eq]; exact htn)
  simp only [List.append_assoc, List.cons_append] at this ⊢
  exact this


/-! ## the Unicode classes are disjoint where it matters -/

theorem combL_isL {u : Nat} (h : Spec.Hangul.isCombiningL u = true) : Spec.Hangul.isL u = true := by
  simp only [Spec.Hangul.isCombiningL, Spec.Hangul.isL, Bool.and_eq_true, Bool.or_eq_true, decide_eq_true_eq] at *
  hconst; omega
theorem combV_isV {u : Nat} (h : Spec.Hangul.isCombiningV u = true) : Spec.Hangul.isV u = true := by
  simp only [Spec.Hangul.isCombiningV, Spec.Hangul.isV, Bool.and_eq_true, Bool.or_eq_true, decide_eq_true_eq] at *
  hconst; omega
theorem isL_not_VT {u : Nat} (h : Spec.Hangul.isL u = true) : Spec.Hangul.isV u = false ∧ Spec.Hangul.isT u = false := by
  simp only [Spec.Hangul.isL, Spec.Hangul.isV, Spec.Hangul.isT, Bool.and_eq_true, Bool.or_eq_true, decide_eq_true_eq,
    Bool.or_eq_false_iff, Bool.and_eq_false_iff, decide_eq_false_iff_not] at *
  omega
theorem isL_not_tone {u : Nat} (h : Spec.Hangul.isL u = true) : Spec.Hangul.isTone u = false := by
  simp only [Spec.Hangul.isL, Spec.Hangul.isTone, Bool.and_eq_true, Bool.or_eq_true, decide_eq_true_eq,
    Bool.or_eq_false_iff, beq_eq_false_iff_ne] at *
  omega
theorem isS_not_VT {u : Nat} (h : Spec.Hangul.isS u = true) : Spec.Hangul.isV u = false ∧ Spec.Hangul.isT u = false := by
  simp only [Spec.Hangul.isS, Spec.Hangul.isV, Spec.Hangul.isT, Bool.and_eq_true, Bool.or_eq_true, decide_eq_true_eq,
    Bool.or_eq_false_iff, Bool.and_eq_false_iff, decide_eq_false_iff_not] at *
  hconst; omega
theorem isS_not_tone {u : Nat} (h : Spec.Hangul.isS u = true) : Spec.Hangul.isTone u = false := by
  simp only [Spec.Hangul.isS, Spec.Hangul.isTone, Bool.and_eq_true, Bool.or_eq_true, decide_eq_true_eq,
    Bool.or_eq_false_iff, beq_eq_false_iff_ne] at *
  hconst; omega


/-! ## the witness of the known finding, step by step -/

/-- a font with every jamo (and everything else below U+2000) but no precomposed syllable, level 0 -/
def jamoFont : Cfg := ⟨fun u => decide (u < 0x2000), fun _ => false, false, 0⟩

theorem known_step1 : step jamoFont { out := [], inp := [⟨0xAC00, 0, 0⟩, ⟨0x11A8, 1, 0⟩], start := 0, end_ := 0 }
    = some { out := [⟨0x1100, 0, 1⟩, ⟨0x1161, 0, 2⟩], inp := [⟨0x11A8, 1, 0⟩], start := 0, end_ := 2 } := by decide

theorem known_step2 :
    step jamoFont { out := [⟨0x1100, 0, 1⟩, ⟨0x1161, 0, 2⟩], inp := [⟨0x11A8, 1, 0⟩], start := 0, end_ := 2 }
    = some { out := [⟨0x1100, 0, 1⟩, ⟨0x1161, 0, 2⟩, ⟨0x11A8, 1, 0⟩], inp := [], start := 2, end_ := 2 } := by decide



/-- an iteration on a non-tone glyph at which the parser recognises a syllable -/
theorem step_syllable (c : Cfg) (st : St) (g : G) (rest : List G) (hi : st.inp = g :: rest)
    (ht' : isTone g.cp = false) (hp : (parse (sup c) (key g) (keys rest)).1 ≠ []) :
    ∃ st', step c st = some st' ∧ SylOK c st g rest st' := by
  unfold step
  rw [hi]
  simp only [ht', Bool.false_eq_true, if_false]
  by_cases hl : isL g.cp = true
  · have hlS : Spec.Hangul.isL (key g).1 = true := by rw [← isL_eq]; exact hl
    cases rest with
    | nil => exact absurd (parse_L_end _ _ hlS) hp
    | cons gv rest2 =>
      simp only [hl, List.isEmpty_cons, Bool.not_false, Bool.and_true, if_true]
      by_cases hv : isV gv.cp = true
      · simp only [hv, if_true]
        exact stepLV_ok c st g gv rest2 hl hv
      · have hv' : isV gv.cp = false := by simpa using hv
        exact absurd (parse_L_nonV _ _ _ _ hlS (by rw [← isV_eq]; exact hv')) hp
  · have hl' : isL g.cp = false := by simpa using hl
    simp only [hl', Bool.false_and, Bool.false_eq_true, if_false]
    by_cases hs : isCombinedS g.cp = true
    · simp only [hs, if_true]
      obtain ⟨st', hst, hor⟩ := stepS_ok c st g rest hs
      cases hor with
      | inl h => exact absurd h.1 hp
      | inr h => exact ⟨st', hst, h⟩
    · have hs' : isCombinedS g.cp = false := by simpa using hs
      exact absurd (parse_other _ _ _ (by rw [← isL_eq]; exact hl') (by rw [← isCombinedS_eq]; exact hs')) hp


/-! ## whole runs: where a chunk ends up, and that its glyphs keep sharing a cluster -/

theorem run_step (c : Cfg) (st st1 : St) (hne : st.inp ≠ []) (hs : step c st = some st1)
    (hl : st1.inp.length < st.inp.length) : run c st = run c st1 := by
  rw [run]
  simp only [hne, if_false, hs, hl, if_true]

theorem keys_inp_lt {st st1 : St} {g : G} {rest : List G} {f : Support} {p : List K}
    (hi : st.inp = g :: rest) (hk : keys st1.inp = (stepK f p (key g) (keys rest)).rest) :
    st1.inp.length < st.inp.length := by
  have h1 : st1.inp.length = (keys st1.inp).length := by simp
  rw [h1, hk, hi]
  have := stepK_rest_le f p (key g) (keys rest)
  simp at this ⊢; omega

/-- the rest of the loop never disturbs a prefix `m` of the out-buffer that lies before the open syllable
    (or all of the out-buffer when no tone mark comes next): same length or longer, and adjacent glyphs
    that shared a cluster still do -/
theorem run_adj (c : Cfg) (m : Nat) : ∀ (n : Nat) (st : St), st.inp.length = n → Inv st → m ≤ st.out.length →
    (valid st → m ≤ st.start ∨ ∀ h ∈ st.inp.head?, isTone h.cp = false) →
    ∃ stf, run c st = some stf ∧ m ≤ stf.out.length ∧ AdjPres (st.out.take m) (stf.out.take m) := by
  intro n
  induction n using Nat.strongRecOn with
  | _ n ih =>
    intro st hn hinv hm hv
    cases hi : st.inp with
    | nil =>
      refine ⟨st, ?_, hm, AdjPres_refl _⟩
      rw [run]; simp [hi]
    | cons g rest =>
      obtain ⟨st1, hstep, ⟨hinv1, _, _, hk⟩, hl1, hv1, hadj⟩ := step_sim c st g rest hi hinv
      have hlt := keys_inp_lt hi hk
      have hne : st.inp ≠ [] := by rw [hi]; simp
      have hst : m ≤ stable st g := by
        unfold stable
        split
        · rename_i h
          cases hv h.2 with
          | inl h1 => exact h1
          | inr h2 =>
            have := h2 g (by rw [hi]; simp)
            rw [h.1] at this; cases this
        · exact hm
      obtain ⟨stf, hrun, hmf, hadjf⟩ := ih st1.inp.length (by omega) st1 rfl hinv1 (by omega)
        (fun h => Or.inl (Nat.le_trans hm (hv1 h)))
      refine ⟨stf, by rw [run_step c st st1 hne hstep hlt]; exact hrun, hmf, ?_⟩
      have h1 := AdjPres_take m hadj
      rw [List.take_take, List.take_take, Nat.min_eq_left hst] at h1
      exact AdjPres_trans h1 hadjf

/-- the loop reaches the boundary in front of `B` (a glyph that is neither vowel nor trailing jamo) with the
    out-buffer holding what the text so far renders to -/
theorem run_prefix (c : Cfg) : ∀ (n : Nat) (st : St) (A B : List K), A.length = n → Inv st →
    keys st.inp = A ++ B → Safe B →
    ∃ stm, run c st = run c stm ∧ Inv stm ∧ keys stm.inp = B ∧
      keys stm.out = doneK st ++ render (sup c) (pendK st) A := by
  intro n
  induction n using Nat.strongRecOn with
  | _ n ih =>
    intro st A B hn hinv hk hs
    cases A with
    | nil =>
      refine ⟨st, rfl, hinv, by simpa using hk, ?_⟩
      rw [render_nil, done_pend]
    | cons x A' =>
      cases hi : st.inp with
      | nil => rw [hi] at hk; simp at hk
      | cons g rest =>
        rw [hi] at hk
        simp only [keys_cons, List.cons_append, List.cons.injEq] at hk
        obtain ⟨hx, hrest⟩ := hk
        obtain ⟨st1, hstep, ⟨hinv1, hd, hp, hk1⟩, _⟩ := step_sim c st g rest hi hinv
        have hlt := keys_inp_lt hi hk1
        have hne : st.inp ≠ [] := by rw [hi]; simp
        rw [hrest, hx, stepK_append _ _ _ _ _ hs] at hd hp hk1
        simp only at hd hp hk1
        have hle := stepK_rest_le (sup c) (pendK st) x A'
        obtain ⟨stm, hrun, hinvm, hkm, hout⟩ := ih (stepK (sup c) (pendK st) x A').rest.length
          (by simp at hn; omega) st1 _ B rfl hinv1 hk1 hs
        refine ⟨stm, by rw [run_step c st st1 hne hstep hlt]; exact hrun, hinvm, hkm, ?_⟩
        rw [hout, hd, hp, render_cons, List.append_assoc]


theorem run_sim' (c : Cfg) (st : St) (hinv : Inv st) : ∃ st', run c st = some st' ∧ st'.inp = [] := by
  obtain ⟨st', h1, h2, _⟩ := run_sim c st.inp.length st rfl hinv
  exact ⟨st', h1, h2⟩

/-- **One cluster, in the result.** At level 0 the glyphs a syllable chunk is rendered with share one cluster in
    the final buffer; they sit right after what the preceding text is turned into. -/
theorem one_cluster_chunk (c : Cfg) (hlev : c.level = 0) (pre tail post : List G) (x : G) (syl : List K)
    (hx : isV x.cp = false ∧ isT x.cp = false) (hnt : isTone x.cp = false)
    (hp : parse (sup c) (key x) (keys tail ++ keys post) = (syl, tail.length)) (hsyl : syl ≠ [])
    (hpost : ∀ g ∈ post.head?, isTone g.cp = false) :
    ∃ a r, preprocess c pre = some a ∧ preprocess c (pre ++ x :: tail ++ post) = some r ∧
      keys ((r.drop a.length).take syl.length) = syl ∧ sameCluster ((r.drop a.length).take syl.length) := by
  obtain ⟨a, b, r, ha, _, hr, hkr⟩ := preprocess_chunk c pre tail post x syl hx hnt hp hsyl hpost
  obtain ⟨a', ha', hka⟩ := preprocess_keys c pre
  have haa : a' = a := by rw [ha] at ha'; exact (Option.some.inj ha').symm
  subst haa
  refine ⟨a', r, ha, hr, ?_, ?_⟩
  · rw [keys_take, keys_drop, hkr, List.append_assoc, List.drop_left' (by simp), List.take_left' rfl]
  -- the run
  let st0 : St := { out := [], inp := pre ++ x :: tail ++ post, start := 0, end_ := 0 }
  have hinv0 : Inv st0 := by simp [Inv, st0]
  have hv0 : ¬ valid st0 := by simp [valid, st0]
  have hxS : Spec.Hangul.isV (key x).1 = false ∧ Spec.Hangul.isT (key x).1 = false :=
    ⟨by rw [← isV_eq]; exact hx.1, by rw [← isT_eq]; exact hx.2⟩
  have hsafe : Safe (key x :: (keys tail ++ keys post)) := by
    intro y hy; simp at hy; subst hy; exact hxS
  obtain ⟨stm, hrun0, hinvm, hkm, houtm⟩ := run_prefix c (keys pre).length st0 (keys pre)
    (key x :: (keys tail ++ keys post)) rfl hinv0 (by simp [st0]) hsafe
  rw [(view_invalid hv0).1, (view_invalid hv0).2] at houtm
  simp only [st0, keys_nil, List.nil_append] at houtm
  have hlm : stm.out.length = a'.length := by
    rw [← keys_length, houtm, ← hka, keys_length]
  -- the syllable iteration
  cases him : stm.inp with
  | nil => rw [him] at hkm; simp at hkm
  | cons g rest =>
    rw [him] at hkm
    simp only [keys_cons, List.cons.injEq] at hkm
    obtain ⟨hg, hrest⟩ := hkm
    have hgcp : g.cp = x.cp := congrArg Prod.fst hg
    have hp' : parse (sup c) (key g) (keys rest) = (syl, tail.length) := by rw [hg, hrest]; exact hp
    obtain ⟨st2, hstep2, hs2, he2, hk2, hi2, _, hcl2, _⟩ :=
      step_syllable c stm g rest him (by rw [hgcp]; exact hnt) (by rw [hp']; exact hsyl)
    rw [hp'] at hk2 hi2
    simp only at hk2 hi2
    have hl2 : st2.out.length = stm.out.length + syl.length := by
      have := congrArg List.length hk2; simpa using this
    have hi2' : keys st2.inp = keys post := by
      rw [hi2, hrest, List.drop_left' (by simp)]
    have hlt2 : st2.inp.length < stm.inp.length := by
      rw [him, ← keys_length, hi2', keys_length]
      have : rest.length = tail.length + post.length := by
        have := congrArg List.length hrest; simpa using this
      simp; omega
    have hrun2 : run c stm = run c st2 := run_step c stm st2 (by rw [him]; simp) hstep2 hlt2
    -- the rest of the loop
    have hinv2 : Inv st2 := by simp [Inv, he2]
    have hhead : ∀ h ∈ st2.inp.head?, isTone h.cp = false := by
      intro h hh
      cases hi : st2.inp with
      | nil => rw [hi] at hh; simp at hh
      | cons h' r' =>
        rw [hi] at hh hi2'
        simp at hh; subst hh
        cases post with
        | nil => simp at hi2'
        | cons p0 pr =>
          simp only [keys_cons, List.cons.injEq] at hi2'
          have : h'.cp = p0.cp := congrArg Prod.fst hi2'.1
          rw [this]; exact hpost p0 (by simp)
    obtain ⟨stf, hrunf, _, hadjf⟩ := run_adj c st2.out.length st2.inp.length st2 rfl hinv2 (Nat.le_refl _)
      (fun _ => Or.inr hhead)
    rw [List.take_length] at hadjf
    -- r is the final out-buffer
    obtain ⟨stf', hrunf', hnil⟩ := run_sim' c st0 hinv0
    have hsame : stf' = stf := by
      rw [hrun0, hrun2, hrunf] at hrunf'; exact (Option.some.inj hrunf').symm
    subst hsame
    have hr' : r = stf'.out := by
      unfold preprocess at hr
      rw [hrunf'] at hr
      simp only [Option.map_some, Option.some.injEq, hnil, List.append_nil] at hr
      exact hr.symm
    rw [hr', ← hlm]
    have hblock := block_of_AdjPres hadjf stm.out.length syl.length
      (by rw [List.take_of_length_le (by simp; omega)]; exact hcl2 hlev)
    rw [List.drop_take, List.take_take] at hblock
    have : min syl.length (st2.out.length - stm.out.length) = syl.length := by omega
    rwa [this] at hblock



/-! ## vocabulary of the property theorems -/

/-- the crate's syllable formula: `S_BASE + (l - L_BASE) * N_COUNT + (v - V_BASE) * T_COUNT + tindex`
    (`t = TBase` = no trailing consonant) -/
@[reducible] def syllable (l v t : Nat) : Nat := SBase + (l - LBase) * NCount + (v - VBase) * TCount + (t - TBase)

/-- the L / V / T parts the `is_combined_s` branch computes -/
@[reducible] def partL (s : Nat) : Nat := LBase + (s - SBase) / NCount
@[reducible] def partV (s : Nat) : Nat := VBase + (s - SBase) % NCount / TCount
@[reducible] def partT (s : Nat) : Nat := TBase + (s - SBase) % NCount % TCount

/-- a precomposed syllable the font lacks, all of whose jamo it has: the parser decomposes it -/
theorem parse_decompose_S (c : Cfg) (post : List G) (s : G)
    (hs : isCombinedS s.cp = true) (hno : c.has s.cp = false)
    (hL : c.has (partL s.cp) = true) (hV : c.has (partV s.cp) = true)
    (hT : partT s.cp = TBase ∨ c.has (partT s.cp) = true)
    (hpost : ∀ g ∈ post.head?, partT s.cp = TBase → isT g.cp = false) :
    parse (sup c) (key s) (keys ([] : List G) ++ keys post)
      = ([(partL s.cp, LJMO), (partV s.cp, VJMO)] ++ (if partT s.cp = TBase then [] else [(partT s.cp, TJMO)]),
         ([] : List G).length) := by
  have hsS : Spec.Hangul.isS s.cp = true := by rw [← isCombinedS_eq]; exact hs
  have hLV : Spec.Hangul.isLV s.cp = decide (partT s.cp = TBase) := by
    unfold Spec.Hangul.isLV partT; rw [← tindex_eq]
    rw [Bool.eq_iff_iff]; simp
  have hjam : jamoOf s.cp = [(partL s.cp, LJMO), (partV s.cp, VJMO)] ++ if partT s.cp = TBase then [] else [(partT s.cp, TJMO)] := by
    unfold jamoOf
    rw [hLV]
    simp only [decide_eq_true_eq]
    rw [← lpart_eq, ← vpart_eq, ← tpart_eq, ← tindex_eq]
    rfl
  have hok : jamoOK (sup c) s.cp = true := by
    unfold jamoOK
    rw [hLV, ← lpart_eq, ← vpart_eq, ← tpart_eq, ← tindex_eq]
    simp only [sup, Bool.and_eq_true, Bool.or_eq_true, decide_eq_true_eq]
    exact ⟨⟨hL, hV⟩, hT⟩
  have hno' : (sup c).has s.cp = false := hno
  rw [← hjam]
  simp only [keys_nil, List.nil_append, key, List.length_nil]
  cases post with
  | nil => rw [keys_nil, parse_S _ _ _ _ hsS (by simp)]; simp [hno', hok]
  | cons y r =>
    have hy := hpost y (by simp)
    by_cases hyT : Spec.Hangul.isT y.cp = true
    · have hnlv : Spec.Hangul.isLV s.cp = false := by
        rw [hLV]; simp only [decide_eq_false_iff_not]; intro h; have := hy h; rw [isT_eq, hyT] at this; cases this
      simp only [keys_cons, key]
      rw [parse_S_T _ _ _ _ _ _ hsS]
      simp [hnlv, hno', hok]
    · have hyT' : Spec.Hangul.isT y.cp = false := by simpa using hyT
      rw [parse_S _ _ _ _ hsS (by simp [key, hyT'])]; simp [hno', hok]

end RbModel.Hangul
