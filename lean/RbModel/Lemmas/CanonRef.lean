/-
  Canonical equivalence by the reference data (Gen/NormRef.lean), and its evaluation inside the blocks probed by
  tools/gens/shaper_callbacks.py.  Used by Props/C08.lean (`C08_hebrew_compose_canonical`,
  `C08_shaper_callbacks_canonical`).
-/
import RbModel.Spec.CanonEquiv
import RbModel.Gen.NormRef
import RbModel.Gen.ShaperCallbacks

namespace RbModel.Lemmas.CanonRef
open RbModel.Gen RbModel.Spec.CanonEquiv

set_option maxRecDepth 100000

/-- `<a, b>` and `<ab>` have the same NFD by the reference data (`e = (a, b, ab)`) -/
def equivRef (e : Nat × Nat × Nat) : Bool :=
  pairEquiv NormRef.decompTable NormRef.cccRanges e.1 e.2.1 e.2.2

/-- the documented Khmer split-vowel decomposition `ab ↦ <U+17C1, ab>` (the property's "Khmer split vowels") -/
def khmerSplit (e : Nat × Nat × Nat) : Bool :=
  [0x17BE, 0x17BF, 0x17C0, 0x17C4, 0x17C5].contains e.1 && e.2.1 == 0x17C1 && e.2.2 == e.1

/-! ### evaluation: the reference restricted to the probed blocks

Walking the 2 061 rows of the reference once per question is too slow for the kernel; the generator also emits the
rows of the reference whose character lies in the probed blocks (`refRows`, `refCcc`), one pass proves that they are
exactly that restriction, and inside the blocks the small tables are consulted instead (`mK`, `cK` — equal to the
reference functions everywhere). -/

/-- the probed blocks (the four `domain_*` lists of Gen/ShaperCallbacks.lean) -/
def domRanges : List (Nat × Nat) :=
  ShaperCallbacks.domain_hebrew ++ ShaperCallbacks.domain_indic ++ ShaperCallbacks.domain_khmer ++
    ShaperCallbacks.domain_use

def inDom (c : Nat) : Bool := domRanges.any fun d => Nat.ble d.1 c && Nat.ble c d.2
def touches (r : Nat × Nat × Nat) : Bool := domRanges.any fun d => Nat.ble r.1 d.2 && Nat.ble d.1 r.2.1

theorem refRows_ok : (NormRef.decompTable.filter fun r => inDom r.1) = ShaperCallbacks.refRows := by
  have h : ((NormRef.decompTable.filter fun r => inDom r.1) == ShaperCallbacks.refRows) = true := by decide +kernel
  exact eq_of_beq h

theorem refCcc_ok : NormRef.cccRanges.filter touches = ShaperCallbacks.refCcc := by
  have h : (NormRef.cccRanges.filter touches == ShaperCallbacks.refCcc) = true := by decide +kernel
  exact eq_of_beq h

def mK (c : Nat) : Option (Nat × Nat) :=
  if inDom c then mapping ShaperCallbacks.refRows c else mapping NormRef.decompTable c
def cK (c : Nat) : Nat :=
  if inDom c then ccc ShaperCallbacks.refCcc c else ccc NormRef.cccRanges c

theorem mK_eq : mK = mapping NormRef.decompTable := by
  funext c
  unfold mK
  split
  · next h => rw [← refRows_ok]; exact mapping_filter _ inDom c h
  · rfl

theorem touches_of_inDom (c : Nat) (h : inDom c = true) (r : Nat × Nat × Nat)
    (hr : (Nat.ble r.1 c && Nat.ble c r.2.1) = true) : touches r = true := by
  unfold inDom at h
  unfold touches
  rw [List.any_eq_true] at h ⊢
  obtain ⟨d, hd, hc⟩ := h
  refine ⟨d, hd, ?_⟩
  rw [Bool.and_eq_true] at hc hr ⊢
  have h1 := Nat.le_of_ble_eq_true hc.1
  have h2 := Nat.le_of_ble_eq_true hc.2
  have h3 := Nat.le_of_ble_eq_true hr.1
  have h4 := Nat.le_of_ble_eq_true hr.2
  exact ⟨Nat.ble_eq_true_of_le (Nat.le_trans h3 h2), Nat.ble_eq_true_of_le (Nat.le_trans h1 h4)⟩

theorem cK_eq : cK = ccc NormRef.cccRanges := by
  funext c
  unfold cK
  split
  · next h => rw [← refCcc_ok]; exact ccc_filter _ touches c (fun r _ hr => touches_of_inDom c h r hr)
  · rfl

def equivK (e : Nat × Nat × Nat) : Bool := pairEquivF mK cK e.1 e.2.1 e.2.2

theorem equivK_eq : equivK = equivRef := by
  funext e
  unfold equivK equivRef pairEquiv
  rw [mK_eq, cK_eq]

theorem all_of_all {α : Type} (ls : List (List α)) (p : α → Bool) (h : (ls.all fun l => l.all p) = true) :
    ∀ l ∈ ls, ∀ e ∈ l, p e = true := by
  intro l hl e he
  have h' := List.all_eq_true.mp h l hl
  exact List.all_eq_true.mp h' e he

end RbModel.Lemmas.CanonRef
