/-
  "The flagged span covers what was inspected" — part 4: the frame.  Glyphs that were NOT read do not influence the decision:
  two contexts with the same settings whose buffers agree on the glyphs one run of a matcher read give the same run (same
  verdict, same positions, same span, same reads).
-/
import RbModel.Lemmas.MatchSpanRule

namespace RbModel.Gsub
open RbModel RbModel.Buf RbModel.Mem

/-- the two contexts have the same font, lookup settings and buffer geometry; the glyph arrays (and the output mode) may
    differ -/
structure Similar (c1 c2 : Ctx) : Prop where
  font : c2.font = c1.font
  isGpos : c2.isGpos = c1.isGpos
  lookupMask : c2.lookupMask = c1.lookupMask
  lookupProps : c2.lookupProps = c1.lookupProps
  autoZwnj : c2.autoZwnj = c1.autoZwnj
  autoZwj : c2.autoZwj = c1.autoZwj
  perSyllable : c2.perSyllable = c1.perSyllable
  idx : c2.buf.idx = c1.buf.idx
  len : c2.buf.len = c1.buf.len
  outLen : c2.buf.outLen = c1.buf.outLen
  haveOutput : c2.buf.haveOutput = c1.buf.haveOutput

/-- the two buffers hold the same glyph at a read position -/
def AgreeAt (c1 c2 : Ctx) : Rd → Prop
  | .inp i => c1.buf.info[i]? = c2.buf.info[i]?
  | .out j => c1.buf.outArr[j]? = c2.buf.outArr[j]?
  | .lig j => c1.buf.outArr[j]? = c2.buf.outArr[j]?

/-- the two buffers agree on every position of the list -/
def AgreeOn (c1 c2 : Ctx) (rs : List Rd) : Prop := ∀ x ∈ rs, AgreeAt c1 c2 x

theorem get_congr {l1 l2 : List Info} {i : Nat} (h : l1[i]? = l2[i]?) : get l2 i = get l1 i := by
  unfold Mem.get; rw [h]

theorem It.new_local {c1 c2 : Ctx} (hs : Similar c1 c2) (hcur : c1.buf.info[c1.buf.idx]? = c2.buf.info[c1.buf.idx]?)
    (s : Nat) (cm : Bool) : It.new c2 s cm = It.new c1 s cm := by
  unfold It.new
  rw [hs.idx, hs.perSyllable, hs.lookupProps, hs.isGpos, hs.autoZwnj, hs.autoZwj, hs.lookupMask, hs.len, get_congr hcur]

theorem It.nextI_local (f : Font) (info1 info2 : List Info) : ∀ (fuel : Nat) (it : It) (r : Bool × It × Nat) (rs : List Nat),
    It.nextI it f info1 fuel = .ok (r, rs) → (∀ i ∈ rs, info1[i]? = info2[i]?) →
    It.nextI it f info2 fuel = .ok (r, rs) := by
  intro fuel
  induction fuel with
  | zero => intro it r rs h _; exact h
  | succ n ih =>
    intro it r rs h hag
    rw [It.nextI] at h ⊢
    split
    · rename_i hlt
      rw [if_pos hlt] at h
      cases hg : get info1 (it.idx + 1) with
      | error e => simp [hg, bind, Except.bind] at h
      | ok x =>
        simp only [hg, bind, Except.bind] at h
        have hmem : it.idx + 1 ∈ rs := by
          split at h
          · simp only [pure, Except.pure, Except.ok.injEq, Prod.mk.injEq] at h
            rw [← h.2]; simp
          · simp only [pure, Except.pure, Except.ok.injEq, Prod.mk.injEq] at h
            rw [← h.2]; simp
          · cases hr : It.nextI { it with idx := it.idx + 1 } f info1 n with
            | error e => simp [hr] at h
            | ok v =>
              simp only [hr, pure, Except.pure, Except.ok.injEq, Prod.mk.injEq] at h
              rw [← h.2]; simp
        have hg2 : get info2 (it.idx + 1) = .ok x := by rw [get_congr (hag _ hmem), hg]
        simp only [hg2, bind, Except.bind]
        split
        · rename_i hm; simp only [hm] at h; exact h
        · rename_i hm; simp only [hm] at h; exact h
        · rename_i hm
          simp only [hm] at h
          cases hr : It.nextI { it with idx := it.idx + 1 } f info1 n with
          | error e => simp [hr] at h
          | ok v =>
            obtain ⟨r2, rs2⟩ := v
            simp only [hr, pure, Except.pure, Except.ok.injEq, Prod.mk.injEq] at h
            obtain ⟨h1, h2⟩ := h
            subst h1 h2
            rw [ih _ _ _ hr (fun i hi => hag i (List.mem_cons_of_mem _ hi))]
            rfl
    · rename_i hlt
      rw [if_neg hlt] at h
      exact h

theorem It.prevI_local (f : Font) (out1 out2 : List Info) : ∀ (fuel : Nat) (it : It) (r : Bool × It × Nat) (rs : List Nat),
    It.prevI it f out1 fuel = .ok (r, rs) → (∀ i ∈ rs, out1[i]? = out2[i]?) →
    It.prevI it f out2 fuel = .ok (r, rs) := by
  intro fuel
  induction fuel with
  | zero => intro it r rs h _; exact h
  | succ n ih =>
    intro it r rs h hag
    rw [It.prevI] at h ⊢
    split
    · rename_i hlt
      rw [if_pos hlt] at h
      cases hg : get out1 (it.idx - 1) with
      | error e => simp [hg, bind, Except.bind] at h
      | ok x =>
        simp only [hg, bind, Except.bind] at h
        have hmem : it.idx - 1 ∈ rs := by
          split at h
          · simp only [pure, Except.pure, Except.ok.injEq, Prod.mk.injEq] at h
            rw [← h.2]; simp
          · simp only [pure, Except.pure, Except.ok.injEq, Prod.mk.injEq] at h
            rw [← h.2]; simp
          · cases hr : It.prevI { it with idx := it.idx - 1 } f out1 n with
            | error e => simp [hr] at h
            | ok v =>
              simp only [hr, pure, Except.pure, Except.ok.injEq, Prod.mk.injEq] at h
              rw [← h.2]; simp
        have hg2 : get out2 (it.idx - 1) = .ok x := by rw [get_congr (hag _ hmem), hg]
        simp only [hg2, bind, Except.bind]
        split
        · rename_i hm; simp only [hm] at h; exact h
        · rename_i hm; simp only [hm] at h; exact h
        · rename_i hm
          simp only [hm] at h
          cases hr : It.prevI { it with idx := it.idx - 1 } f out1 n with
          | error e => simp [hr] at h
          | ok v =>
            obtain ⟨r2, rs2⟩ := v
            simp only [hr, pure, Except.pure, Except.ok.injEq, Prod.mk.injEq] at h
            obtain ⟨h1, h2⟩ := h
            subst h1 h2
            rw [ih _ _ _ hr (fun i hi => hag i (List.mem_cons_of_mem _ hi))]
            rfl
    · rename_i hlt
      rw [if_neg hlt] at h
      exact h

theorem findLigBaseI_local (out1 out2 : List Info) (fl : Nat) : ∀ (n : Nat) (r : Bool × Nat) (rs : List Rd),
    findLigBaseI out1 fl n = .ok (r, rs) → (∀ j, Rd.lig j ∈ rs → out1[j]? = out2[j]?) →
    findLigBaseI out2 fl n = .ok (r, rs) ∧ (r.1 = true → Rd.lig r.2 ∈ rs) := by
  intro n
  induction n with
  | zero =>
    intro r rs h _
    refine ⟨h, ?_⟩
    simp only [findLigBaseI, pure, Except.pure, Except.ok.injEq, Prod.mk.injEq] at h
    rw [← h.1]; simp
  | succ n ih =>
    intro r rs h hag
    rw [findLigBaseI] at h ⊢
    cases hg : get out1 n with
    | error e => simp [hg, bind, Except.bind] at h
    | ok x =>
      simp only [hg, bind, Except.bind] at h
      have hmem : Rd.lig n ∈ rs := by
        split at h
        · split at h
          · simp only [pure, Except.pure, Except.ok.injEq, Prod.mk.injEq] at h
            rw [← h.2]; simp
          · cases hr : findLigBaseI out1 fl n with
            | error e => simp [hr] at h
            | ok v =>
              simp only [hr, pure, Except.pure, Except.ok.injEq, Prod.mk.injEq] at h
              rw [← h.2]; simp
        · simp only [pure, Except.pure, Except.ok.injEq, Prod.mk.injEq] at h
          rw [← h.2]; simp
      have hg2 : get out2 n = .ok x := by rw [get_congr (hag _ hmem), hg]
      simp only [hg2, bind, Except.bind]
      split
      · rename_i h1
        rw [if_pos h1] at h
        split
        · rename_i h2
          rw [if_pos h2] at h
          refine ⟨h, ?_⟩
          simp only [pure, Except.pure, Except.ok.injEq, Prod.mk.injEq] at h
          rw [← h.1, ← h.2]; simp
        · rename_i h2
          rw [if_neg h2] at h
          cases hr : findLigBaseI out1 fl n with
          | error e => simp [hr] at h
          | ok v =>
            obtain ⟨r2, rs2⟩ := v
            simp only [hr, pure, Except.pure, Except.ok.injEq, Prod.mk.injEq] at h
            obtain ⟨e1, e2⟩ := h
            subst e1 e2
            obtain ⟨i1, i2⟩ := ih _ _ hr (fun j hj => hag j (List.mem_cons_of_mem _ hj))
            rw [i1]
            exact ⟨rfl, fun hf => List.mem_cons_of_mem _ (i2 hf)⟩
      · rename_i h1
        rw [if_neg h1] at h
        refine ⟨h, ?_⟩
        simp only [pure, Except.pure, Except.ok.injEq, Prod.mk.injEq] at h
        rw [← h.1]; simp

theorem ligStepI_local {c1 c2 : Ctx} (hs : Similar c1 c2) (it : It) (fl fc : Nat) (this : Info) (lb : Nat)
    (o : Option Nat) (rs : List Rd) (h : ligStepI c1 it fl fc this lb = .ok (o, rs)) (hag : AgreeOn c1 c2 rs) :
    ligStepI c2 it fl fc this lb = .ok (o, rs) := by
  unfold ligStepI at h ⊢
  rw [hs.font, hs.outLen]
  split
  · rename_i h1
    rw [if_pos h1] at h
    split
    · rename_i h2
      rw [if_pos h2] at h
      split
      · rename_i h3
        rw [if_pos h3] at h
        cases hr : findLigBaseI c1.buf.outArr fl c1.buf.outLen with
        | error e => simp [hr, bind, Except.bind] at h
        | ok v =>
          obtain ⟨⟨fnd, j⟩, rs2⟩ := v
          simp only [hr, bind, Except.bind] at h
          -- the reads of the step are exactly those of the scan
          have hrs : rs = rs2 := by
            cases fnd with
            | true =>
              simp only [if_true] at h
              cases hg : get c1.buf.outArr j with
              | error e => simp [hg] at h
              | ok ob =>
                simp only [hg, pure, Except.pure] at h
                cases hm : (it.maySkip c1.font ob == Skip.yes) <;> simp [hm] at h <;> exact h.2.symm
            | false =>
              simp only [Bool.false_eq_true, if_false, pure, Except.pure] at h
              split at h <;> (simp only [Except.ok.injEq, Prod.mk.injEq] at h; exact h.2.symm)
          subst hrs
          obtain ⟨i1, i2⟩ := findLigBaseI_local _ c2.buf.outArr _ _ _ _ hr (fun j hj => hag _ hj)
          simp only [i1, bind, Except.bind]
          cases fnd with
          | true =>
            have hj := hag _ (i2 rfl)
            simp only [AgreeAt] at hj
            simp only [if_true] at h ⊢
            rw [get_congr hj]
            exact h
          | false => exact h
      · rename_i h3
        rw [if_neg h3] at h
        exact h
    · rename_i h2
      rw [if_neg h2] at h
      exact h
  · rename_i h1
    rw [if_neg h1] at h
    exact h

theorem AgreeOn.mono {c1 c2 : Ctx} {rs rs' : List Rd} (h : AgreeOn c1 c2 rs) (hsub : ∀ x ∈ rs', x ∈ rs) :
    AgreeOn c1 c2 rs' := fun x hx => h x (hsub x hx)

theorem agree_inp {c1 c2 : Ctx} {rs : List Nat} (h : AgreeOn c1 c2 (rs.map Rd.inp)) :
    ∀ i ∈ rs, c1.buf.info[i]? = c2.buf.info[i]? :=
  fun i hi => h _ (List.mem_map.mpr ⟨i, hi, rfl⟩)

theorem agree_out {c1 c2 : Ctx} {rs : List Nat} (h : AgreeOn c1 c2 (rs.map Rd.out)) :
    ∀ i ∈ rs, c1.buf.outArr[i]? = c2.buf.outArr[i]? :=
  fun i hi => h _ (List.mem_map.mpr ⟨i, hi, rfl⟩)

theorem matchInputI.loop_local {c1 c2 : Ctx} (hs : Similar c1 c2) (fl fc : Nat) : ∀ (rest : Nat) (it : It) (p : List Nat)
    (t lb k : Nat) (R : MatchInI), matchInputI.loop c1 fl fc it p t lb k rest = .ok R → AgreeOn c1 c2 R.reads →
    matchInputI.loop c2 fl fc it p t lb k rest = .ok R := by
  intro rest
  induction rest with
  | zero => intro it p t lb k R h _; exact h
  | succ n ih =>
    intro it p t lb k R h hag
    rw [matchInputI.loop] at h ⊢
    rw [hs.font, hs.len]
    cases hn : It.nextI it c1.font c1.buf.info c1.buf.len with
    | error e => simp [hn, bind, Except.bind] at h
    | ok v =>
      obtain ⟨⟨found, it', u⟩, rs⟩ := v
      simp only [hn, bind, Except.bind] at h
      cases found with
      | false =>
        simp only [Bool.not_false, if_true, pure, Except.pure, Except.ok.injEq] at h
        subst h
        rw [It.nextI_local _ _ c2.buf.info _ _ _ _ hn (agree_inp hag)]
        rfl
      | true =>
        simp only [Bool.not_true, Bool.false_eq_true, if_false] at h
        cases hg : get c1.buf.info it'.idx with
        | error e => simp [hg] at h
        | ok this =>
          simp only [hg] at h
          cases hl : ligStepI c1 it' fl fc this lb with
          | error e => simp [hl] at h
          | ok w =>
            obtain ⟨o, rs2⟩ := w
            simp only [hl] at h
            have hidx' : it'.idx ∈ rs := (It.nextI_span _ _ _ _ _ _ _ _ hn).2.2.2.2.1 rfl
            cases o with
            | none =>
              simp only [pure, Except.pure, Except.ok.injEq] at h
              subst h
              have a1 : AgreeOn c1 c2 (rs.map Rd.inp) := hag.mono (fun x hx => List.mem_append_left _ hx)
              have a2 : AgreeOn c1 c2 rs2 := hag.mono (fun x hx => List.mem_append_right _ hx)
              rw [It.nextI_local _ _ c2.buf.info _ _ _ _ hn (agree_inp a1)]
              simp only [bind, Except.bind, Bool.not_true, Bool.false_eq_true, if_false]
              rw [get_congr (agree_inp a1 _ hidx'), hg]
              simp only [ligStepI_local hs _ _ _ _ _ _ _ hl a2]
              rfl
            | some lb' =>
              simp only [] at h
              cases hr : matchInputI.loop c1 fl fc it' (p.set k it'.idx) (t + ligNumComps this) lb' (k + 1) n with
              | error e => simp [hr] at h
              | ok r =>
                simp only [hr, pure, Except.pure, Except.ok.injEq] at h
                subst h
                have a1 : AgreeOn c1 c2 (rs.map Rd.inp) :=
                  hag.mono (fun x hx => List.mem_append_left _ (List.mem_append_left _ hx))
                have a2 : AgreeOn c1 c2 rs2 := hag.mono (fun x hx => List.mem_append_left _ (List.mem_append_right _ hx))
                have a3 : AgreeOn c1 c2 r.reads := hag.mono (fun x hx => List.mem_append_right _ hx)
                rw [It.nextI_local _ _ c2.buf.info _ _ _ _ hn (agree_inp a1)]
                simp only [bind, Except.bind, Bool.not_true, Bool.false_eq_true, if_false]
                rw [get_congr (agree_inp a1 _ hidx'), hg]
                simp only [ligStepI_local hs _ _ _ _ _ _ _ hl a2, ih _ _ _ _ _ _ hr a3]
                rfl

/-- **match_input is decided by the glyphs it read**: a context with the same settings whose buffer agrees with `c1`'s on the
    reads of the run gives the same run -/
theorem matchInputI_local {c1 c2 : Ctx} (hs : Similar c1 c2) (n : Nat) (fn : Nat → Nat → Bool) (p : List Nat) (R : MatchInI)
    (h : matchInputI c1 n fn p = .ok R) (hcur : c1.buf.info[c1.buf.idx]? = c2.buf.info[c1.buf.idx]?)
    (hag : AgreeOn c1 c2 R.reads) : matchInputI c2 n fn p = .ok R := by
  unfold matchInputI at h ⊢
  by_cases hc : n + 1 > MAX_CONTEXT_LENGTH
  · simp only [hc, if_true] at h ⊢; exact h
  · simp only [hc, if_false, bind, Except.bind] at h ⊢
    rw [hs.idx, It.new_local hs hcur, get_congr hcur]
    cases hit : It.new c1 c1.buf.idx false with
    | error e => simp [hit] at h
    | ok it =>
      simp only [hit] at h ⊢
      cases hg : get c1.buf.info c1.buf.idx with
      | error e => simp [hg] at h
      | ok first =>
        simp only [hg] at h ⊢
        generalize hr : matchInputI.loop c1 (ligId first) (ligComp first) _ _ 0 0 1 _ = lr at h
        cases lr with
        | error e => simp at h
        | ok r =>
          have hag' : AgreeOn c1 c2 r.reads := by
            intro x hx
            apply hag
            simp only [] at h
            split at h <;> (simp only [pure, Except.pure, Except.ok.injEq] at h; subst h; exact List.mem_cons_of_mem _ hx)
          rw [matchInputI.loop_local hs _ _ _ _ _ _ _ _ _ hr hag']
          exact h

theorem matchLookaheadI.loop_local {c1 c2 : Ctx} (hs : Similar c1 c2) : ∀ (n : Nat) (it : It) (r : Bool × Nat)
    (rs : List Nat), matchLookaheadI.loop c1 it n = .ok (r, rs) → (∀ i ∈ rs, c1.buf.info[i]? = c2.buf.info[i]?) →
    matchLookaheadI.loop c2 it n = .ok (r, rs) := by
  intro n
  induction n with
  | zero => intro it r rs h _; exact h
  | succ n ih =>
    intro it r rs h hag
    rw [matchLookaheadI.loop] at h ⊢
    rw [hs.font, hs.len]
    cases hn : It.nextI it c1.font c1.buf.info c1.buf.len with
    | error e => simp [hn, bind, Except.bind] at h
    | ok v =>
      obtain ⟨⟨found, it', u⟩, rs1⟩ := v
      simp only [hn, bind, Except.bind] at h
      cases found with
      | false =>
        simp only [Bool.not_false, if_true, pure, Except.pure, Except.ok.injEq, Prod.mk.injEq] at h
        obtain ⟨h1, h2⟩ := h
        subst h1 h2
        rw [It.nextI_local _ _ c2.buf.info _ _ _ _ hn hag]
        rfl
      | true =>
        simp only [Bool.not_true, Bool.false_eq_true, if_false] at h
        cases hr : matchLookaheadI.loop c1 it' n with
        | error e => simp [hr] at h
        | ok w =>
          obtain ⟨r2, rs2⟩ := w
          simp only [hr, pure, Except.pure, Except.ok.injEq, Prod.mk.injEq] at h
          obtain ⟨h1, h2⟩ := h
          subst h1 h2
          rw [It.nextI_local _ _ c2.buf.info _ _ _ _ hn (fun i hi => hag i (List.mem_append_left _ hi))]
          simp only [bind, Except.bind, Bool.not_true, Bool.false_eq_true, if_false]
          rw [ih _ _ _ hr (fun i hi => hag i (List.mem_append_right _ hi))]
          rfl

/-- **match_lookahead is decided by the glyphs it read** (and, with per-syllable lookups, the current glyph) -/
theorem matchLookaheadI_local {c1 c2 : Ctx} (hs : Similar c1 c2) (n : Nat) (fn : Nat → Nat → Bool) (s : Nat)
    (r : Bool × Nat) (rs : List Nat) (h : matchLookaheadI c1 n fn s = .ok (r, rs))
    (hcur : c1.buf.info[c1.buf.idx]? = c2.buf.info[c1.buf.idx]?)
    (hag : ∀ i ∈ rs, c1.buf.info[i]? = c2.buf.info[i]?) : matchLookaheadI c2 n fn s = .ok (r, rs) := by
  unfold matchLookaheadI at h ⊢
  by_cases h0 : s = 0
  · simp only [h0, if_true] at h ⊢; exact h
  · simp only [h0, if_false, bind, Except.bind] at h ⊢
    rw [It.new_local hs hcur]
    cases hit : It.new c1 (s - 1) true with
    | error e => simp [hit] at h
    | ok it =>
      simp only [hit] at h ⊢
      exact matchLookaheadI.loop_local hs _ _ _ _ h hag

theorem matchBacktrackI.loop_local {c1 c2 : Ctx} (hs : Similar c1 c2) : ∀ (n : Nat) (it : It) (r : Bool × Nat)
    (rs : List Nat), matchBacktrackI.loop c1 it n = .ok (r, rs) → (∀ i ∈ rs, c1.buf.outArr[i]? = c2.buf.outArr[i]?) →
    matchBacktrackI.loop c2 it n = .ok (r, rs) := by
  intro n
  induction n with
  | zero => intro it r rs h _; exact h
  | succ n ih =>
    intro it r rs h hag
    rw [matchBacktrackI.loop] at h ⊢
    rw [hs.font]
    cases hn : It.prevI it c1.font c1.buf.outArr (it.idx + 1) with
    | error e => simp [hn, bind, Except.bind] at h
    | ok v =>
      obtain ⟨⟨found, it', u⟩, rs1⟩ := v
      simp only [hn, bind, Except.bind] at h
      cases found with
      | false =>
        simp only [Bool.not_false, if_true, pure, Except.pure, Except.ok.injEq, Prod.mk.injEq] at h
        obtain ⟨h1, h2⟩ := h
        subst h1 h2
        rw [It.prevI_local _ _ c2.buf.outArr _ _ _ _ hn hag]
        rfl
      | true =>
        simp only [Bool.not_true, Bool.false_eq_true, if_false] at h
        cases hr : matchBacktrackI.loop c1 it' n with
        | error e => simp [hr] at h
        | ok w =>
          obtain ⟨r2, rs2⟩ := w
          simp only [hr, pure, Except.pure, Except.ok.injEq, Prod.mk.injEq] at h
          obtain ⟨h1, h2⟩ := h
          subst h1 h2
          rw [It.prevI_local _ _ c2.buf.outArr _ _ _ _ hn (fun i hi => hag i (List.mem_append_left _ hi))]
          simp only [bind, Except.bind, Bool.not_true, Bool.false_eq_true, if_false]
          rw [ih _ _ _ hr (fun i hi => hag i (List.mem_append_right _ hi))]
          rfl

/-- **match_backtrack is decided by the out-buffer glyphs it read** (and, with per-syllable lookups, the current glyph) -/
theorem matchBacktrackI_local {c1 c2 : Ctx} (hs : Similar c1 c2) (n : Nat) (fn : Nat → Nat → Bool)
    (r : Bool × Nat) (rs : List Nat) (h : matchBacktrackI c1 n fn = .ok (r, rs))
    (hcur : c1.buf.info[c1.buf.idx]? = c2.buf.info[c1.buf.idx]?)
    (hag : ∀ i ∈ rs, c1.buf.outArr[i]? = c2.buf.outArr[i]?) : matchBacktrackI c2 n fn = .ok (r, rs) := by
  unfold matchBacktrackI at h ⊢
  simp only [bind, Except.bind] at h ⊢
  rw [hs.haveOutput, hs.outLen, hs.idx, It.new_local hs hcur]
  cases hit : It.new c1 (if c1.buf.haveOutput then c1.buf.outLen else c1.buf.idx) true with
  | error e => simp [hit] at h
  | ok it =>
    simp only [hit] at h ⊢
    exact matchBacktrackI.loop_local hs _ _ _ _ h hag

/-- **the matching phase of a chain rule is decided by the glyphs it read** -/
theorem chainMatchI_local {c1 c2 : Ctx} (hs : Similar c1 c2) (nBack nIn nAhead : Nat) (fBack fIn fAhead : Nat → Nat → Bool)
    (m : ChainM) (h : chainMatchI c1 nBack nIn nAhead fBack fIn fAhead = .ok m)
    (hcur : c1.buf.info[c1.buf.idx]? = c2.buf.info[c1.buf.idx]?) (hag : AgreeOn c1 c2 m.reads) :
    chainMatchI c2 nBack nIn nAhead fBack fIn fAhead = .ok m := by
  unfold chainMatchI at h ⊢
  rw [hs.idx]
  cases hR : matchInputI c1 nIn fIn [0, 0, 0, 0] with
  | error e => simp [hR, bind, Except.bind] at h
  | ok R =>
    simp only [hR, bind, Except.bind] at h
    cases hok : R.r.ok with
    | false =>
      simp only [hok, Bool.not_false, if_true, pure, Except.pure, Except.ok.injEq] at h
      subst h
      rw [matchInputI_local hs _ _ _ R hR hcur hag]
      simp only [bind, Except.bind, hok, Bool.not_false, if_true]
      rfl
    | true =>
      simp only [hok, Bool.not_true, Bool.false_eq_true, if_false] at h
      cases hA : matchLookaheadI c1 nAhead fAhead R.r.endPos with
      | error e => simp [hA] at h
      | ok v =>
        obtain ⟨⟨okA, e⟩, rsA⟩ := v
        simp only [hA] at h
        cases okA with
        | false =>
          simp only [Bool.not_false, if_true, pure, Except.pure, Except.ok.injEq] at h
          subst h
          have a1 : AgreeOn c1 c2 R.reads := hag.mono (fun x hx => List.mem_append_left _ hx)
          have a2 : AgreeOn c1 c2 (rsA.map Rd.inp) := hag.mono (fun x hx => List.mem_append_right _ hx)
          rw [matchInputI_local hs _ _ _ R hR hcur a1]
          simp only [bind, Except.bind, hok, Bool.not_true, Bool.false_eq_true, if_false]
          rw [matchLookaheadI_local hs _ _ _ _ _ hA hcur (agree_inp a2)]
          rfl
        | true =>
          simp only [Bool.not_true, Bool.false_eq_true, if_false] at h
          cases hB : matchBacktrackI c1 nBack fBack with
          | error e => simp [hB] at h
          | ok w =>
            obtain ⟨⟨okB, st⟩, rsB⟩ := w
            simp only [hB] at h
            have key : AgreeOn c1 c2 (R.reads ++ rsA.map Rd.inp ++ rsB.map Rd.out) →
                (do
                  let R ← matchInputI c2 nIn fIn [0, 0, 0, 0]
                  if !R.r.ok then return (⟨R, .inputFail, 0, max R.r.endPos c1.buf.idx, R.reads⟩ : ChainM)
                  let ((okA, e), rsA) ← matchLookaheadI c2 nAhead fAhead R.r.endPos
                  if !okA then return ⟨R, .aheadFail, 0, e, R.reads ++ rsA.map .inp⟩
                  let ((okB, st), rsB) ← matchBacktrackI c2 nBack fBack
                  if !okB then return ⟨R, .backFail, st, e, R.reads ++ rsA.map .inp ++ rsB.map .out⟩
                  return ⟨R, .matched, st, e, R.reads ++ rsA.map .inp ++ rsB.map .out⟩) =
                (if !okB then (pure ⟨R, .backFail, st, e, R.reads ++ rsA.map .inp ++ rsB.map .out⟩ : M ChainM)
                 else pure ⟨R, .matched, st, e, R.reads ++ rsA.map .inp ++ rsB.map .out⟩) := by
              intro hag'
              have a1 : AgreeOn c1 c2 R.reads :=
                hag'.mono (fun x hx => List.mem_append_left _ (List.mem_append_left _ hx))
              have a2 : AgreeOn c1 c2 (rsA.map Rd.inp) :=
                hag'.mono (fun x hx => List.mem_append_left _ (List.mem_append_right _ hx))
              have a3 : AgreeOn c1 c2 (rsB.map Rd.out) := hag'.mono (fun x hx => List.mem_append_right _ hx)
              rw [matchInputI_local hs _ _ _ R hR hcur a1]
              simp only [bind, Except.bind, hok, Bool.not_true, Bool.false_eq_true, if_false]
              rw [matchLookaheadI_local hs _ _ _ _ _ hA hcur (agree_inp a2)]
              simp only [Bool.not_true, Bool.false_eq_true, if_false]
              rw [matchBacktrackI_local hs _ _ _ _ hB hcur (agree_out a3)]
            cases okB with
            | false =>
              simp only [Bool.not_false, if_true, pure, Except.pure, Except.ok.injEq] at h
              subst h
              exact key hag
            | true =>
              simp only [Bool.not_true, Bool.false_eq_true, if_false, pure, Except.pure, Except.ok.injEq] at h
              subst h
              exact key hag

end RbModel.Gsub
