/-
  Cluster bookkeeping of the buffer: loop lemmas and the pointwise meaning of `merge_clusters` /
  `merge_out_clusters` on the logical glyph sequence (`Buf.seq`, Lemmas/BufZipper.lean).
  Part 1: the loops of the two merge routines.
-/
import RbModel.Cluster
import RbModel.Lemmas.BufZipper

namespace RbModel.Buf
open RbModel.Mem

/-- cluster value at an index of a Vec (`none` outside) -/
def cl? (l : List Info) (q : Nat) : Option Nat := (l[q]?).map (·.cluster)

theorem cl?_of_get {l : List Info} {q : Nat} {x : Info} (h : l[q]? = some x) : cl? l q = some x.cluster := by
  simp [cl?, h]

theorem cl?_lt {l : List Info} {q : Nat} (h : q < l.length) : cl? l q = some l[q].cluster := by
  simp [cl?, List.getElem?_eq_getElem h]

theorem cl?_set_ne (l : List Info) (i q : Nat) (x : Info) (h : i ≠ q) : cl? (l.set i x) q = cl? l q := by
  simp [cl?, List.getElem?_set_ne h]

/-! ### `cluster = min(cluster, info[i].cluster)` loops -/

theorem minClusterLoop_spec (l : List Info) : ∀ (k i c : Nat), i + k ≤ l.length →
    ∃ m, minClusterLoop l c i k = .ok m ∧ m ≤ c ∧
      (∀ q, i ≤ q → q < i + k → ∀ v, cl? l q = some v → m ≤ v) ∧
      (m = c ∨ ∃ q, i ≤ q ∧ q < i + k ∧ cl? l q = some m) := by
  intro k
  induction k with
  | zero =>
    intro i c _
    exact ⟨c, rfl, Nat.le_refl _, by intro q h1 h2; omega, Or.inl rfl⟩
  | succ k ih =>
    intro i c h
    have hi : i < l.length := by omega
    obtain ⟨m, hm, hle, hall, hex⟩ := ih (i + 1) (min c l[i].cluster) (by omega)
    refine ⟨m, ?_, ?_, ?_, ?_⟩
    · simp only [minClusterLoop, get_ok hi, bind, Except.bind]; exact hm
    · have := Nat.min_le_left c l[i].cluster; omega
    · intro q h1 h2 v hv
      by_cases hq : q = i
      · subst hq
        rw [cl?_lt hi] at hv
        cases hv
        have := Nat.min_le_right c l[q].cluster; omega
      · exact hall q (by omega) (by omega) v hv
    · rcases hex with h1 | ⟨q, h1, h2, h3⟩
      · by_cases hc : c ≤ l[i].cluster
        · left; rw [h1]; exact Nat.min_eq_left hc
        · right
          refine ⟨i, Nat.le_refl _, by omega, ?_⟩
          rw [cl?_lt hi, h1, Nat.min_eq_right (by omega)]
      · right; exact ⟨q, by omega, by omega, h3⟩

/-! ### extend end -/

theorem extendEnd_spec (l : List Info) (len : Nat) (hlen : len ≤ l.length) :
    ∀ (fuel e : Nat), 1 ≤ e → e ≤ len → len - e ≤ fuel →
    ∃ e', extendEnd l len e fuel = .ok e' ∧ e ≤ e' ∧ e' ≤ len ∧
      (∀ q, e ≤ q → q < e' → cl? l q = cl? l (e - 1)) ∧
      (e' = len ∨ cl? l e' ≠ cl? l (e - 1)) := by
  intro fuel
  induction fuel with
  | zero =>
    intro e h1 h2 h3
    have : e = len := by omega
    subst this
    exact ⟨e, rfl, Nat.le_refl _, Nat.le_refl _, by intro q a b; omega, Or.inl rfl⟩
  | succ fuel ih =>
    intro e h1 h2 h3
    by_cases he : e < len
    · have ha : e - 1 < l.length := by omega
      have hc : e < l.length := by omega
      have hne : ¬ e = 0 := by omega
      by_cases heq : l[e - 1].cluster = l[e].cluster
      · obtain ⟨e', hr, hle1, hle2, hall, hstop⟩ := ih (e + 1) (by omega) (by omega) (by omega)
        have hcl : cl? l e = cl? l (e - 1) := by rw [cl?_lt hc, cl?_lt ha, heq]
        refine ⟨e', ?_, by omega, hle2, ?_, ?_⟩
        · simp only [extendEnd, he, if_true, hne, if_false, get_ok ha, get_ok hc, bind, Except.bind]
          simp only [heq, beq_self_eq_true, if_true]
          exact hr
        · intro q a b
          by_cases hq : q = e
          · subst hq; exact hcl
          · have := hall q (by omega) b
            simp only [Nat.add_sub_cancel] at this
            rw [this, hcl]
        · simp only [Nat.add_sub_cancel] at hstop
          rcases hstop with h | h
          · exact Or.inl h
          · right; rw [← hcl]; exact h
      · refine ⟨e, ?_, Nat.le_refl _, h2, by intro q a b; omega, ?_⟩
        · simp only [extendEnd, he, if_true, hne, if_false, get_ok ha, get_ok hc, bind, Except.bind]
          have : (l[e - 1].cluster == l[e].cluster) = false := by simpa using heq
          simp only [this, Bool.false_eq_true, if_false]; rfl
        · right
          rw [cl?_lt hc, cl?_lt ha]
          intro h; exact heq (Option.some.inj h).symm
    · have : e = len := by omega
      subst this
      refine ⟨e, ?_, Nat.le_refl _, Nat.le_refl _, by intro q a b; omega, Or.inl rfl⟩
      simp only [extendEnd, he, if_false]; rfl

/-! ### extend start -/

theorem extendStart_spec (l : List Info) (lo : Nat) : ∀ (s : Nat), s < l.length →
    ∃ s', extendStart l lo s = .ok s' ∧ s' ≤ s ∧ (lo ≤ s → lo ≤ s') ∧
      (∀ q, s' ≤ q → q ≤ s → cl? l q = cl? l s) ∧
      (s' ≤ lo ∨ cl? l (s' - 1) ≠ cl? l s) := by
  intro s
  induction s with
  | zero =>
    intro _
    refine ⟨0, rfl, Nat.le_refl _, fun h => h, ?_, Or.inl (Nat.zero_le _)⟩
    intro q a b
    have : q = 0 := by omega
    subst this; rfl
  | succ s ih =>
    intro hs
    by_cases hg : lo < s + 1
    · have ha : s < l.length := by omega
      by_cases heq : l[s].cluster = l[s + 1].cluster
      · obtain ⟨s', hr, hle, hlo, hall, hstop⟩ := ih ha
        have hcl : cl? l s = cl? l (s + 1) := by rw [cl?_lt ha, cl?_lt hs, heq]
        refine ⟨s', ?_, by omega, fun _ => hlo (by omega), ?_, ?_⟩
        · simp only [extendStart, hg, if_true, get_ok ha, get_ok hs, bind, Except.bind]
          simp only [heq, beq_self_eq_true, if_true]
          exact hr
        · intro q a b
          by_cases hq : q = s + 1
          · subst hq; rfl
          · rw [hall q a (by omega), hcl]
        · rcases hstop with h | h
          · exact Or.inl h
          · right; rw [← hcl]; exact h
      · refine ⟨s + 1, ?_, Nat.le_refl _, fun h => h, ?_, ?_⟩
        · simp only [extendStart, hg, if_true, get_ok ha, get_ok hs, bind, Except.bind]
          have : (l[s].cluster == l[s + 1].cluster) = false := by simpa using heq
          simp only [this, Bool.false_eq_true, if_false]; rfl
        · intro q a b
          have : q = s + 1 := by omega
          subst this; rfl
        · right
          simp only [Nat.add_sub_cancel]
          rw [cl?_lt ha, cl?_lt hs]
          intro h; exact heq (Option.some.inj h)
    · refine ⟨s + 1, ?_, Nat.le_refl _, fun h => h, ?_, Or.inl (by omega)⟩
      · simp only [extendStart, hg, if_false]; rfl
      · intro q a b
        have : q = s + 1 := by omega
        subst this; rfl

theorem extendStartOut_spec (l : List Info) : ∀ (s : Nat), s < l.length →
    ∃ s', extendStartOut l s = .ok s' ∧ s' ≤ s ∧
      (∀ q, s' ≤ q → q ≤ s → cl? l q = cl? l s) ∧
      (s' = 0 ∨ cl? l (s' - 1) ≠ cl? l s) := by
  intro s
  induction s with
  | zero =>
    intro _
    refine ⟨0, rfl, Nat.le_refl _, ?_, Or.inl rfl⟩
    intro q a b
    have : q = 0 := by omega
    subst this; rfl
  | succ s ih =>
    intro hs
    have ha : s < l.length := by omega
    by_cases heq : l[s].cluster = l[s + 1].cluster
    · obtain ⟨s', hr, hle, hall, hstop⟩ := ih ha
      have hcl : cl? l s = cl? l (s + 1) := by rw [cl?_lt ha, cl?_lt hs, heq]
      refine ⟨s', ?_, by omega, ?_, ?_⟩
      · simp only [extendStartOut, get_ok ha, get_ok hs, bind, Except.bind]
        simp only [heq, beq_self_eq_true, if_true]
        exact hr
      · intro q a b
        by_cases hq : q = s + 1
        · subst hq; rfl
        · rw [hall q a (by omega), hcl]
      · rcases hstop with h | h
        · exact Or.inl h
        · right; rw [← hcl]; exact h
    · refine ⟨s + 1, ?_, Nat.le_refl _, ?_, ?_⟩
      · simp only [extendStartOut, get_ok ha, get_ok hs, bind, Except.bind]
        have : (l[s].cluster == l[s + 1].cluster) = false := by simpa using heq
        simp only [this, Bool.false_eq_true, if_false]; rfl
      · intro q a b
        have : q = s + 1 := by omega
        subst this; rfl
      · right
        simp only [Nat.add_sub_cancel]
        rw [cl?_lt ha, cl?_lt hs]
        intro h; exact heq (Option.some.inj h)

/-! ### relabelling loops -/

/-- `set_cluster` on every record of `[i, i+k)` -/
theorem setClusterRange_spec (cluster : Nat) : ∀ (k i : Nat) (l : List Info), i + k ≤ l.length →
    ∃ r, setClusterRange l cluster i k = .ok r ∧ r.length = l.length ∧
      ∀ q, r[q]? = if i ≤ q ∧ q < i + k then (l[q]?).map (fun x => setCluster x cluster 0) else l[q]? := by
  intro k
  induction k with
  | zero =>
    intro i l _
    refine ⟨l, rfl, rfl, ?_⟩
    intro q
    have : ¬ (i ≤ q ∧ q < i + 0) := by omega
    simp only [this, if_false]
  | succ k ih =>
    intro i l h
    have hi : i < l.length := by omega
    obtain ⟨r, hr, hlen, hq⟩ := ih (i + 1) (l.set i (setCluster l[i] cluster 0)) (by simp; omega)
    refine ⟨r, ?_, by simpa using hlen, ?_⟩
    · simp only [setClusterRange, get_ok hi, bind, Except.bind]; exact hr
    · intro q
      rw [hq q]
      by_cases hq1 : q = i
      · subst hq1
        rw [if_neg (by omega), if_pos (by omega)]
        rw [List.getElem?_set_self hi, List.getElem?_eq_getElem hi]; rfl
      · rw [List.getElem?_set_ne (by omega)]
        by_cases hr1 : i + 1 ≤ q ∧ q < i + 1 + k
        · have : i ≤ q ∧ q < i + (k + 1) := by omega
          simp only [hr1, this, and_self, if_true]
        · have : ¬ (i ≤ q ∧ q < i + (k + 1)) := by omega
          simp only [hr1, this, if_false]

/-- the backward walk through the out-buffer: relabels the maximal run of cluster `c` ending at `i` -/
theorem relabelOutBack_spec (c cluster mask : Nat) : ∀ (i : Nat) (o : List Info), i ≤ o.length →
    ∃ r k, relabelOutBack o c cluster mask i = .ok r ∧ k ≤ i ∧ r.length = o.length ∧
      (∀ q, r[q]? = if k ≤ q ∧ q < i then (o[q]?).map (fun x => setCluster x cluster mask) else o[q]?) ∧
      (∀ q, k ≤ q → q < i → cl? o q = some c) ∧
      (k = 0 ∨ cl? o (k - 1) ≠ some c) := by
  intro i
  induction i with
  | zero =>
    intro o _
    refine ⟨o, 0, rfl, Nat.le_refl _, rfl, ?_, by intro q a b; omega, Or.inl rfl⟩
    intro q
    have : ¬ (0 ≤ q ∧ q < 0) := by omega
    simp only [this, if_false]
  | succ i ih =>
    intro o h
    have hi : i < o.length := by omega
    by_cases heq : o[i].cluster = c
    · obtain ⟨r, k, hr, hk, hlen, hq, hall, hstop⟩ := ih (o.set i (setCluster o[i] cluster mask)) (by simp; omega)
      refine ⟨r, k, ?_, by omega, by simpa using hlen, ?_, ?_, ?_⟩
      · simp only [relabelOutBack, get_ok hi, bind, Except.bind]
        simp only [heq, beq_self_eq_true, if_true]
        exact hr
      · intro q
        rw [hq q]
        by_cases hq1 : q = i
        · subst hq1
          rw [if_neg (by omega), if_pos (by omega)]
          rw [List.getElem?_set_self hi, List.getElem?_eq_getElem hi]; rfl
        · rw [List.getElem?_set_ne (by omega)]
          by_cases hr1 : k ≤ q ∧ q < i
          · have : k ≤ q ∧ q < i + 1 := by omega
            simp only [hr1, this, and_self, if_true]
          · have : ¬ (k ≤ q ∧ q < i + 1) := by omega
            simp only [hr1, this, if_false]
      · intro q a b
        by_cases hq1 : q = i
        · subst hq1; rw [cl?_lt hi, heq]
        · have := hall q a (by omega)
          rwa [cl?_set_ne _ _ _ _ (by omega)] at this
      · rcases hstop with h1 | h1
        · exact Or.inl h1
        · by_cases hk0 : k = 0
          · exact Or.inl hk0
          · right
            rwa [cl?_set_ne _ _ _ _ (by omega)] at h1
    · refine ⟨o, i + 1, ?_, Nat.le_refl _, rfl, ?_, by intro q a b; omega, ?_⟩
      · simp only [relabelOutBack, get_ok hi, bind, Except.bind]
        have : (o[i].cluster == c) = false := by simpa using heq
        simp only [this, Bool.false_eq_true, if_false]; rfl
      · intro q
        have : ¬ (i + 1 ≤ q ∧ q < i + 1) := by omega
        simp only [this, if_false]
      · right
        simp only [Nat.add_sub_cancel]
        rw [cl?_lt hi]
        intro h; cases h; exact heq rfl

end RbModel.Buf

namespace RbModel.Buf
open RbModel.Mem

/-- the forward walk through the unconsumed input: relabels the maximal run of cluster `c` starting at `i` -/
theorem relabelInFwd_spec (len c cluster : Nat) : ∀ (fuel i : Nat) (l : List Info), len ≤ l.length → i ≤ len →
    len - i ≤ fuel →
    ∃ r k, relabelInFwd l len c cluster i fuel = .ok r ∧ i ≤ k ∧ k ≤ len ∧ r.length = l.length ∧
      (∀ q, r[q]? = if i ≤ q ∧ q < k then (l[q]?).map (fun x => setCluster x cluster 0) else l[q]?) ∧
      (∀ q, i ≤ q → q < k → cl? l q = some c) ∧
      (k = len ∨ cl? l k ≠ some c) := by
  intro fuel
  induction fuel with
  | zero =>
    intro i l _ h2 h3
    have : i = len := by omega
    subst this
    refine ⟨l, i, rfl, Nat.le_refl _, Nat.le_refl _, rfl, ?_, by intro q a b; omega, Or.inl rfl⟩
    intro q
    rw [if_neg (by omega)]
  | succ fuel ih =>
    intro i l h1 h2 h3
    by_cases hi : i < len
    · have hil : i < l.length := by omega
      by_cases heq : l[i].cluster = c
      · obtain ⟨r, k, hr, hk1, hk2, hlen, hq, hall, hstop⟩ :=
          ih (i + 1) (l.set i (setCluster l[i] cluster 0)) (by simp; omega) (by omega) (by omega)
        refine ⟨r, k, ?_, by omega, hk2, by simpa using hlen, ?_, ?_, ?_⟩
        · simp only [relabelInFwd, hi, if_true, get_ok hil, bind, Except.bind]
          simp only [heq, beq_self_eq_true, if_true]
          exact hr
        · intro q
          rw [hq q]
          by_cases hq1 : q = i
          · subst hq1
            rw [if_neg (by omega), if_pos (by omega)]
            rw [List.getElem?_set_self hil, List.getElem?_eq_getElem hil]; rfl
          · rw [List.getElem?_set_ne (by omega)]
            by_cases hr1 : i + 1 ≤ q ∧ q < k
            · rw [if_pos hr1, if_pos (by omega)]
            · rw [if_neg hr1, if_neg (by omega)]
        · intro q a b
          by_cases hq1 : q = i
          · subst hq1; rw [cl?_lt hil, heq]
          · have := hall q (by omega) b
            rwa [cl?_set_ne _ _ _ _ (by omega)] at this
        · rcases hstop with h | h
          · exact Or.inl h
          · right; rwa [cl?_set_ne _ _ _ _ (by omega)] at h
      · refine ⟨l, i, ?_, Nat.le_refl _, by omega, rfl, ?_, by intro q a b; omega, ?_⟩
        · simp only [relabelInFwd, hi, if_true, get_ok hil, bind, Except.bind]
          have : (l[i].cluster == c) = false := by simpa using heq
          simp only [this, Bool.false_eq_true, if_false]; rfl
        · intro q
          rw [if_neg (by omega)]
        · right
          rw [cl?_lt hil]
          intro h; exact heq (Option.some.inj h)
    · have : i = len := by omega
      subst this
      refine ⟨l, i, ?_, Nat.le_refl _, Nat.le_refl _, rfl, ?_, by intro q a b; omega, Or.inl rfl⟩
      · simp only [relabelInFwd, hi, if_false]; rfl
      · intro q
        rw [if_neg (by omega)]

/-! ## well-formed buffers and the logical sequence -/

/-- representation invariant needed by the cluster routines (in/out mode or in-place mode) -/
structure WF (b : Buf) : Prop where
  idx_le : b.idx ≤ b.len
  len_le : b.len ≤ b.info.length
  sep_ok : b.sepOut = true → b.outLen ≤ b.out.length
  nosep_ok : b.sepOut = false → b.outLen ≤ b.idx

theorem WF.of_inv {b : Buf} (h : Inv b) : WF b := ⟨h.idx_le, h.len_le, h.sep_ok, h.nosep_ok⟩

theorem WF.out_cap {b : Buf} (h : WF b) : b.outLen ≤ b.outArr.length := by
  have := h.idx_le; have := h.len_le
  cases hs : b.sepOut with
  | true => have := h.sep_ok hs; simp [outArr, hs]; omega
  | false => have := h.nosep_ok hs; simp [outArr, hs]; omega

/-- everything but the two Vecs is unchanged, and the Vecs keep their lengths -/
def SameShape (b b' : Buf) : Prop :=
  b' = { b with info := b'.info, out := b'.out } ∧ b'.info.length = b.info.length ∧ b'.out.length = b.out.length

theorem SameShape.wf {b b' : Buf} (h : SameShape b b') (hwf : WF b) : WF b' := by
  obtain ⟨h1, h2, h3⟩ := h
  rw [h1]
  exact ⟨hwf.idx_le, by simp; rw [h2]; exact hwf.len_le, by simp; intro hs; rw [h3]; exact hwf.sep_ok hs,
    by simp; exact hwf.nosep_ok⟩

/-- cluster of the q-th glyph of the logical sequence -/
def clq (b : Buf) (q : Nat) : Option Nat := (seq b q).map (·.cluster)

end RbModel.Buf

namespace RbModel.Buf
open RbModel.Mem

/-! ## `merge_clusters_impl` on the two Vecs -/

theorem setOutArr_outArr (b : Buf) (o : List Info) : (b.setOutArr o).outArr = o := by
  unfold setOutArr outArr
  cases b.sepOut <;> simp

theorem setOutArr_info_sep (b : Buf) (o : List Info) (h : b.sepOut = true) : (b.setOutArr o).info = b.info := by
  unfold setOutArr; simp [h]

theorem setOutArr_info_nosep (b : Buf) (o : List Info) (h : b.sepOut = false) : (b.setOutArr o).info = o := by
  unfold setOutArr; simp [h]

theorem ok_bind {α β : Type} (x : α) (k : α → M β) : (Except.ok x >>= k) = k x := rfl

theorem pure_bind' {α β : Type} (x : α) (k : α → M β) : ((pure x : M α) >>= k) = k x := rfl

theorem setOutArr_self (b : Buf) : b.setOutArr b.outArr = b := by
  cases b with
  | mk info out idx len outLen ho sep hp su lv fl sc ml mo se => cases sep <;> rfl

/-- arrays-level meaning of `merge_clusters_impl` (levels 0/1) -/
theorem mergeImpl_arrays (b : Buf) (s e : Nat) (hwf : WF b) (hs : b.idx ≤ s) (hse : s < e) (he : e ≤ b.len)
    (hl : b.level ≠ 2) (hg : Gen.Buf.extendStartGuard = 1) :
    ∃ m e' s' k o' I', b.mergeClustersImpl s e = .ok { b.setOutArr o' with info := I' } ∧
      ((∀ q, s ≤ q → q < e → ∀ v, cl? b.info q = some v → m ≤ v) ∧ ∃ q, s ≤ q ∧ q < e ∧ cl? b.info q = some m) ∧
      (e ≤ e' ∧ e' ≤ b.len ∧ (∀ q, e ≤ q → q < e' → cl? b.info q = cl? b.info (e - 1)) ∧
        (e' = b.len ∨ cl? b.info e' ≠ cl? b.info (e - 1) ∨ cl? b.info (e - 1) = some m)) ∧
      (b.idx ≤ s' ∧ s' ≤ s ∧ (∀ q, s' ≤ q → q ≤ s → cl? b.info q = cl? b.info s) ∧
        (s' = b.idx ∨ cl? b.info (s' - 1) ≠ cl? b.info s ∨ cl? b.info s = some m)) ∧
      (k ≤ b.outLen ∧ o'.length = b.outArr.length ∧
        (∀ q, o'[q]? = if k ≤ q ∧ q < b.outLen then (b.outArr[q]?).map (fun x => setCluster x m 0) else b.outArr[q]?) ∧
        (∀ q, k ≤ q → q < b.outLen → cl? b.outArr q = cl? b.info s) ∧
        (k = b.outLen ∨ s' = b.idx) ∧
        (k = 0 ∨ cl? b.outArr (k - 1) ≠ cl? b.info s ∨ s' ≠ b.idx ∨ cl? b.info s = some m)) ∧
      (I'.length = (b.setOutArr o').info.length ∧
        ∀ q, I'[q]? = if s' ≤ q ∧ q < e' then ((b.setOutArr o').info[q]?).map (fun x => setCluster x m 0)
                      else (b.setOutArr o').info[q]?) := by
  have hidx := hwf.idx_le
  have hlen := hwf.len_le
  have hcap := hwf.out_cap
  have hsl : s < b.info.length := by omega
  have hel : e - 1 < b.info.length := by omega
  unfold mergeClustersImpl
  have hl2 : (b.level == 2) = false := by simpa using hl
  simp only [hl2, Bool.false_eq_true, if_false]
  -- minimum
  obtain ⟨m, hm, hmle, hmall, hmex⟩ := minClusterLoop_spec b.info (e - (s + 1)) (s + 1) b.info[s].cluster (by omega)
  have hmin : (∀ q, s ≤ q → q < e → ∀ v, cl? b.info q = some v → m ≤ v) ∧ ∃ q, s ≤ q ∧ q < e ∧ cl? b.info q = some m := by
    constructor
    · intro q h1 h2 v hv
      by_cases hq : q = s
      · subst hq; rw [cl?_lt hsl] at hv; cases hv; exact hmle
      · exact hmall q (by omega) (by omega) v hv
    · rcases hmex with h | ⟨q, h1, h2, h3⟩
      · exact ⟨s, Nat.le_refl _, hse, by rw [cl?_lt hsl, h]⟩
      · exact ⟨q, by omega, by omega, h3⟩
  -- extend end
  have hend : ∃ e', (if (m != b.info[e - 1].cluster) = true then extendEnd b.info b.len e (b.len - e) else pure e) = .ok e' ∧
      e ≤ e' ∧ e' ≤ b.len ∧ (∀ q, e ≤ q → q < e' → cl? b.info q = cl? b.info (e - 1)) ∧
      (e' = b.len ∨ cl? b.info e' ≠ cl? b.info (e - 1) ∨ cl? b.info (e - 1) = some m) := by
    by_cases hc : m = b.info[e - 1].cluster
    · refine ⟨e, ?_, Nat.le_refl _, he, by intro q a b; omega, Or.inr (Or.inr ?_)⟩
      · have : (m != b.info[e - 1].cluster) = false := by simp [hc]
        simp only [this, Bool.false_eq_true, if_false]; rfl
      · rw [cl?_lt hel, hc]
    · obtain ⟨e', h1, h2, h3, h4, h5⟩ := extendEnd_spec b.info b.len hlen (b.len - e) e (by omega) he (Nat.le_refl _)
      refine ⟨e', ?_, h2, h3, h4, ?_⟩
      · have : (m != b.info[e - 1].cluster) = true := by simpa using hc
        simp only [this, if_true]; exact h1
      · rcases h5 with h | h
        · exact Or.inl h
        · exact Or.inr (Or.inl h)
  obtain ⟨e', hE, hE1, hE2, hE3, hE4⟩ := hend
  -- extend start
  have hstart : ∃ s', (if (m != b.info[s].cluster) = true then
        (if (Gen.Buf.extendStartGuard == 1) = true then extendStart b.info b.idx s else pure s) else pure s) = .ok s' ∧
      b.idx ≤ s' ∧ s' ≤ s ∧ (∀ q, s' ≤ q → q ≤ s → cl? b.info q = cl? b.info s) ∧
      (s' = b.idx ∨ cl? b.info (s' - 1) ≠ cl? b.info s ∨ cl? b.info s = some m) := by
    by_cases hc : m = b.info[s].cluster
    · refine ⟨s, ?_, hs, Nat.le_refl _, ?_, Or.inr (Or.inr ?_)⟩
      · have : (m != b.info[s].cluster) = false := by simp [hc]
        simp only [this, Bool.false_eq_true, if_false]; rfl
      · intro q a b
        have : q = s := by omega
        subst this; rfl
      · rw [cl?_lt hsl, hc]
    · obtain ⟨s', h1, h2, h3, h4, h5⟩ := extendStart_spec b.info b.idx s hsl
      refine ⟨s', ?_, h3 hs, h2, h4, ?_⟩
      · have : (m != b.info[s].cluster) = true := by simpa using hc
        simp only [this, if_true, hg, beq_self_eq_true]; exact h1
      · rcases h5 with h | h
        · left; have := h3 hs; omega
        · exact Or.inr (Or.inl h)
  obtain ⟨s', hS, hS1, hS2, hS3, hS4⟩ := hstart
  have hs'l : s' < b.info.length := by omega
  have hcls' : cl? b.info s' = cl? b.info s := hS3 s' (Nat.le_refl _) hS2
  have hcls'v : b.info[s'].cluster = b.info[s].cluster := by
    rw [cl?_lt hs'l, cl?_lt hsl] at hcls'; exact Option.some.inj hcls'
  -- out-buffer continuation
  have hout : ∃ k o', (((b.idx == s' && b.info[s'].cluster != m) = true →
        relabelOutBack b.outArr b.info[s'].cluster m 0 b.outLen = .ok o') ∧
        ((b.idx == s' && b.info[s'].cluster != m) = false → o' = b.outArr)) ∧
      k ≤ b.outLen ∧ o'.length = b.outArr.length ∧
      (∀ q, o'[q]? = if k ≤ q ∧ q < b.outLen then (b.outArr[q]?).map (fun x => setCluster x m 0) else b.outArr[q]?) ∧
      (∀ q, k ≤ q → q < b.outLen → cl? b.outArr q = cl? b.info s) ∧
      (k = b.outLen ∨ s' = b.idx) ∧
      (k = 0 ∨ cl? b.outArr (k - 1) ≠ cl? b.info s ∨ s' ≠ b.idx ∨ cl? b.info s = some m) := by
    by_cases hc : b.idx = s' ∧ b.info[s'].cluster ≠ m
    · obtain ⟨o', k, h1, h2, h3, h4, h5, h6⟩ := relabelOutBack_spec b.info[s'].cluster m 0 b.outLen b.outArr hcap
      have hcb : (b.idx == s' && b.info[s'].cluster != m) = true := by simp [hc.1, hc.2]
      refine ⟨k, o', ⟨fun _ => h1, fun h => (by rw [hcb] at h; cases h)⟩, h2, h3, h4, ?_, Or.inr hc.1.symm, ?_⟩
      · intro q a c
        rw [h5 q a c, cl?_lt hsl, hcls'v]
      · rcases h6 with h | h
        · exact Or.inl h
        · right; left; rw [cl?_lt hsl, ← hcls'v]; exact h
    · have hcb : (b.idx == s' && b.info[s'].cluster != m) = false := by
        by_cases h1 : b.idx = s'
        · have : b.info[s'].cluster = m := by
            by_cases h2 : b.info[s'].cluster = m
            · exact h2
            · exact absurd ⟨h1, h2⟩ hc
          simp [h1, this]
        · simp [h1]
      refine ⟨b.outLen, b.outArr, ⟨fun h => (by rw [hcb] at h; cases h), fun _ => rfl⟩, Nat.le_refl _, rfl, ?_,
        by intro q a c; omega, Or.inl rfl, ?_⟩
      · intro q; rw [if_neg (by omega)]
      · by_cases h1 : b.idx = s'
        · have : b.info[s'].cluster = m := by
            by_cases h2 : b.info[s'].cluster = m
            · exact h2
            · exact absurd ⟨h1, h2⟩ hc
          right; right; right
          rw [cl?_lt hsl, ← hcls'v, this]
        · right; right; left; exact fun h => h1 h.symm
  obtain ⟨k, o', hO, hO1, hO2, hO3, hO4, hO5, hO6⟩ := hout
  -- final relabelling of [s', e')
  have hilen : (b.setOutArr o').info.length = b.info.length := by
    cases hsep : b.sepOut with
    | true => rw [setOutArr_info_sep b o' hsep]
    | false => rw [setOutArr_info_nosep b o' hsep, hO2]; simp [outArr, hsep]
  obtain ⟨I', hI, hI1, hI2⟩ := setClusterRange_spec m (e' - s') s' (b.setOutArr o').info (by rw [hilen]; omega)
  refine ⟨m, e', s', k, o', I', ?_, hmin, ⟨hE1, hE2, hE3, hE4⟩, ⟨hS1, hS2, hS3, hS4⟩, ⟨hO1, hO2, hO3, hO4, hO5, hO6⟩, hI1, ?_⟩
  · have hne : ¬ e = 0 := by omega
    simp only [get_ok hsl, ok_bind, hm, hne, if_false, get_ok hel]
    by_cases c1 : (m != b.info[e - 1].cluster) = true <;> by_cases c2 : (m != b.info[s].cluster) = true <;>
    simp only [c1, c2, if_true, if_false, Bool.false_eq_true] at hE hS ⊢ <;>
    simp only [hE, hS, ok_bind, pure_bind', get_ok hs'l] <;>
    cases c3 : (b.idx == s' && b.info[s'].cluster != m) <;>
    first
    | (have hoo := hO.2 c3
       subst hoo
       rw [setOutArr_self] at hI ⊢
       simp only [Bool.false_eq_true, if_false, hI, ok_bind]
       rfl)
    | (simp only [if_true, hO.1 c3, ok_bind, hI]
       rfl)
  · intro q
    rw [hI2 q]
    have : s' + (e' - s') = e' := by omega
    rw [this]

end RbModel.Buf

namespace RbModel.Buf
open RbModel.Mem

/-! ## `merge_out_clusters` on the two Vecs -/

/-- arrays-level meaning of `merge_out_clusters` (levels 0/1) -/
theorem mergeOut_arrays (b : Buf) (s e : Nat) (hwf : WF b) (hse : s + 2 ≤ e) (he : e ≤ b.outLen)
    (hl : b.level ≠ 2) :
    ∃ m e' s' k o' I', b.mergeOutClusters s e = .ok ({ b with info := I' }.setOutArr o') ∧
      ((∀ q, s ≤ q → q < e → ∀ v, cl? b.outArr q = some v → m ≤ v) ∧ ∃ q, s ≤ q ∧ q < e ∧ cl? b.outArr q = some m) ∧
      (e ≤ e' ∧ e' ≤ b.outLen ∧ (∀ q, e ≤ q → q < e' → cl? b.outArr q = cl? b.outArr (e - 1)) ∧
        (e' = b.outLen ∨ cl? b.outArr e' ≠ cl? b.outArr (e - 1))) ∧
      (s' ≤ s ∧ (∀ q, s' ≤ q → q ≤ s → cl? b.outArr q = cl? b.outArr s) ∧
        (s' = 0 ∨ cl? b.outArr (s' - 1) ≠ cl? b.outArr s)) ∧
      (b.idx ≤ k ∧ k ≤ b.len ∧ I'.length = b.info.length ∧
        (∀ q, I'[q]? = if b.idx ≤ q ∧ q < k then (b.info[q]?).map (fun x => setCluster x m 0) else b.info[q]?) ∧
        (∀ q, b.idx ≤ q → q < k → cl? b.info q = cl? b.outArr (e - 1)) ∧
        (k = b.idx ∨ e' = b.outLen) ∧
        (k = b.len ∨ cl? b.info k ≠ cl? b.outArr (e - 1) ∨ e' ≠ b.outLen)) ∧
      (o'.length = ({ b with info := I' } : Buf).outArr.length ∧
        ∀ q, o'[q]? = if s' ≤ q ∧ q < e' then (({ b with info := I' } : Buf).outArr[q]?).map (fun x => setCluster x m 0)
                      else ({ b with info := I' } : Buf).outArr[q]?) := by
  have hidx := hwf.idx_le
  have hlen := hwf.len_le
  have hcap := hwf.out_cap
  have hsl : s < b.outArr.length := by omega
  have hel : e - 1 < b.outArr.length := by omega
  unfold mergeOutClusters
  have hl2 : (b.level == 2) = false := by simpa using hl
  have hlt : ¬ e - s < 2 := by omega
  simp only [hl2, Bool.false_eq_true, if_false, hlt]
  obtain ⟨m, hm, hmle, hmall, hmex⟩ := minClusterLoop_spec b.outArr (e - (s + 1)) (s + 1) b.outArr[s].cluster (by omega)
  have hmin : (∀ q, s ≤ q → q < e → ∀ v, cl? b.outArr q = some v → m ≤ v) ∧ ∃ q, s ≤ q ∧ q < e ∧ cl? b.outArr q = some m := by
    constructor
    · intro q h1 h2 v hv
      by_cases hq : q = s
      · subst hq; rw [cl?_lt hsl] at hv; cases hv; exact hmle
      · exact hmall q (by omega) (by omega) v hv
    · rcases hmex with h | ⟨q, h1, h2, h3⟩
      · exact ⟨s, Nat.le_refl _, by omega, by rw [cl?_lt hsl, h]⟩
      · exact ⟨q, by omega, by omega, h3⟩
  obtain ⟨s', hS, hS1, hS2, hS3⟩ := extendStartOut_spec b.outArr s hsl
  obtain ⟨e', hE, hE1, hE2, hE3, hE4⟩ := extendEnd_spec b.outArr b.outLen hcap (b.outLen - e) e (by omega) he (Nat.le_refl _)
  have he'l : e' - 1 < b.outArr.length := by omega
  have hcle' : cl? b.outArr (e' - 1) = cl? b.outArr (e - 1) := by
    by_cases h : e' = e
    · rw [h]
    · exact hE3 (e' - 1) (by omega) (by omega)
  have hcle'v : b.outArr[e' - 1].cluster = b.outArr[e - 1].cluster := by
    rw [cl?_lt he'l, cl?_lt hel] at hcle'; exact Option.some.inj hcle'
  -- continuation into the unconsumed input
  have hin : ∃ k I', (((e' == b.outLen) = true →
        relabelInFwd b.info b.len b.outArr[e' - 1].cluster m b.idx (b.len - b.idx) = .ok I') ∧
        ((e' == b.outLen) = false → I' = b.info)) ∧
      b.idx ≤ k ∧ k ≤ b.len ∧ I'.length = b.info.length ∧
      (∀ q, I'[q]? = if b.idx ≤ q ∧ q < k then (b.info[q]?).map (fun x => setCluster x m 0) else b.info[q]?) ∧
      (∀ q, b.idx ≤ q → q < k → cl? b.info q = cl? b.outArr (e - 1)) ∧
      (k = b.idx ∨ e' = b.outLen) ∧
      (k = b.len ∨ cl? b.info k ≠ cl? b.outArr (e - 1) ∨ e' ≠ b.outLen) := by
    by_cases hc : e' = b.outLen
    · obtain ⟨I', k, h1, h2, h3, h4, h5, h6, h7⟩ :=
        relabelInFwd_spec b.len b.outArr[e' - 1].cluster m (b.len - b.idx) b.idx b.info hlen hidx (Nat.le_refl _)
      have hcb : (e' == b.outLen) = true := by simp [hc]
      refine ⟨k, I', ⟨fun _ => h1, fun h => (by rw [hcb] at h; cases h)⟩, h2, h3, h4, h5, ?_, Or.inr hc, ?_⟩
      · intro q a c
        rw [h6 q a c, cl?_lt hel, hcle'v]
      · rcases h7 with h | h
        · exact Or.inl h
        · right; left; rw [cl?_lt hel, ← hcle'v]; exact h
    · have hcb : (e' == b.outLen) = false := by simp [hc]
      refine ⟨b.idx, b.info, ⟨fun h => (by rw [hcb] at h; cases h), fun _ => rfl⟩, Nat.le_refl _, hidx, rfl, ?_,
        by intro q a c; omega, Or.inl rfl, Or.inr (Or.inr hc)⟩
      intro q; rw [if_neg (by omega)]
  obtain ⟨k, I', hI, hI1, hI2, hI3, hI4, hI5, hI6, hI7⟩ := hin
  have holen : ({ b with info := I' } : Buf).outArr.length = b.outArr.length := by
    cases hsep : b.sepOut with
    | true => simp [outArr, hsep]
    | false => simp [outArr, hsep, hI3]
  obtain ⟨o', hO, hO1, hO2⟩ := setClusterRange_spec m (e' - s') s' ({ b with info := I' } : Buf).outArr (by rw [holen]; omega)
  refine ⟨m, e', s', k, o', I', ?_, hmin, ⟨hE1, hE2, hE3, hE4⟩, ⟨hS1, hS2, hS3⟩, ⟨hI1, hI2, hI3, hI4, hI5, hI6, hI7⟩, hO1, ?_⟩
  · have hne : ¬ e' = 0 := by omega
    simp only [get_ok hsl, ok_bind, hm, hS, hE]
    cases c3 : (e' == b.outLen)
    · have hii := hI.2 c3
      subst hii
      simp only [Bool.false_eq_true, if_false, pure_bind']
      have : ({ b with info := b.info } : Buf) = b := rfl
      rw [this] at hO
      simp only [hO, ok_bind]
      rfl
    · simp only [if_true, hne, if_false, get_ok he'l, ok_bind, hI.1 c3, hO, pure_bind']
      rfl
  · intro q
    rw [hO2 q]
    have : s' + (e' - s') = e' := by omega
    rw [this]

end RbModel.Buf

namespace RbModel.Buf
open RbModel.Mem

/-! ## the merges on the logical sequence -/

/-- the logical glyph sequence as a list: out-prefix followed by the unconsumed input -/
def lview (b : Buf) : List Info :=
  b.outArr.take b.outLen ++ (b.info.drop b.idx).take (b.len - b.idx)

theorem lview_getElem? (b : Buf) (hwf : WF b) (q : Nat) : (lview b)[q]? = seq b q := by
  have hidx := hwf.idx_le
  have hlen := hwf.len_le
  have hcap := hwf.out_cap
  have hl1 : (b.outArr.take b.outLen).length = b.outLen := by simp; omega
  unfold lview seq
  by_cases h1 : q < b.outLen
  · simp only [h1, if_true]
    rw [List.getElem?_append_left (by omega), List.getElem?_take]
    simp [h1]
  · simp only [h1, if_false]
    rw [List.getElem?_append_right (by omega), hl1, List.getElem?_take]
    by_cases h2 : q - b.outLen < b.len - b.idx
    · simp only [h2, if_true, List.getElem?_drop]
    · simp only [h2, if_false]

theorem lview_length (b : Buf) (hwf : WF b) : (lview b).length = total b := by
  have hidx := hwf.idx_le
  have hlen := hwf.len_le
  have hcap := hwf.out_cap
  unfold lview total
  simp; omega

theorem lview_cl_out (b : Buf) (hwf : WF b) (q : Nat) (h : q < b.outLen) : cl? (lview b) q = cl? b.outArr q := by
  unfold cl?; rw [lview_getElem? b hwf]; unfold seq; simp [h]

theorem lview_cl_in (b : Buf) (hwf : WF b) (q : Nat) (h1 : b.outLen ≤ q) (h2 : q < total b) :
    cl? (lview b) q = cl? b.info (b.idx + (q - b.outLen)) := by
  unfold cl?; rw [lview_getElem? b hwf]; unfold seq total at *
  have h3 : ¬ q < b.outLen := by omega
  have h4 : q - b.outLen < b.len - b.idx := by omega
  simp [h3, h4]

/-- positions whose cluster a merge of `[S,E)` rewrites: the range itself, the rest of the cluster run of its last
    glyph to the right, the rest of the cluster run of its first glyph to the left -/
def Zone (L : List Info) (S E q : Nat) : Prop :=
  (S ≤ q ∧ q < E) ∨ (E ≤ q ∧ ∀ r, E - 1 ≤ r → r ≤ q → cl? L r = cl? L (E - 1)) ∨
  (q < S ∧ ∀ r, q ≤ r → r ≤ S → cl? L r = cl? L S)

/-- `L'` is `L` with the clusters of `[S,E)` merged: every glyph of the zone gets the minimum `m` (and loses its
    glyph flags when its cluster changes), nothing else changes -/
structure IsMerge (L L' : List Info) (S E m : Nat) : Prop where
  len : L'.length = L.length
  min_le : ∀ q, S ≤ q → q < E → ∀ v, cl? L q = some v → m ≤ v
  min_mem : ∃ q, S ≤ q ∧ q < E ∧ cl? L q = some m
  inz : ∀ q, Zone L S E q → L'[q]? = (L[q]?).map (fun x => setCluster x m 0)
  outz : ∀ q, ¬ Zone L S E q → L'[q]? = L[q]?

theorem setCluster_same (x : Info) (m mask : Nat) (h : x.cluster = m) : setCluster x m mask = x := by
  cases x with
  | mk g mk c v1 v2 =>
    simp only at h
    subst h
    simp [setCluster]

theorem map_setCluster_same (l : List Info) (q m : Nat) (h : cl? l q = some m) :
    (l[q]?).map (fun x => setCluster x m 0) = l[q]? := by
  unfold cl? at h
  cases hx : l[q]? with
  | none => rfl
  | some x =>
    rw [hx] at h
    simp at h
    simp [setCluster_same x m 0 h]

theorem mergeClusters_isMerge (b : Buf) (s e : Nat) (hwf : WF b) (hs : b.idx ≤ s) (hse : s + 2 ≤ e) (he : e ≤ b.len)
    (hl : b.level ≠ 2) (hg : Gen.Buf.extendStartGuard = 1) :
    ∃ b' m, b.mergeClusters s e = .ok b' ∧ SameShape b b' ∧
      IsMerge (lview b) (lview b') (b.outLen + (s - b.idx)) (b.outLen + (e - b.idx)) m := by
  have hidx := hwf.idx_le
  have hlen := hwf.len_le
  have hcap := hwf.out_cap
  obtain ⟨m, e', s', k, o', I', hr, ⟨hm1, hm2⟩, ⟨hE1, hE2, hE3, hE4⟩, ⟨hS1, hS2, hS3, hS4⟩,
    ⟨hO1, hO2, hO3, hO4, hO5, hO6⟩, hI1, hI2⟩ := mergeImpl_arrays b s e hwf hs (by omega) he hl hg
  have hilen : (b.setOutArr o').info.length = b.info.length := by
    cases hsep : b.sepOut with
    | true => rw [setOutArr_info_sep b o' hsep]
    | false => rw [setOutArr_info_nosep b o' hsep, hO2]; simp [outArr, hsep]
  have hshape : SameShape b { b.setOutArr o' with info := I' } := by
    refine ⟨?_, by simp; rw [hI1, hilen], ?_⟩
    · cases hsep : b.sepOut <;> simp [setOutArr, hsep]
    · cases hsep : b.sepOut with
      | true => simp [setOutArr, hsep]; simpa [outArr, hsep] using hO2
      | false => simp [setOutArr, hsep]
  refine ⟨_, m, ?_, hshape, ?_⟩
  · unfold mergeClusters
    have : ¬ e - s < 2 := by omega
    simp only [this, if_false]; exact hr
  -- the two Vecs of the result, read through the logical sequence
  have hwf' := hshape.wf hwf
  have hOutArr : ∀ q, q < b.outLen →
      ({ b.setOutArr o' with info := I' } : Buf).outArr[q]? =
        if k ≤ q then (b.outArr[q]?).map (fun x => setCluster x m 0) else b.outArr[q]? := by
    intro q hq
    have : ({ b.setOutArr o' with info := I' } : Buf).outArr[q]? = o'[q]? := by
      cases hsep : b.sepOut with
      | true => simp [outArr, setOutArr, hsep]
      | false =>
        have hns := hwf.nosep_ok hsep
        have h1 : ({ b.setOutArr o' with info := I' } : Buf).outArr = I' := by simp [outArr, setOutArr, hsep]
        rw [h1, hI2 q, if_neg (by omega), setOutArr_info_nosep b o' hsep]
    rw [this, hO3 q]
    by_cases hk : k ≤ q
    · rw [if_pos ⟨hk, hq⟩, if_pos hk]
    · rw [if_neg (by omega), if_neg hk]
  have hInfo : ∀ p, b.idx ≤ p →
      I'[p]? = if s' ≤ p ∧ p < e' then (b.info[p]?).map (fun x => setCluster x m 0) else b.info[p]? := by
    intro p hp
    have : (b.setOutArr o').info[p]? = b.info[p]? := by
      cases hsep : b.sepOut with
      | true => rw [setOutArr_info_sep b o' hsep]
      | false =>
        have hns := hwf.nosep_ok hsep
        rw [setOutArr_info_nosep b o' hsep, hO3 p, if_neg (by omega)]
        simp [outArr, hsep]
    rw [hI2 p, this]
  have hseq' : ∀ q, seq ({ b.setOutArr o' with info := I' } : Buf) q =
      if q < b.outLen then ({ b.setOutArr o' with info := I' } : Buf).outArr[q]?
      else if q - b.outLen < b.len - b.idx then I'[b.idx + (q - b.outLen)]? else none := by
    intro q
    cases hsep : b.sepOut <;> simp [seq, setOutArr, hsep, outArr]
  -- clusters of the logical sequence in terms of the two Vecs
  have hA : ∀ r, b.outLen ≤ r → r < total b → cl? (lview b) r = cl? b.info (b.idx + (r - b.outLen)) :=
    fun r h1 h2 => lview_cl_in b hwf r h1 h2
  have hB : ∀ r, r < b.outLen → cl? (lview b) r = cl? b.outArr r := fun r h => lview_cl_out b hwf r h
  have htot : total b = b.outLen + (b.len - b.idx) := rfl
  have hclS : cl? (lview b) (b.outLen + (s - b.idx)) = cl? b.info s := by
    rw [hA _ (by omega) (by omega)]; congr 1; omega
  have hclE : cl? (lview b) (b.outLen + (e - b.idx) - 1) = cl? b.info (e - 1) := by
    rw [hA _ (by omega) (by omega)]; congr 1; omega
  have hsl : s < b.info.length := by omega
  have hel : e - 1 < b.info.length := by omega
  refine ⟨?_, ?_, ?_, ?_, ?_⟩
  · rw [lview_length _ hwf', lview_length _ hwf]
    cases hsep : b.sepOut <;> simp [total, setOutArr, hsep]
  · intro q h1 h2 v hv
    rw [hA q (by omega) (by omega)] at hv
    exact hm1 _ (by omega) (by omega) v hv
  · obtain ⟨q0, h1, h2, h3⟩ := hm2
    refine ⟨b.outLen + (q0 - b.idx), by omega, by omega, ?_⟩
    rw [hA _ (by omega) (by omega), ← h3]; congr 1; omega
  · -- inside the zone
    intro q hz
    rw [lview_getElem? _ hwf', lview_getElem? _ hwf, hseq' q]
    by_cases hq : q < b.outLen
    · rw [if_pos hq, hOutArr q hq]
      have hsq : seq b q = b.outArr[q]? := by simp [seq, hq]
      rw [hsq]
      by_cases hk : k ≤ q
      · rw [if_pos hk]
      · rw [if_neg hk]
        -- then the run condition of the zone forces cluster = m (no-op) 
        rcases hz with ⟨h1, _⟩ | ⟨h1, _⟩ | ⟨_, hrun⟩
        · omega
        · omega
        · symm
          apply map_setCluster_same
          have hrunq := hrun q (Nat.le_refl _) (by omega)
          rw [hB q hq, hclS] at hrunq
          rw [hrunq]
          -- cl s = m, otherwise the loops would have reached q
          have hallin : ∀ p, b.idx ≤ p → p ≤ s → cl? b.info p = cl? b.info s := by
            intro p h1 h2
            have := hrun (b.outLen + (p - b.idx)) (by omega) (by omega)
            rw [hA _ (by omega) (by omega), hclS] at this
            rw [← this]; congr 1; omega
          have hallout : ∀ r, q ≤ r → r < b.outLen → cl? b.outArr r = cl? b.info s := by
            intro r h1 h2
            have := hrun r h1 (by omega)
            rwa [hB r h2, hclS] at this
          rcases hS4 with h | h | h
          · rcases hO6 with h6 | h6 | h6 | h6
            · omega
            · exact absurd (hallout (k - 1) (by omega) (by omega)) h6
            · exact absurd h h6
            · exact h6
          · by_cases hs0 : s' = b.idx
            · rcases hO6 with h6 | h6 | h6 | h6
              · omega
              · exact absurd (hallout (k - 1) (by omega) (by omega)) h6
              · exact absurd hs0 h6
              · exact h6
            · exact absurd (hallin (s' - 1) (by omega) (by omega)) h
          · exact h
    · rw [if_neg hq]
      by_cases hq2 : q - b.outLen < b.len - b.idx
      · rw [if_pos hq2, hInfo _ (by omega)]
        have hsq : seq b q = b.info[b.idx + (q - b.outLen)]? := by simp [seq, hq, hq2]
        rw [hsq]
        by_cases hp : s' ≤ b.idx + (q - b.outLen) ∧ b.idx + (q - b.outLen) < e'
        · rw [if_pos hp]
        · rw [if_neg hp]
          symm
          apply map_setCluster_same
          rcases hz with ⟨h1, h2⟩ | ⟨h1, hrun⟩ | ⟨h1, hrun⟩
          · omega
          · -- right of the range
            have hallin : ∀ p, e - 1 ≤ p → p ≤ b.idx + (q - b.outLen) → cl? b.info p = cl? b.info (e - 1) := by
              intro p h3 h4
              have := hrun (b.outLen + (p - b.idx)) (by omega) (by omega)
              rw [hA _ (by omega) (by omega), hclE] at this
              rw [← this]; congr 1; omega
            rw [hallin _ (by omega) (Nat.le_refl _)]
            rcases hE4 with h | h | h
            · omega
            · exact absurd (hallin e' (by omega) (by omega)) h
            · exact h
          · -- left of the range
            have hallin : ∀ p, b.idx + (q - b.outLen) ≤ p → p ≤ s → cl? b.info p = cl? b.info s := by
              intro p h3 h4
              have := hrun (b.outLen + (p - b.idx)) (by omega) (by omega)
              rw [hA _ (by omega) (by omega), hclS] at this
              rw [← this]; congr 1; omega
            rw [hallin _ (Nat.le_refl _) (by omega)]
            rcases hS4 with h | h | h
            · omega
            · exact absurd (hallin (s' - 1) (by omega) (by omega)) h
            · exact h
      · rw [if_neg hq2]
        have hsq : seq b q = none := by simp [seq, hq, hq2]
        rw [hsq]; rfl
  · -- outside the zone
    intro q hz
    rw [lview_getElem? _ hwf', lview_getElem? _ hwf, hseq' q]
    by_cases hq : q < b.outLen
    · rw [if_pos hq, hOutArr q hq]
      have hsq : seq b q = b.outArr[q]? := by simp [seq, hq]
      rw [hsq]
      by_cases hk : k ≤ q
      · exfalso
        apply hz
        right; right
        refine ⟨by omega, ?_⟩
        intro r h1 h2
        have hs'i : s' = b.idx := by
          rcases hO5 with h | h
          · omega
          · exact h
        rw [hclS]
        by_cases hr : r < b.outLen
        · rw [hB r hr]; exact hO4 r (by omega) hr
        · rw [hA r (by omega) (by omega)]
          exact hS3 _ (by omega) (by omega)
      · rw [if_neg hk]
    · rw [if_neg hq]
      by_cases hq2 : q - b.outLen < b.len - b.idx
      · rw [if_pos hq2, hInfo _ (by omega)]
        have hsq : seq b q = b.info[b.idx + (q - b.outLen)]? := by simp [seq, hq, hq2]
        rw [hsq]
        by_cases hp : s' ≤ b.idx + (q - b.outLen) ∧ b.idx + (q - b.outLen) < e'
        · exfalso
          apply hz
          by_cases h1 : b.idx + (q - b.outLen) < s
          · right; right
            refine ⟨by omega, ?_⟩
            intro r h2 h3
            rw [hclS, hA r (by omega) (by omega)]
            exact hS3 _ (by omega) (by omega)
          · by_cases h2 : b.idx + (q - b.outLen) < e
            · left; omega
            · right; left
              refine ⟨by omega, ?_⟩
              intro r h3 h4
              rw [hclE, hA r (by omega) (by omega)]
              by_cases h5 : b.idx + (r - b.outLen) = e - 1
              · rw [h5]
              · exact hE3 _ (by omega) (by omega)
        · rw [if_neg hp]
      · rw [if_neg hq2]
        have hsq : seq b q = none := by simp [seq, hq, hq2]
        rw [hsq]

end RbModel.Buf

namespace RbModel.Buf
open RbModel.Mem

theorem mergeOutClusters_isMerge (b : Buf) (s e : Nat) (hwf : WF b) (hse : s + 2 ≤ e) (he : e ≤ b.outLen)
    (hl : b.level ≠ 2) :
    ∃ b' m, b.mergeOutClusters s e = .ok b' ∧ SameShape b b' ∧ IsMerge (lview b) (lview b') s e m := by
  have hidx := hwf.idx_le
  have hlen := hwf.len_le
  have hcap := hwf.out_cap
  obtain ⟨m, e', s', k, o', I', hr, ⟨hm1, hm2⟩, ⟨hE1, hE2, hE3, hE4⟩, ⟨hS1, hS2, hS3⟩,
    ⟨hI1, hI2, hI3, hI4, hI5, hI6, hI7⟩, hO1, hO2⟩ := mergeOut_arrays b s e hwf hse he hl
  have holen : ({ b with info := I' } : Buf).outArr.length = b.outArr.length := by
    cases hsep : b.sepOut with
    | true => simp [outArr, hsep]
    | false => simp [outArr, hsep, hI3]
  have hshape : SameShape b (({ b with info := I' } : Buf).setOutArr o') := by
    cases hsep : b.sepOut with
    | true =>
      refine ⟨by simp [setOutArr, hsep], by simp [setOutArr, hsep, hI3], ?_⟩
      simp [setOutArr, hsep]; rw [hO1]; simp [outArr, hsep]
    | false =>
      refine ⟨by simp [setOutArr, hsep], ?_, by simp [setOutArr, hsep]⟩
      simp [setOutArr, hsep]; rw [hO1]; simp [outArr, hsep, hI3]
  refine ⟨_, m, hr, hshape, ?_⟩
  have hwf' := hshape.wf hwf
  -- out-buffer of the intermediate state, below out_len
  have hMid : ∀ q, q < b.outLen → ({ b with info := I' } : Buf).outArr[q]? = b.outArr[q]? := by
    intro q hq
    cases hsep : b.sepOut with
    | true => simp [outArr, hsep]
    | false =>
      have hns := hwf.nosep_ok hsep
      simp only [outArr, hsep, Bool.false_eq_true, if_false]
      rw [hI4 q, if_neg (by omega)]
  have hOutArr : ∀ q, q < b.outLen →
      (({ b with info := I' } : Buf).setOutArr o').outArr[q]? =
        if s' ≤ q ∧ q < e' then (b.outArr[q]?).map (fun x => setCluster x m 0) else b.outArr[q]? := by
    intro q hq
    rw [setOutArr_outArr, hO2 q, hMid q hq]
  have hInfo : ∀ p, b.idx ≤ p →
      (({ b with info := I' } : Buf).setOutArr o').info[p]? =
        if b.idx ≤ p ∧ p < k then (b.info[p]?).map (fun x => setCluster x m 0) else b.info[p]? := by
    intro p hp
    cases hsep : b.sepOut with
    | true =>
      rw [setOutArr_info_sep _ o' (by simp [hsep])]
      exact hI4 p
    | false =>
      have hns := hwf.nosep_ok hsep
      rw [setOutArr_info_nosep _ o' (by simp [hsep]), hO2 p, if_neg (by omega)]
      simp only [outArr, hsep, Bool.false_eq_true, if_false]
      exact hI4 p
  have hseq' : ∀ q, seq (({ b with info := I' } : Buf).setOutArr o') q =
      if q < b.outLen then (({ b with info := I' } : Buf).setOutArr o').outArr[q]?
      else if q - b.outLen < b.len - b.idx then (({ b with info := I' } : Buf).setOutArr o').info[b.idx + (q - b.outLen)]?
      else none := by
    intro q
    cases hsep : b.sepOut <;> simp [seq, setOutArr, hsep, outArr]
  have hA : ∀ r, b.outLen ≤ r → r < total b → cl? (lview b) r = cl? b.info (b.idx + (r - b.outLen)) :=
    fun r h1 h2 => lview_cl_in b hwf r h1 h2
  have hB : ∀ r, r < b.outLen → cl? (lview b) r = cl? b.outArr r := fun r h => lview_cl_out b hwf r h
  have htot : total b = b.outLen + (b.len - b.idx) := rfl
  refine ⟨?_, ?_, ?_, ?_, ?_⟩
  · rw [lview_length _ hwf', lview_length _ hwf]
    cases hsep : b.sepOut <;> simp [total, setOutArr, hsep]
  · intro q h1 h2 v hv
    rw [hB q (by omega)] at hv
    exact hm1 q h1 h2 v hv
  · obtain ⟨q0, h1, h2, h3⟩ := hm2
    exact ⟨q0, h1, h2, by rw [hB q0 (by omega)]; exact h3⟩
  · intro q hz
    rw [lview_getElem? _ hwf', lview_getElem? _ hwf, hseq' q]
    by_cases hq : q < b.outLen
    · rw [if_pos hq, hOutArr q hq]
      have hsq : seq b q = b.outArr[q]? := by simp [seq, hq]
      rw [hsq]
      have hin : s' ≤ q ∧ q < e' := by
        rcases hz with ⟨h1, h2⟩ | ⟨h1, hrun⟩ | ⟨h1, hrun⟩
        · omega
        · refine ⟨by omega, ?_⟩
          rcases hE4 with h | h
          · omega
          · by_cases h2 : q < e'
            · exact h2
            · have := hrun e' (by omega) (by omega)
              rw [hB e' (by omega), hB (e - 1) (by omega)] at this
              exact absurd this h
        · refine ⟨?_, by omega⟩
          rcases hS3 with h | h
          · omega
          · by_cases h2 : s' ≤ q
            · exact h2
            · have := hrun (s' - 1) (by omega) (by omega)
              rw [hB (s' - 1) (by omega), hB s (by omega)] at this
              exact absurd this h
      rw [if_pos hin]
    · rw [if_neg hq]
      by_cases hq2 : q - b.outLen < b.len - b.idx
      · rw [if_pos hq2, hInfo _ (by omega)]
        have hsq : seq b q = b.info[b.idx + (q - b.outLen)]? := by simp [seq, hq, hq2]
        rw [hsq]
        have hin : b.idx ≤ b.idx + (q - b.outLen) ∧ b.idx + (q - b.outLen) < k := by
          refine ⟨by omega, ?_⟩
          rcases hz with ⟨h1, h2⟩ | ⟨h1, hrun⟩ | ⟨h1, hrun⟩
          · omega
          · have he' : e' = b.outLen := by
              rcases hE4 with h | h
              · exact h
              · by_cases h0 : e' = b.outLen
                · exact h0
                · have := hrun e' (by omega) (by omega)
                  rw [hB e' (by omega), hB (e - 1) (by omega)] at this
                  exact absurd this h
            rcases hI7 with h | h | h
            · omega
            · by_cases h2 : b.idx + (q - b.outLen) < k
              · exact h2
              · have := hrun (b.outLen + (k - b.idx)) (by omega) (by omega)
                rw [hA _ (by omega) (by omega), hB (e - 1) (by omega)] at this
                have h3 : b.idx + (b.outLen + (k - b.idx) - b.outLen) = k := by omega
                rw [h3] at this
                exact absurd this h
            · exact absurd he' h
          · omega
        rw [if_pos hin]
      · rw [if_neg hq2]
        have hsq : seq b q = none := by simp [seq, hq, hq2]
        rw [hsq]; rfl
  · intro q hz
    rw [lview_getElem? _ hwf', lview_getElem? _ hwf, hseq' q]
    by_cases hq : q < b.outLen
    · rw [if_pos hq, hOutArr q hq]
      have hsq : seq b q = b.outArr[q]? := by simp [seq, hq]
      rw [hsq]
      by_cases hp : s' ≤ q ∧ q < e'
      · exfalso
        apply hz
        by_cases h1 : q < s
        · right; right
          refine ⟨h1, ?_⟩
          intro r h2 h3
          rw [hB r (by omega), hB s (by omega)]
          exact hS2 r (by omega) h3
        · by_cases h2 : q < e
          · left; omega
          · right; left
            refine ⟨by omega, ?_⟩
            intro r h3 h4
            rw [hB r (by omega), hB (e - 1) (by omega)]
            by_cases h5 : r = e - 1
            · rw [h5]
            · exact hE3 r (by omega) (by omega)
      · rw [if_neg hp]
    · rw [if_neg hq]
      by_cases hq2 : q - b.outLen < b.len - b.idx
      · rw [if_pos hq2, hInfo _ (by omega)]
        have hsq : seq b q = b.info[b.idx + (q - b.outLen)]? := by simp [seq, hq, hq2]
        rw [hsq]
        by_cases hp : b.idx ≤ b.idx + (q - b.outLen) ∧ b.idx + (q - b.outLen) < k
        · exfalso
          apply hz
          right; left
          have he' : e' = b.outLen := by
            rcases hI6 with h | h
            · omega
            · exact h
          refine ⟨by omega, ?_⟩
          intro r h3 h4
          rw [hB (e - 1) (by omega)]
          by_cases hr : r < b.outLen
          · rw [hB r hr]
            by_cases h5 : r = e - 1
            · rw [h5]
            · exact hE3 r (by omega) (by omega)
          · rw [hA r (by omega) (by omega)]
            exact hI5 _ (by omega) (by omega)
        · rw [if_neg hp]
      · rw [if_neg hq2]
        have hsq : seq b q = none := by simp [seq, hq, hq2]
        rw [hsq]

end RbModel.Buf

namespace RbModel.Buf
open RbModel.Mem

/-! ## consequences of `IsMerge` (pure list reasoning) -/

/-- cluster values never decrease along the list -/
def NonDecr (L : List Info) : Prop := ∀ i j a b, i ≤ j → cl? L i = some a → cl? L j = some b → a ≤ b
/-- cluster values never increase along the list -/
def NonIncr (L : List Info) : Prop := ∀ i j a b, i ≤ j → cl? L i = some a → cl? L j = some b → b ≤ a
/-- every cluster value of `L'` occurs in `L` -/
def ValuesSubset (L' L : List Info) : Prop := ∀ q v, cl? L' q = some v → ∃ p, cl? L p = some v
/-- `μ` is the smallest cluster value of `L` -/
def IsMinCluster (μ : Nat) (L : List Info) : Prop := (∀ q v, cl? L q = some v → μ ≤ v) ∧ ∃ q, cl? L q = some μ
/-- glyphs that shared a cluster still share one -/
def Coarsens (L L' : List Info) : Prop := ∀ i j v, cl? L i = some v → cl? L j = some v → cl? L' i = cl? L' j

theorem cl?_some_lt {L : List Info} {q v : Nat} (h : cl? L q = some v) : q < L.length := by
  unfold cl? at h
  cases hx : L[q]? with
  | none => rw [hx] at h; cases h
  | some x => exact (List.getElem?_eq_some_iff.1 hx).1

theorem setCluster_cluster (x : Info) (c mask : Nat) : (setCluster x c mask).cluster = c := rfl

namespace IsMerge
variable {L L' : List Info} {S E m : Nat}

theorem cl_in (h : IsMerge L L' S E m) {q v : Nat} (hz : Zone L S E q) (hv : cl? L q = some v) : cl? L' q = some m := by
  unfold cl? at *
  rw [h.inz q hz]
  cases hx : L[q]? with
  | none => rw [hx] at hv; cases hv
  | some x => simp [setCluster_cluster]

theorem cl_out (h : IsMerge L L' S E m) {q : Nat} (hz : ¬ Zone L S E q) : cl? L' q = cl? L q := by
  unfold cl?; rw [h.outz q hz]

theorem cl_defined (h : IsMerge L L' S E m) {q v' : Nat} (hv : cl? L' q = some v') : ∃ v, cl? L q = some v := by
  have h1 := cl?_some_lt hv
  rw [h.len] at h1
  exact ⟨_, cl?_lt h1⟩

/-- a glyph of the zone carries a cluster ≥ the minimum of the range -/
theorem zone_ge (h : IsMerge L L' S E m) (hSE : S < E) {q v : Nat} (hz : Zone L S E q) (hv : cl? L q = some v) : m ≤ v := by
  rcases hz with ⟨h1, h2⟩ | ⟨h1, hrun⟩ | ⟨h1, hrun⟩
  · exact h.min_le q h1 h2 v hv
  · have := hrun q (by omega) (Nat.le_refl _)
    rw [hv] at this
    exact h.min_le (E - 1) (by omega) (by omega) v this.symm
  · have := hrun q (Nat.le_refl _) (by omega)
    rw [hv] at this
    exact h.min_le S (Nat.le_refl _) hSE v this.symm

theorem cl_cases (h : IsMerge L L' S E m) {q v' : Nat} (hv : cl? L' q = some v') :
    (Zone L S E q ∧ v' = m) ∨ (¬ Zone L S E q ∧ cl? L q = some v') := by
  obtain ⟨v, hv0⟩ := h.cl_defined hv
  by_cases hz : Zone L S E q
  · left; rw [h.cl_in hz hv0] at hv; exact ⟨hz, (Option.some.inj hv).symm⟩
  · right; rw [h.cl_out hz] at hv; exact ⟨hz, hv⟩

theorem values_subset (h : IsMerge L L' S E m) : ValuesSubset L' L := by
  intro q v' hv
  rcases h.cl_cases hv with ⟨_, h2⟩ | ⟨_, h2⟩
  · obtain ⟨q0, _, _, h3⟩ := h.min_mem
    exact ⟨q0, by rw [h2]; exact h3⟩
  · exact ⟨q, h2⟩

theorem min_kept (h : IsMerge L L' S E m) (hSE : S < E) {μ : Nat} (hmin : IsMinCluster μ L) : IsMinCluster μ L' := by
  obtain ⟨hlow, q, hq⟩ := hmin
  constructor
  · intro q' v' hv'
    obtain ⟨p, hp⟩ := h.values_subset q' v' hv'
    exact hlow p v' hp
  · by_cases hz : Zone L S E q
    · have h1 := h.zone_ge hSE hz hq
      obtain ⟨q0, _, _, h3⟩ := h.min_mem
      have h2 := hlow q0 m h3
      have : m = μ := by omega
      exact ⟨q, by rw [h.cl_in hz hq, this]⟩
    · exact ⟨q, by rw [h.cl_out hz]; exact hq⟩

/-- zone membership propagates towards the range on the left side -/
theorem zone_left_closed (hSE : S < E) {i j : Nat} (hi : Zone L S E i) (hij : i ≤ j) (hj : j < S) : Zone L S E j := by
  rcases hi with ⟨h1, h2⟩ | ⟨h1, hrun⟩ | ⟨h1, hrun⟩
  · omega
  · omega
  · right; right
    exact ⟨hj, fun r a b => hrun r (by omega) b⟩

/-- zone membership propagates towards the range on the right side -/
theorem zone_right_closed (hSE : S < E) {i j : Nat} (hj : Zone L S E j) (hij : i ≤ j) (hi : E ≤ i) : Zone L S E i := by
  rcases hj with ⟨h1, h2⟩ | ⟨h1, hrun⟩ | ⟨h1, hrun⟩
  · omega
  · right; left
    exact ⟨hi, fun r a b => hrun r a (by omega)⟩
  · omega

theorem zone_mid {q : Nat} (h1 : S ≤ q) (h2 : q < E) : Zone L S E q := Or.inl ⟨h1, h2⟩

end IsMerge

/-- what a merge over `[S,E)` needs of the list to keep it non-decreasing: sorted before and after the range, and
    everything before ≤ everything inside ≤ everything after (true of a sorted list, and of a sorted list whose
    range `[S,E)` was permuted) -/
structure SandwichUp (L : List Info) (S E : Nat) : Prop where
  left : ∀ i j a b, i ≤ j → j < S → cl? L i = some a → cl? L j = some b → a ≤ b
  right : ∀ i j a b, E ≤ i → i ≤ j → cl? L i = some a → cl? L j = some b → a ≤ b
  below : ∀ i q a b, i < S → S ≤ q → cl? L i = some a → cl? L q = some b → a ≤ b
  above : ∀ q j a b, S ≤ q → q < E → E ≤ j → cl? L q = some a → cl? L j = some b → a ≤ b

structure SandwichDown (L : List Info) (S E : Nat) : Prop where
  left : ∀ i j a b, i ≤ j → j < S → cl? L i = some a → cl? L j = some b → b ≤ a
  right : ∀ i j a b, E ≤ i → i ≤ j → cl? L i = some a → cl? L j = some b → b ≤ a
  below : ∀ i q a b, i < S → S ≤ q → cl? L i = some a → cl? L q = some b → b ≤ a
  above : ∀ q j a b, S ≤ q → q < E → E ≤ j → cl? L q = some a → cl? L j = some b → b ≤ a

theorem NonDecr.sandwich {L : List Info} (h : NonDecr L) (S E : Nat) : SandwichUp L S E :=
  ⟨fun i j a b h1 _ => h i j a b h1, fun i j a b _ h2 => h i j a b h2,
   fun i q a b h1 h2 => h i q a b (by omega), fun q j a b _ h2 h3 => h q j a b (by omega)⟩

theorem NonIncr.sandwich {L : List Info} (h : NonIncr L) (S E : Nat) : SandwichDown L S E :=
  ⟨fun i j a b h1 _ => h i j a b h1, fun i j a b _ h2 => h i j a b h2,
   fun i q a b h1 h2 => h i q a b (by omega), fun q j a b _ h2 h3 => h q j a b (by omega)⟩

theorem IsMerge.nonDecr {L L' : List Info} {S E m : Nat} (h : IsMerge L L' S E m) (hSE : S < E)
    (hs : SandwichUp L S E) : NonDecr L' := by
  obtain ⟨q0, hq1, hq2, hq3⟩ := h.min_mem
  intro i j a' b' hij ha' hb'
  rcases h.cl_cases ha' with ⟨hzi, hai⟩ | ⟨hzi, hai⟩ <;> rcases h.cl_cases hb' with ⟨hzj, hbj⟩ | ⟨hzj, hbj⟩
  · omega
  · -- i in the zone (value m), j outside: j lies right of the range
    subst hai
    have hjE : E ≤ j := by
      by_cases h1 : j < S
      · exact absurd (IsMerge.zone_left_closed hSE hzi hij h1) hzj
      · by_cases h2 : j < E
        · exact absurd (IsMerge.zone_mid (by omega) h2) hzj
        · omega
    exact hs.above q0 j a' b' hq1 hq2 hjE hq3 hbj
  · -- i outside, j in the zone: i lies left of the range
    subst hbj
    have hiS : i < S := by
      by_cases h1 : E ≤ i
      · exact absurd (IsMerge.zone_right_closed hSE hzj hij h1) hzi
      · by_cases h2 : S ≤ i
        · exact absurd (IsMerge.zone_mid h2 (by omega)) hzi
        · omega
    exact hs.below i q0 a' b' hiS hq1 hai hq3
  · -- both outside the zone
    by_cases h1 : j < S
    · exact hs.left i j a' b' hij h1 hai hbj
    · have hjE : E ≤ j := by
        by_cases h2 : j < E
        · exact absurd (IsMerge.zone_mid (by omega) h2) hzj
        · omega
      by_cases h3 : E ≤ i
      · exact hs.right i j a' b' h3 hij hai hbj
      · have hiS : i < S := by
          by_cases h2 : S ≤ i
          · exact absurd (IsMerge.zone_mid h2 (by omega)) hzi
          · omega
        have h4 := hs.below i q0 a' m hiS hq1 hai hq3
        have h5 := hs.above q0 j m b' hq1 hq2 hjE hq3 hbj
        omega

theorem IsMerge.nonIncr {L L' : List Info} {S E m : Nat} (h : IsMerge L L' S E m) (hSE : S < E)
    (hs : SandwichDown L S E) : NonIncr L' := by
  obtain ⟨q0, hq1, hq2, hq3⟩ := h.min_mem
  intro i j a' b' hij ha' hb'
  rcases h.cl_cases ha' with ⟨hzi, hai⟩ | ⟨hzi, hai⟩ <;> rcases h.cl_cases hb' with ⟨hzj, hbj⟩ | ⟨hzj, hbj⟩
  · omega
  · subst hai
    have hjE : E ≤ j := by
      by_cases h1 : j < S
      · exact absurd (IsMerge.zone_left_closed hSE hzi hij h1) hzj
      · by_cases h2 : j < E
        · exact absurd (IsMerge.zone_mid (by omega) h2) hzj
        · omega
    exact hs.above q0 j a' b' hq1 hq2 hjE hq3 hbj
  · subst hbj
    have hiS : i < S := by
      by_cases h1 : E ≤ i
      · exact absurd (IsMerge.zone_right_closed hSE hzj hij h1) hzi
      · by_cases h2 : S ≤ i
        · exact absurd (IsMerge.zone_mid h2 (by omega)) hzi
        · omega
    exact hs.below i q0 a' b' hiS hq1 hai hq3
  · by_cases h1 : j < S
    · exact hs.left i j a' b' hij h1 hai hbj
    · have hjE : E ≤ j := by
        by_cases h2 : j < E
        · exact absurd (IsMerge.zone_mid (by omega) h2) hzj
        · omega
      by_cases h3 : E ≤ i
      · exact hs.right i j a' b' h3 hij hai hbj
      · have hiS : i < S := by
          by_cases h2 : S ≤ i
          · exact absurd (IsMerge.zone_mid h2 (by omega)) hzi
          · omega
        have h4 := hs.below i q0 a' m hiS hq1 hai hq3
        have h5 := hs.above q0 j m b' hq1 hq2 hjE hq3 hbj
        omega


end RbModel.Buf

namespace RbModel.Buf
open RbModel.Mem

theorem mono_squeeze {L : List Info} (hm : NonDecr L ∨ NonIncr L) {i r j v : Nat} (h1 : i ≤ r) (h2 : r ≤ j)
    (hi : cl? L i = some v) (hj : cl? L j = some v) : cl? L r = some v := by
  have hjl := cl?_some_lt hj
  have hr : cl? L r = some L[r].cluster := cl?_lt (by omega)
  rw [hr]
  rcases hm with h | h
  · have a := h i r v _ h1 hi hr
    have b := h r j _ v h2 hr hj
    congr 1; omega
  · have a := h i r v _ h1 hi hr
    have b := h r j _ v h2 hr hj
    congr 1; omega

/-- on a monotone list a merge never separates two glyphs of one cluster -/
theorem IsMerge.coarsens {L L' : List Info} {S E m : Nat} (h : IsMerge L L' S E m) (hSE : S < E)
    (hm : NonDecr L ∨ NonIncr L) : Coarsens L L' := by
  -- ordered pairs first
  have key : ∀ i j v, i ≤ j → cl? L i = some v → cl? L j = some v → cl? L' i = cl? L' j := by
    intro i j v hij hi hj
    have hall : ∀ r, i ≤ r → r ≤ j → cl? L r = some v := fun r a b => mono_squeeze hm a b hi hj
    by_cases hzi : Zone L S E i <;> by_cases hzj : Zone L S E j
    · rw [h.cl_in hzi hi, h.cl_in hzj hj]
    · -- i in the zone, j not: the run of v reaches j, so j is in the zone after all
      exfalso; apply hzj
      rcases hzi with ⟨h1, h2⟩ | ⟨h1, hrun⟩ | ⟨h1, hrun⟩
      · by_cases h3 : j < E
        · exact IsMerge.zone_mid (by omega) h3
        · right; left
          refine ⟨by omega, fun r a b => ?_⟩
          rw [hall r (by omega) b, hall (E - 1) (by omega) (by omega)]
      · right; left
        have hE1 : cl? L (E - 1) = some v := by rw [← hrun i (by omega) (Nat.le_refl _)]; exact hi
        refine ⟨by omega, fun r a b => ?_⟩
        rw [hE1]
        by_cases h3 : r ≤ i
        · rw [hrun r a h3, hE1]
        · exact hall r (by omega) b
      · have hS1 : cl? L S = some v := by rw [← hrun i (Nat.le_refl _) (by omega)]; exact hi
        by_cases h3 : j ≤ S
        · by_cases h4 : j = S
          · subst h4; exact IsMerge.zone_mid (Nat.le_refl _) hSE
          · right; right
            exact ⟨by omega, fun r a b => hrun r (by omega) b⟩
        · by_cases h4 : j < E
          · exact IsMerge.zone_mid (by omega) h4
          · right; left
            refine ⟨by omega, fun r a b => ?_⟩
            rw [hall r (by omega) b, hall (E - 1) (by omega) (by omega)]
    · -- j in the zone, i not
      exfalso; apply hzi
      rcases hzj with ⟨h1, h2⟩ | ⟨h1, hrun⟩ | ⟨h1, hrun⟩
      · by_cases h3 : S ≤ i
        · exact IsMerge.zone_mid h3 (by omega)
        · right; right
          refine ⟨by omega, fun r a b => ?_⟩
          rw [hall r a (by omega), hall S (by omega) (by omega)]
      · have hE1 : cl? L (E - 1) = some v := by rw [← hrun j (by omega) (Nat.le_refl _)]; exact hj
        by_cases h3 : E ≤ i
        · right; left
          exact ⟨h3, fun r a b => hrun r a (by omega)⟩
        · by_cases h4 : S ≤ i
          · exact IsMerge.zone_mid h4 (by omega)
          · right; right
            refine ⟨by omega, fun r a b => ?_⟩
            rw [hall r a (by omega), hall S (by omega) (by omega)]
      · have hS1 : cl? L S = some v := by rw [← hrun j (Nat.le_refl _) (by omega)]; exact hj
        right; right
        refine ⟨by omega, fun r a b => ?_⟩
        rw [hS1]
        by_cases h3 : j ≤ r
        · rw [hrun r h3 b, hS1]
        · exact hall r a (by omega)
    · rw [h.cl_out hzi, h.cl_out hzj, hi, hj]
  intro i j v hi hj
  by_cases hij : i ≤ j
  · exact key i j v hij hi hj
  · exact (key j i v (by omega) hj hi).symm


end RbModel.Buf

namespace RbModel.Buf
open RbModel.Mem

/-! ## permutations inside a range -/

/-- `L` is `L0` with the records of `[S,E)` permuted among themselves -/
structure RangePerm (L0 L : List Info) (S E : Nat) : Prop where
  len : L.length = L0.length
  outside : ∀ q, q < S ∨ E ≤ q → L[q]? = L0[q]?
  perm : ((L.drop S).take (E - S)).Perm ((L0.drop S).take (E - S))

theorem slice_mem {L : List Info} {S E q : Nat} {x : Info} (h1 : S ≤ q) (h2 : q < E) (hx : L[q]? = some x) :
    x ∈ (L.drop S).take (E - S) := by
  rw [List.mem_iff_getElem?]
  refine ⟨q - S, ?_⟩
  rw [List.getElem?_take, if_pos (by omega), List.getElem?_drop]
  have : S + (q - S) = q := by omega
  rw [this]; exact hx

theorem mem_slice {L : List Info} {S E : Nat} {x : Info} (hx : x ∈ (L.drop S).take (E - S)) :
    ∃ p, S ≤ p ∧ p < E ∧ L[p]? = some x := by
  rw [List.mem_iff_getElem?] at hx
  obtain ⟨k, hk⟩ := hx
  rw [List.getElem?_take] at hk
  by_cases h : k < E - S
  · rw [if_pos h, List.getElem?_drop] at hk
    exact ⟨S + k, by omega, by omega, hk⟩
  · rw [if_neg h] at hk; cases hk

theorem RangePerm.inside {L0 L : List Info} {S E : Nat} (h : RangePerm L0 L S E) {q : Nat} {x : Info}
    (h1 : S ≤ q) (h2 : q < E) (hx : L[q]? = some x) : ∃ p, S ≤ p ∧ p < E ∧ L0[p]? = some x :=
  mem_slice (h.perm.mem_iff.1 (slice_mem h1 h2 hx))

theorem RangePerm.cl_outside {L0 L : List Info} {S E : Nat} (h : RangePerm L0 L S E) {q : Nat}
    (hq : q < S ∨ E ≤ q) : cl? L q = cl? L0 q := by
  unfold cl?; rw [h.outside q hq]

theorem RangePerm.cl_inside {L0 L : List Info} {S E : Nat} (h : RangePerm L0 L S E) {q v : Nat}
    (h1 : S ≤ q) (h2 : q < E) (hv : cl? L q = some v) : ∃ p, S ≤ p ∧ p < E ∧ cl? L0 p = some v := by
  unfold cl? at hv
  cases hx : L[q]? with
  | none => rw [hx] at hv; cases hv
  | some x =>
    rw [hx] at hv
    obtain ⟨p, a, b, c⟩ := h.inside h1 h2 hx
    refine ⟨p, a, b, ?_⟩
    unfold cl?; rw [c]; exact hv

/-- a sorted list stays "sandwiched" around a range whose records were permuted -/
theorem RangePerm.sandwichUp {L0 L : List Info} {S E : Nat} (h : RangePerm L0 L S E) (h0 : NonDecr L0) :
    SandwichUp L S E := by
  refine ⟨?_, ?_, ?_, ?_⟩
  · intro i j a b hij hj ha hb
    rw [h.cl_outside (Or.inl (by omega))] at ha
    rw [h.cl_outside (Or.inl hj)] at hb
    exact h0 i j a b hij ha hb
  · intro i j a b hi hij ha hb
    rw [h.cl_outside (Or.inr hi)] at ha
    rw [h.cl_outside (Or.inr (by omega))] at hb
    exact h0 i j a b hij ha hb
  · intro i q a b hi hq ha hb
    rw [h.cl_outside (Or.inl hi)] at ha
    by_cases hqE : q < E
    · obtain ⟨p, p1, p2, p3⟩ := h.cl_inside hq hqE hb
      exact h0 i p a b (by omega) ha p3
    · rw [h.cl_outside (Or.inr (by omega))] at hb
      exact h0 i q a b (by omega) ha hb
  · intro q j a b hq1 hq2 hj ha hb
    rw [h.cl_outside (Or.inr hj)] at hb
    obtain ⟨p, p1, p2, p3⟩ := h.cl_inside hq1 hq2 ha
    exact h0 p j a b (by omega) p3 hb

theorem RangePerm.sandwichDown {L0 L : List Info} {S E : Nat} (h : RangePerm L0 L S E) (h0 : NonIncr L0) :
    SandwichDown L S E := by
  refine ⟨?_, ?_, ?_, ?_⟩
  · intro i j a b hij hj ha hb
    rw [h.cl_outside (Or.inl (by omega))] at ha
    rw [h.cl_outside (Or.inl hj)] at hb
    exact h0 i j a b hij ha hb
  · intro i j a b hi hij ha hb
    rw [h.cl_outside (Or.inr hi)] at ha
    rw [h.cl_outside (Or.inr (by omega))] at hb
    exact h0 i j a b hij ha hb
  · intro i q a b hi hq ha hb
    rw [h.cl_outside (Or.inl hi)] at ha
    by_cases hqE : q < E
    · obtain ⟨p, p1, p2, p3⟩ := h.cl_inside hq hqE hb
      exact h0 i p a b (by omega) ha p3
    · rw [h.cl_outside (Or.inr (by omega))] at hb
      exact h0 i q a b (by omega) ha hb
  · intro q j a b hq1 hq2 hj ha hb
    rw [h.cl_outside (Or.inr hj)] at hb
    obtain ⟨p, p1, p2, p3⟩ := h.cl_inside hq1 hq2 ha
    exact h0 p j a b (by omega) p3 hb

/-- permuting records inside a range whose clusters are all equal does not change the cluster sequence -/
theorem RangePerm.cl_eq_of_uniform {L0 L : List Info} {S E c : Nat} (h : RangePerm L0 L S E)
    (hu : ∀ q v, S ≤ q → q < E → cl? L0 q = some v → v = c) : ∀ q, cl? L q = cl? L0 q := by
  intro q
  by_cases hq : q < S ∨ E ≤ q
  · exact h.cl_outside hq
  · have h1 : S ≤ q := by omega
    have h2 : q < E := by omega
    by_cases hl : q < L.length
    · have hv := cl?_lt hl
      obtain ⟨p, p1, p2, p3⟩ := h.cl_inside h1 h2 hv
      have e1 := hu p _ p1 p2 p3
      have hl0 : q < L0.length := by rw [← h.len]; exact hl
      have e2 := hu q _ h1 h2 (cl?_lt hl0)
      rw [hv, cl?_lt hl0, e1, e2]
    · have hl0 : ¬ q < L0.length := by rw [← h.len]; exact hl
      unfold cl?
      rw [List.getElem?_eq_none (by omega), List.getElem?_eq_none (by omega)]

theorem values_subset_of_rangePerm {L0 L : List Info} {S E : Nat} (h : RangePerm L0 L S E) : ValuesSubset L L0 := by
  intro q v hv
  by_cases hq : q < S ∨ E ≤ q
  · exact ⟨q, by rw [← h.cl_outside hq]; exact hv⟩
  · obtain ⟨p, _, _, p3⟩ := h.cl_inside (by omega) (by omega) hv
    exact ⟨p, p3⟩

theorem RangePerm.symm {L0 L : List Info} {S E : Nat} (h : RangePerm L0 L S E) : RangePerm L L0 S E :=
  ⟨h.len.symm, fun q hq => (h.outside q hq).symm, h.perm.symm⟩

theorem isMin_of_rangePerm {L0 L : List Info} {S E μ : Nat} (h : RangePerm L0 L S E) (hm : IsMinCluster μ L0) :
    IsMinCluster μ L := by
  obtain ⟨hlow, q, hq⟩ := hm
  constructor
  · intro q' v hv
    obtain ⟨p, hp⟩ := values_subset_of_rangePerm h q' v hv
    exact hlow p v hp
  · obtain ⟨p, hp⟩ := values_subset_of_rangePerm h.symm q μ hq
    exact ⟨p, hp⟩


end RbModel.Buf

namespace RbModel.Buf
open RbModel.Mem

/-! ## the glyph-flag routines touch masks only -/

def noMask (x : Info) : Info := { x with mask := 0 }

/-- `l'` differs from `l` in mask fields only -/
def OnlyMask (l l' : List Info) : Prop := l'.map noMask = l.map noMask

theorem OnlyMask.refl (l : List Info) : OnlyMask l l := rfl
theorem OnlyMask.trans {a b c : List Info} (h1 : OnlyMask a b) (h2 : OnlyMask b c) : OnlyMask a c := by
  unfold OnlyMask at *; rw [h2, h1]

theorem OnlyMask.set (l : List Info) (i : Nat) (x : Info) (m : Nat) (h : l[i]? = some x) :
    OnlyMask l (l.set i { x with mask := m }) := by
  unfold OnlyMask
  rw [List.map_set]
  apply List.ext_getElem?
  intro q
  by_cases hq : i = q
  · subst hq
    have hi : i < l.length := (List.getElem?_eq_some_iff.1 h).1
    rw [List.getElem?_set_self (by simpa using hi), List.getElem?_map, h]; rfl
  · rw [List.getElem?_set_ne hq]

theorem OnlyMask.length {l l' : List Info} (h : OnlyMask l l') : l'.length = l.length := by
  have := congrArg List.length h
  simpa using this

theorem OnlyMask.cl? {l l' : List Info} (h : OnlyMask l l') (q : Nat) : cl? l' q = cl? l q := by
  have h1 : (l'.map noMask)[q]? = (l.map noMask)[q]? := by rw [h]
  rw [List.getElem?_map, List.getElem?_map] at h1
  unfold Buf.cl?
  cases ha : l'[q]? <;> cases hb : l[q]? <;> rw [ha, hb] at h1 <;> simp at h1 ⊢
  have := congrArg Info.cluster h1
  simpa [noMask] using this

theorem OnlyMask.take_drop {l l' : List Info} (h : OnlyMask l l') (n : Nat) :
    OnlyMask (l.take n) (l'.take n) ∧ OnlyMask (l.drop n) (l'.drop n) := by
  unfold OnlyMask at *
  constructor
  · rw [List.map_take, List.map_take, h]
  · rw [List.map_drop, List.map_drop, h]

theorem orMaskRange_onlyMask (mask : Nat) : ∀ (k i : Nat) (l r : List Info), orMaskRange l mask i k = .ok r → OnlyMask l r := by
  intro k
  induction k with
  | zero => intro i l r h; cases h; exact OnlyMask.refl _
  | succ k ih =>
    intro i l r h
    simp only [orMaskRange] at h
    cases hg : get l i with
    | error e => rw [hg] at h; cases h
    | ok x =>
      rw [hg] at h
      exact (OnlyMask.set l i x _ (get_eq_ok hg)).trans (ih _ _ _ h)

theorem flagAllNe_onlyMask (cluster mask : Nat) : ∀ (k i : Nat) (l : List Info) (ch : Bool) (r : List Info × Bool),
    flagAllNe l cluster mask i k ch = .ok r → OnlyMask l r.1 := by
  intro k
  induction k with
  | zero => intro i l ch r h; cases h; exact OnlyMask.refl _
  | succ k ih =>
    intro i l ch r h
    simp only [flagAllNe] at h
    cases hg : get l i with
    | error e => rw [hg] at h; cases h
    | ok x =>
      rw [hg] at h
      simp only [ok_bind] at h
      split at h
      · exact (OnlyMask.set l i x _ (get_eq_ok hg)).trans (ih _ _ _ _ h)
      · exact ih _ _ _ _ h

theorem flagFromEnd_onlyMask (cluster cf mask start : Nat) : ∀ (i : Nat) (l : List Info) (ch : Bool) (r : List Info × Bool),
    flagFromEnd l cluster cf mask start i ch = .ok r → OnlyMask l r.1 := by
  intro i
  induction i with
  | zero => intro l ch r h; cases h; exact OnlyMask.refl _
  | succ i ih =>
    intro l ch r h
    simp only [flagFromEnd] at h
    split at h
    · cases hg : get l i with
      | error e => rw [hg] at h; cases h
      | ok x =>
        rw [hg] at h
        simp only [ok_bind] at h
        split at h
        · split at h
          · exact (OnlyMask.set l i x _ (get_eq_ok hg)).trans (ih _ _ _ h)
          · exact ih _ _ _ h
        · cases h; exact OnlyMask.refl _
    · cases h; exact OnlyMask.refl _

theorem flagFromStart_onlyMask (cluster cl mask : Nat) : ∀ (k i : Nat) (l : List Info) (ch : Bool) (r : List Info × Bool),
    flagFromStart l cluster cl mask i k ch = .ok r → OnlyMask l r.1 := by
  intro k
  induction k with
  | zero => intro i l ch r h; cases h; exact OnlyMask.refl _
  | succ k ih =>
    intro i l ch r h
    simp only [flagFromStart] at h
    cases hg : get l i with
    | error e => rw [hg] at h; cases h
    | ok x =>
      rw [hg] at h
      simp only [ok_bind] at h
      split at h
      · split at h
        · exact (OnlyMask.set l i x _ (get_eq_ok hg)).trans (ih _ _ _ _ h)
        · exact ih _ _ _ _ h
      · cases h; exact OnlyMask.refl _

theorem infosSetGlyphFlags_onlyMask (level : Nat) (l : List Info) (start stop cluster mask : Nat) (r : List Info × Bool)
    (h : infosSetGlyphFlags level l start stop cluster mask = .ok r) : OnlyMask l r.1 := by
  unfold infosSetGlyphFlags at h
  split at h
  · cases h; exact OnlyMask.refl _
  · cases hg : get l start with
    | error e => simp [hg, bind, Except.bind] at h
    | ok a =>
      simp only [hg, ok_bind] at h
      split at h
      · cases h
      · cases hz : get l (stop - 1) with
        | error e => simp [hz, bind, Except.bind] at h
        | ok z =>
          simp only [hz, ok_bind] at h
          split at h
          · exact flagAllNe_onlyMask _ _ _ _ _ _ _ h
          · split at h
            · exact flagFromEnd_onlyMask _ _ _ _ _ _ _ _ h
            · exact flagFromStart_onlyMask _ _ _ _ _ _ _ _ h


end RbModel.Buf

namespace RbModel.Buf
open RbModel.Mem

theorem bind_eq_ok {α β : Type} {x : M α} {k : α → M β} {r : β} (h : (x >>= k) = .ok r) :
    ∃ a, x = .ok a ∧ k a = .ok r := by
  cases x with
  | error e => cases h
  | ok a => exact ⟨a, rfl, h⟩

/-- `b'` differs from `b` in mask fields of the two Vecs and in `scratch_flags` only -/
def FlagsOnly (b b' : Buf) : Prop :=
  b' = { b with info := b'.info, out := b'.out, scratch := b'.scratch } ∧ OnlyMask b.info b'.info ∧ OnlyMask b.out b'.out

theorem FlagsOnly.refl (b : Buf) : FlagsOnly b b := ⟨rfl, OnlyMask.refl _, OnlyMask.refl _⟩

theorem FlagsOnly.trans {a b c : Buf} (h1 : FlagsOnly a b) (h2 : FlagsOnly b c) : FlagsOnly a c := by
  obtain ⟨e1, i1, o1⟩ := h1
  obtain ⟨e2, i2, o2⟩ := h2
  refine ⟨?_, i1.trans i2, o1.trans o2⟩
  rw [e2, e1]

theorem FlagsOnly.scratch (b : Buf) (s : Nat) : FlagsOnly b { b with scratch := s } := ⟨rfl, OnlyMask.refl _, OnlyMask.refl _⟩

theorem FlagsOnly.addScratch (b : Buf) (ch : Bool) : FlagsOnly b (b.addScratch ch) := by
  unfold Buf.addScratch; split
  · exact FlagsOnly.scratch b _
  · exact FlagsOnly.refl b

theorem FlagsOnly.info (b : Buf) (l : List Info) (h : OnlyMask b.info l) : FlagsOnly b { b with info := l } :=
  ⟨rfl, h, OnlyMask.refl _⟩

theorem FlagsOnly.scratch_info (b : Buf) (s : Nat) (l : List Info) (h : OnlyMask b.info l) :
    FlagsOnly b { b with scratch := s, info := l } := ⟨rfl, h, OnlyMask.refl _⟩

theorem FlagsOnly.setOutArr (b : Buf) (o : List Info) (h : OnlyMask b.outArr o) : FlagsOnly b (b.setOutArr o) := by
  unfold Buf.setOutArr outArr at *
  cases hs : b.sepOut
  · simp only [hs, Bool.false_eq_true, if_false] at h ⊢
    exact ⟨by simp [hs], h, OnlyMask.refl _⟩
  · simp only [hs, if_true] at h ⊢
    exact ⟨by simp [hs], OnlyMask.refl _, h⟩

theorem setGlyphFlags_flagsOnly (b : Buf) (mask start : Nat) (stop : Option Nat) (interior fromOut : Bool) (b' : Buf)
    (h : b.setGlyphFlags mask start stop interior fromOut = .ok b') : FlagsOnly b b' := by
  unfold setGlyphFlags at h
  simp only at h
  split at h
  · cases h; exact FlagsOnly.refl b
  · split at h
    · split at h
      · cases ho : orMaskRange b.info mask start (min (stop.getD b.len) b.len - start) with
        | error e => simp [ho, bind, Except.bind] at h
        | ok info =>
          simp only [ho, ok_bind] at h
          cases h
          exact FlagsOnly.scratch_info b _ info (orMaskRange_onlyMask _ _ _ _ _ ho)
      · cases hc : findMinCluster b.level b.info start (min (stop.getD b.len) b.len) U32MAX with
        | error e => simp [hc, bind, Except.bind] at h
        | ok cluster =>
          simp only [hc, ok_bind] at h
          cases hi : infosSetGlyphFlags b.level b.info start (min (stop.getD b.len) b.len) cluster mask with
          | error e => simp [hi, bind, Except.bind] at h
          | ok r =>
            obtain ⟨info, ch⟩ := r
            simp only [hi, ok_bind] at h
            cases h
            exact (FlagsOnly.scratch_info b _ info (infosSetGlyphFlags_onlyMask _ _ _ _ _ _ _ hi)).trans
              (FlagsOnly.addScratch _ _)
    · split at h
      · cases h
      · split at h
        · cases h
        · split at h
          · generalize hb1 : ({ b with scratch := b.scratch ||| SCRATCH_HAS_GLYPH_FLAGS } : Buf) = b1 at h
            have hf1 : FlagsOnly b b1 := by rw [← hb1]; exact FlagsOnly.scratch b _
            obtain ⟨o, ho, h⟩ := bind_eq_ok h
            have hf2 : FlagsOnly b1 (b1.setOutArr o) := FlagsOnly.setOutArr b1 o (orMaskRange_onlyMask _ _ _ _ _ ho)
            obtain ⟨info, hi, h⟩ := bind_eq_ok h
            cases h
            exact (hf1.trans hf2).trans (FlagsOnly.info _ info (orMaskRange_onlyMask _ _ _ _ _ hi))
          · generalize hb1 : ({ b with scratch := b.scratch ||| SCRATCH_HAS_GLYPH_FLAGS } : Buf) = b1 at h
            have hf1 : FlagsOnly b b1 := by rw [← hb1]; exact FlagsOnly.scratch b _
            obtain ⟨c1, _, h⟩ := bind_eq_ok h
            obtain ⟨c2, _, h⟩ := bind_eq_ok h
            obtain ⟨r, ho, h⟩ := bind_eq_ok h
            have hf2 : FlagsOnly b1 ((b1.setOutArr r.1).addScratch r.2) :=
              (FlagsOnly.setOutArr b1 r.1 (infosSetGlyphFlags_onlyMask _ _ _ _ _ _ _ ho)).trans (FlagsOnly.addScratch _ _)
            obtain ⟨r2, hi, h⟩ := bind_eq_ok h
            cases h
            exact ((hf1.trans hf2).trans (FlagsOnly.info _ r2.1 (infosSetGlyphFlags_onlyMask _ _ _ _ _ _ _ hi))).trans
              (FlagsOnly.addScratch _ _)

end RbModel.Buf

namespace RbModel.Buf
open RbModel.Mem

theorem OnlyMask.append {a a' c c' : List Info} (h1 : OnlyMask a a') (h2 : OnlyMask c c') : OnlyMask (a ++ c) (a' ++ c') := by
  unfold OnlyMask at *; rw [List.map_append, List.map_append, h1, h2]

theorem FlagsOnly.outArr {b b' : Buf} (h : FlagsOnly b b') : OnlyMask b.outArr b'.outArr := by
  obtain ⟨h1, h2, h3⟩ := h
  have hs : b'.sepOut = b.sepOut := by rw [h1]
  unfold Buf.outArr
  rw [hs]
  cases b.sepOut
  · exact h2
  · exact h3

theorem FlagsOnly.lview {b b' : Buf} (h : FlagsOnly b b') : OnlyMask (lview b) (lview b') := by
  have ho := h.outArr
  obtain ⟨h1, h2, h3⟩ := h
  have e1 : b'.outLen = b.outLen := by rw [h1]
  have e2 : b'.idx = b.idx := by rw [h1]
  have e3 : b'.len = b.len := by rw [h1]
  unfold Buf.lview
  rw [e1, e2, e3]
  exact (ho.take_drop _).1.append ((h2.take_drop _).2.take_drop _).1

theorem FlagsOnly.cl {b b' : Buf} (h : FlagsOnly b b') (q : Nat) : cl? (Buf.lview b') q = cl? (Buf.lview b) q :=
  (FlagsOnly.lview h).cl? q

theorem FlagsOnly.wf {b b' : Buf} (h : FlagsOnly b b') (hwf : WF b) : WF b' := by
  obtain ⟨h1, h2, h3⟩ := h
  rw [h1]
  exact ⟨hwf.idx_le, by simp; rw [h2.length]; exact hwf.len_le, by simp; intro hs; rw [h3.length]; exact hwf.sep_ok hs,
    by simp; exact hwf.nosep_ok⟩

theorem unsafeToBreak_flagsOnly {b b' : Buf} {s : Nat} {e : Option Nat} (h : b.unsafeToBreak s e = .ok b') : FlagsOnly b b' :=
  setGlyphFlags_flagsOnly _ _ _ _ _ _ _ h

theorem unsafeToBreakFromOut_flagsOnly {b b' : Buf} {s : Nat} {e : Option Nat} (h : b.unsafeToBreakFromOut s e = .ok b') :
    FlagsOnly b b' := setGlyphFlags_flagsOnly _ _ _ _ _ _ _ h

theorem unsafeToConcat_flagsOnly {b b' : Buf} {s : Nat} {e : Option Nat} (h : b.unsafeToConcat s e = .ok b') : FlagsOnly b b' := by
  unfold unsafeToConcat at h
  split at h
  · cases h; exact FlagsOnly.refl b
  · exact setGlyphFlags_flagsOnly _ _ _ _ _ _ _ h

theorem unsafeToConcatFromOut_flagsOnly {b b' : Buf} {s : Nat} {e : Option Nat} (h : b.unsafeToConcatFromOut s e = .ok b') :
    FlagsOnly b b' := by
  unfold unsafeToConcatFromOut at h
  split at h
  · cases h; exact FlagsOnly.refl b
  · exact setGlyphFlags_flagsOnly _ _ _ _ _ _ _ h

theorem safeToInsertTatweel_flagsOnly {b b' : Buf} {s : Nat} {e : Option Nat} (h : b.safeToInsertTatweel s e = .ok b') :
    FlagsOnly b b' := by
  unfold safeToInsertTatweel at h
  split at h
  · exact unsafeToBreak_flagsOnly h
  · exact setGlyphFlags_flagsOnly _ _ _ _ _ _ _ h

/-! ### transfer along equal cluster sequences -/

theorem nonDecr_of_cl_eq {L L' : List Info} (h : ∀ q, cl? L' q = cl? L q) (hm : NonDecr L) : NonDecr L' := by
  intro i j a b hij ha hb; rw [h] at ha hb; exact hm i j a b hij ha hb

theorem nonIncr_of_cl_eq {L L' : List Info} (h : ∀ q, cl? L' q = cl? L q) (hm : NonIncr L) : NonIncr L' := by
  intro i j a b hij ha hb; rw [h] at ha hb; exact hm i j a b hij ha hb

theorem valuesSubset_of_cl_eq {L L' : List Info} (h : ∀ q, cl? L' q = cl? L q) : ValuesSubset L' L := by
  intro q v hv; rw [h] at hv; exact ⟨q, hv⟩

theorem isMin_of_cl_eq {L L' : List Info} {μ : Nat} (h : ∀ q, cl? L' q = cl? L q) (hm : IsMinCluster μ L) : IsMinCluster μ L' := by
  obtain ⟨h1, q, h2⟩ := hm
  exact ⟨fun q' v hv => h1 q' v (by rw [← h]; exact hv), q, by rw [h]; exact h2⟩

theorem coarsens_of_cl_eq {L L' : List Info} (h : ∀ q, cl? L' q = cl? L q) : Coarsens L L' := by
  intro i j v hi hj; rw [h, h, hi, hj]

theorem ValuesSubset.refl (L : List Info) : ValuesSubset L L := fun q v h => ⟨q, h⟩
theorem ValuesSubset.trans {A B C : List Info} (h1 : ValuesSubset A B) (h2 : ValuesSubset B C) : ValuesSubset A C := by
  intro q v hv
  obtain ⟨p, hp⟩ := h1 q v hv
  exact h2 p v hp
theorem Coarsens.refl (L : List Info) : Coarsens L L := fun i j v hi hj => by rw [hi, hj]


end RbModel.Buf

namespace RbModel.Buf
open RbModel.Mem

/-! ### the flag loops do not panic inside the Vec -/

theorem flagAllNe_ok (cluster mask : Nat) : ∀ (k i : Nat) (l : List Info) (ch : Bool), i + k ≤ l.length →
    ∃ r, flagAllNe l cluster mask i k ch = .ok r := by
  intro k
  induction k with
  | zero => intro i l ch _; exact ⟨_, rfl⟩
  | succ k ih =>
    intro i l ch h
    have hi : i < l.length := by omega
    simp only [flagAllNe, get_ok hi, ok_bind]
    split
    · exact ih _ _ _ (by simp; omega)
    · exact ih _ _ _ (by omega)

theorem flagFromEnd_ok (cluster cf mask start : Nat) : ∀ (i : Nat) (l : List Info) (ch : Bool), i ≤ l.length →
    ∃ r, flagFromEnd l cluster cf mask start i ch = .ok r := by
  intro i
  induction i with
  | zero => intro l ch _; exact ⟨_, rfl⟩
  | succ i ih =>
    intro l ch h
    have hi : i < l.length := by omega
    simp only [flagFromEnd]
    split
    · simp only [get_ok hi, ok_bind]
      split
      · split
        · exact ih _ _ (by simp; omega)
        · exact ih _ _ (by omega)
      · exact ⟨_, rfl⟩
    · exact ⟨_, rfl⟩

theorem flagFromStart_ok (cluster cl mask : Nat) : ∀ (k i : Nat) (l : List Info) (ch : Bool), i + k ≤ l.length →
    ∃ r, flagFromStart l cluster cl mask i k ch = .ok r := by
  intro k
  induction k with
  | zero => intro i l ch _; exact ⟨_, rfl⟩
  | succ k ih =>
    intro i l ch h
    have hi : i < l.length := by omega
    simp only [flagFromStart, get_ok hi, ok_bind]
    split
    · split
      · exact ih _ _ _ (by simp; omega)
      · exact ih _ _ _ (by omega)
    · exact ⟨_, rfl⟩

theorem infosSetGlyphFlags_ok (level : Nat) (l : List Info) (start stop cluster mask : Nat) (h1 : start ≤ stop)
    (h2 : stop ≤ l.length) : ∃ r, infosSetGlyphFlags level l start stop cluster mask = .ok r := by
  unfold infosSetGlyphFlags
  by_cases he : start = stop
  · subst he; simp only [beq_self_eq_true, if_true]; exact ⟨_, rfl⟩
  · have hs : start < l.length := by omega
    have hz : stop - 1 < l.length := by omega
    have h0 : ¬ stop = 0 := by omega
    have hbe : (start == stop) = false := by simpa using he
    simp only [hbe, Bool.false_eq_true, if_false, get_ok hs, ok_bind, h0, get_ok hz]
    split
    · exact flagAllNe_ok _ _ _ _ _ _ (by omega)
    · split
      · exact flagFromEnd_ok _ _ _ _ _ _ _ h2
      · exact flagFromStart_ok _ _ _ _ _ _ _ (by omega)

theorem findMinCluster_ok (level : Nat) (l : List Info) (start stop c : Nat) (h1 : start ≤ stop) (h2 : stop ≤ l.length) :
    ∃ r, findMinCluster level l start stop c = .ok r := by
  unfold findMinCluster
  by_cases he : start = stop
  · subst he; simp only [beq_self_eq_true, if_true]; exact ⟨_, rfl⟩
  · have hs : start < l.length := by omega
    have hz : stop - 1 < l.length := by omega
    have h0 : ¬ stop = 0 := by omega
    have hbe : (start == stop) = false := by simpa using he
    simp only [hbe, Bool.false_eq_true, if_false]
    by_cases hl : level = 1
    · obtain ⟨m, hm, _⟩ := minClusterLoop_spec l (stop - start) start c (by omega)
      have hc : (decide (stop < start) || decide (stop > l.length)) = false := by
        simp only [Bool.or_eq_false_iff, decide_eq_false_iff_not]; omega
      simp only [hl, beq_self_eq_true, if_true, hc, Bool.false_eq_true, if_false, hm, ok_bind, h0, get_ok hs, get_ok hz]
      exact ⟨_, rfl⟩
    · have hbl : (level == 1) = false := by simpa using hl
      simp only [hbl, Bool.false_eq_true, if_false, pure_bind', h0, get_ok hs, get_ok hz, ok_bind]
      exact ⟨_, rfl⟩

/-- `unsafe_to_break(start, end)` inside the buffer neither panics nor touches a cluster -/
theorem unsafeToBreak_ok (b : Buf) (s e : Nat) (hwf : WF b) (hse : s ≤ e) (he : e ≤ b.len) :
    ∃ b', b.unsafeToBreak s (some e) = .ok b' ∧ FlagsOnly b b' := by
  have hlen := hwf.len_le
  suffices h : ∃ b', b.unsafeToBreak s (some e) = .ok b' by
    obtain ⟨b', hb⟩ := h
    exact ⟨b', hb, unsafeToBreak_flagsOnly hb⟩
  unfold unsafeToBreak setGlyphFlags
  have hmin : min ((some e).getD b.len) b.len = e := by simp; omega
  simp only [hmin]
  by_cases hshort : e - s < 2
  · simp [hse, hshort]; exact ⟨_, rfl⟩
  · simp only [Bool.not_false, Bool.and_true, Bool.true_and, hse, decide_true, hshort, decide_false, Bool.and_false,
      Bool.false_eq_true, if_false, Bool.true_or, if_true, Bool.not_true]
    obtain ⟨c, hc⟩ := findMinCluster_ok b.level b.info s e U32MAX hse (by omega)
    obtain ⟨r, hr⟩ := infosSetGlyphFlags_ok b.level b.info s e c (Flag.UNSAFE_TO_BREAK ||| Flag.UNSAFE_TO_CONCAT) hse (by omega)
    simp only [hc, ok_bind, hr]
    exact ⟨_, rfl⟩


end RbModel.Buf

namespace RbModel.Buf
open RbModel.Mem

/-! ## summary for the two merge primitives -/

/-- what every cluster-merging primitive guarantees about the logical sequence -/
structure MergeProps (L L' : List Info) : Prop where
  len : L'.length = L.length
  subset : ValuesSubset L' L
  nonDecr : NonDecr L → NonDecr L'
  nonIncr : NonIncr L → NonIncr L'
  coarsens : NonDecr L ∨ NonIncr L → Coarsens L L'

theorem MergeProps.refl (L : List Info) : MergeProps L L :=
  ⟨rfl, ValuesSubset.refl L, id, id, fun _ => Coarsens.refl L⟩

theorem MergeProps.of_cl_eq {L L' : List Info} (hl : L'.length = L.length) (h : ∀ q, cl? L' q = cl? L q) : MergeProps L L' :=
  ⟨hl, valuesSubset_of_cl_eq h, nonDecr_of_cl_eq h, nonIncr_of_cl_eq h, fun _ => coarsens_of_cl_eq h⟩

theorem IsMerge.props {L L' : List Info} {S E m : Nat} (h : IsMerge L L' S E m) (hSE : S < E) : MergeProps L L' :=
  ⟨h.len, h.values_subset, fun hm => h.nonDecr hSE (hm.sandwich S E), fun hm => h.nonIncr hSE (hm.sandwich S E),
   fun hm => h.coarsens hSE hm⟩

theorem FlagsOnly.props {b b' : Buf} (h : FlagsOnly b b') : MergeProps (Buf.lview b) (Buf.lview b') :=
  MergeProps.of_cl_eq (FlagsOnly.lview h).length (FlagsOnly.cl h)

/-- `merge_clusters(start, end)` on a range of the unconsumed input, all levels -/
theorem mergeClusters_props (b : Buf) (s e : Nat) (hwf : WF b) (hs : b.idx ≤ s) (he : e ≤ b.len)
    (hg : Gen.Buf.extendStartGuard = 1) :
    ∃ b', b.mergeClusters s e = .ok b' ∧ WF b' ∧ b'.idx = b.idx ∧ b'.len = b.len ∧ b'.outLen = b.outLen ∧
      b'.level = b.level ∧ b'.sepOut = b.sepOut ∧ b'.haveOutput = b.haveOutput ∧
      MergeProps (lview b) (lview b') ∧
      (b.level ≠ 2 → ∀ μ, IsMinCluster μ (lview b) → IsMinCluster μ (lview b')) ∧
      (b.level ≠ 2 → 2 ≤ e - s → SandwichUp (lview b) (b.outLen + (s - b.idx)) (b.outLen + (e - b.idx)) → NonDecr (lview b')) ∧
      (b.level ≠ 2 → 2 ≤ e - s → SandwichDown (lview b) (b.outLen + (s - b.idx)) (b.outLen + (e - b.idx)) → NonIncr (lview b')) ∧
      (b.level ≠ 2 → 2 ≤ e - s → ∃ m, ∀ q, b.outLen + (s - b.idx) ≤ q → q < b.outLen + (e - b.idx) → cl? (lview b') q = some m) ∧
      b'.info.length = b.info.length ∧ b'.out.length = b.out.length ∧ b'.successful = b.successful := by
  by_cases hshort : e - s < 2
  · refine ⟨b, ?_, hwf, rfl, rfl, rfl, rfl, rfl, rfl, MergeProps.refl _, fun _ μ h => h, fun _ h => by omega, fun _ h => by omega,
      fun _ h => by omega, rfl, rfl, rfl⟩
    unfold mergeClusters; simp [hshort]; rfl
  · by_cases hl : b.level = 2
    · obtain ⟨b', hb, hf⟩ := unsafeToBreak_ok b s e hwf (by omega) he
      have h1 := hf.1
      refine ⟨b', ?_, hf.wf hwf, by rw [h1], by rw [h1], by rw [h1], by rw [h1], by rw [h1], by rw [h1], hf.props,
        fun h => absurd hl h, fun h => absurd hl h, fun h => absurd hl h, fun h => absurd hl h,
        hf.2.1.length, hf.2.2.length, by rw [h1]⟩
      unfold mergeClusters mergeClustersImpl
      simp only [hshort, if_false, hl, beq_self_eq_true, if_true]
      rw [hb]
    · obtain ⟨b', m, hb, hsh, hm⟩ := mergeClusters_isMerge b s e hwf hs (by omega) he hl hg
      have h1 := hsh.1
      have hSE : b.outLen + (s - b.idx) < b.outLen + (e - b.idx) := by omega
      refine ⟨b', hb, hsh.wf hwf, by rw [h1], by rw [h1], by rw [h1], by rw [h1], by rw [h1], by rw [h1], hm.props hSE,
        fun _ μ hμ => hm.min_kept hSE hμ, fun _ _ hsw => hm.nonDecr hSE hsw, fun _ _ hsw => hm.nonIncr hSE hsw, ?_,
        hsh.2.1, hsh.2.2, by rw [h1]⟩
      intro _ _
      refine ⟨m, fun q h1 h2 => ?_⟩
      have hql : q < (lview b).length := by
        rw [lview_length b hwf]; unfold total; have := hwf.idx_le; omega
      exact hm.cl_in (IsMerge.zone_mid h1 h2) (cl?_lt hql)

/-- `merge_out_clusters(start, end)` on a range of the out-buffer, all levels -/
theorem mergeOutClusters_props (b : Buf) (s e : Nat) (hwf : WF b) (he : e ≤ b.outLen) :
    ∃ b', b.mergeOutClusters s e = .ok b' ∧ WF b' ∧ b'.idx = b.idx ∧ b'.len = b.len ∧ b'.outLen = b.outLen ∧
      b'.level = b.level ∧ b'.sepOut = b.sepOut ∧ b'.haveOutput = b.haveOutput ∧
      MergeProps (lview b) (lview b') ∧
      (b.level ≠ 2 → ∀ μ, IsMinCluster μ (lview b) → IsMinCluster μ (lview b')) := by
  by_cases hl : b.level = 2
  · refine ⟨b, ?_, hwf, rfl, rfl, rfl, rfl, rfl, rfl, MergeProps.refl _, fun _ μ h => h⟩
    unfold mergeOutClusters; simp [hl]; rfl
  · by_cases hshort : e - s < 2
    · refine ⟨b, ?_, hwf, rfl, rfl, rfl, rfl, rfl, rfl, MergeProps.refl _, fun _ μ h => h⟩
      unfold mergeOutClusters
      have : (b.level == 2) = false := by simpa using hl
      simp [this, hshort]; rfl
    · obtain ⟨b', m, hb, hsh, hm⟩ := mergeOutClusters_isMerge b s e hwf (by omega) he hl
      have h1 := hsh.1
      exact ⟨b', hb, hsh.wf hwf, by rw [h1], by rw [h1], by rw [h1], by rw [h1], by rw [h1], by rw [h1], hm.props (by omega),
        fun _ μ hμ => hm.min_kept (by omega) hμ⟩


end RbModel.Buf

namespace RbModel.Buf
open RbModel.Mem

/-! ## decidable forms, for examples -/

theorem nonDecr_of_pairwise (L : List Info) (h : (L.map (·.cluster)).Pairwise (· ≤ ·)) : NonDecr L := by
  rw [List.pairwise_iff_getElem] at h
  intro i j a b hij ha hb
  have hi := cl?_some_lt ha
  have hj := cl?_some_lt hb
  rw [cl?_lt hi] at ha; rw [cl?_lt hj] at hb
  cases ha; cases hb
  by_cases he : i = j
  · subst he; exact Nat.le_refl _
  · have := h i j (by simpa using hi) (by simpa using hj) (by omega)
    simpa using this

theorem nonIncr_of_pairwise (L : List Info) (h : (L.map (·.cluster)).Pairwise (· ≥ ·)) : NonIncr L := by
  rw [List.pairwise_iff_getElem] at h
  intro i j a b hij ha hb
  have hi := cl?_some_lt ha
  have hj := cl?_some_lt hb
  rw [cl?_lt hi] at ha; rw [cl?_lt hj] at hb
  cases ha; cases hb
  by_cases he : i = j
  · subst he; exact Nat.le_refl _
  · have := h i j (by simpa using hi) (by simpa using hj) (by omega)
    simpa using this

theorem RangePerm.of_take_drop {L0 L : List Info} {S E : Nat} (hlen : L.length = L0.length) (h1 : L.take S = L0.take S)
    (h2 : L.drop E = L0.drop E) (hp : ((L.drop S).take (E - S)).Perm ((L0.drop S).take (E - S))) : RangePerm L0 L S E := by
  refine ⟨hlen, ?_, hp⟩
  intro q hq
  rcases hq with h | h
  · have := congrArg (fun l => l[q]?) h1
    simpa [List.getElem?_take, h] using this
  · have := congrArg (fun l => l[q - E]?) h2
    simp only [List.getElem?_drop] at this
    have e : E + (q - E) = q := by omega
    rwa [e] at this


end RbModel.Buf

namespace RbModel.Buf
open RbModel.Mem

/-! ## removing one glyph -/

theorem cl?_eraseIdx (L : List Info) (P q : Nat) : cl? (L.eraseIdx P) q = if q < P then cl? L q else cl? L (q + 1) := by
  unfold cl?; rw [List.getElem?_eraseIdx]; split <;> rfl

theorem nonDecr_eraseIdx {L : List Info} (P : Nat) (h : NonDecr L) : NonDecr (L.eraseIdx P) := by
  intro i j a b hij ha hb
  rw [cl?_eraseIdx] at ha hb
  by_cases h1 : i < P <;> by_cases h2 : j < P <;> simp only [h1, h2, if_true, if_false] at ha hb
  · exact h i j a b hij ha hb
  · exact h i (j + 1) a b (by omega) ha hb
  · omega
  · exact h (i + 1) (j + 1) a b (by omega) ha hb

theorem nonIncr_eraseIdx {L : List Info} (P : Nat) (h : NonIncr L) : NonIncr (L.eraseIdx P) := by
  intro i j a b hij ha hb
  rw [cl?_eraseIdx] at ha hb
  by_cases h1 : i < P <;> by_cases h2 : j < P <;> simp only [h1, h2, if_true, if_false] at ha hb
  · exact h i j a b hij ha hb
  · exact h i (j + 1) a b (by omega) ha hb
  · omega
  · exact h (i + 1) (j + 1) a b (by omega) ha hb

theorem valuesSubset_eraseIdx (L : List Info) (P : Nat) : ValuesSubset (L.eraseIdx P) L := by
  intro q v hv
  rw [cl?_eraseIdx] at hv
  split at hv
  · exact ⟨q, hv⟩
  · exact ⟨q + 1, hv⟩

/-- the minimum survives the removal of a glyph unless that glyph was its only carrier -/
theorem isMin_eraseIdx {L : List Info} {μ : Nat} (P : Nat) (hm : IsMinCluster μ L)
    (hother : cl? L P = some μ → ∃ p, p ≠ P ∧ cl? L p = some μ) : IsMinCluster μ (L.eraseIdx P) := by
  obtain ⟨hlow, q, hq⟩ := hm
  constructor
  · intro q' v hv
    obtain ⟨p, hp⟩ := valuesSubset_eraseIdx L P q' v hv
    exact hlow p v hp
  · have : ∃ p, p ≠ P ∧ cl? L p = some μ := by
      by_cases hqP : q = P
      · subst hqP; exact hother hq
      · exact ⟨q, hqP, hq⟩
    obtain ⟨p, hpP, hp⟩ := this
    by_cases h1 : p < P
    · exact ⟨p, by rw [cl?_eraseIdx, if_pos h1]; exact hp⟩
    · refine ⟨p - 1, ?_⟩
      rw [cl?_eraseIdx, if_neg (by omega)]
      have : p - 1 + 1 = p := by omega
      rw [this]; exact hp

theorem skipGlyph_seq (b : Buf) (q : Nat) (hcur : b.idx < b.len) :
    seq b.skipGlyph q = if q < b.outLen then seq b q else seq b (q + 1) := by
  simp only [seq, skipGlyph, outArr]
  by_cases h1 : q < b.outLen
  · simp only [h1, if_true]; rfl
  · have h3 : ¬ q + 1 < b.outLen := by omega
    simp only [h1, h3, if_false]
    by_cases h5 : q - b.outLen < b.len - (b.idx + 1)
    · have h6 : q + 1 - b.outLen < b.len - b.idx := by omega
      simp only [h5, h6, if_true]
      congr 1; omega
    · have h6 : ¬ q + 1 - b.outLen < b.len - b.idx := by omega
      simp only [h5, h6, if_false]

theorem skipGlyph_wf (b : Buf) (hwf : WF b) (hcur : b.idx < b.len) : WF b.skipGlyph := by
  unfold skipGlyph
  exact ⟨by simp; omega, by simpa using hwf.len_le, hwf.sep_ok, by intro h; have := hwf.nosep_ok h; simp; omega⟩

theorem skipGlyph_lview (b : Buf) (hwf : WF b) (hcur : b.idx < b.len) :
    lview b.skipGlyph = (lview b).eraseIdx b.outLen := by
  apply List.ext_getElem?
  intro q
  rw [lview_getElem? _ (skipGlyph_wf b hwf hcur), skipGlyph_seq b q hcur, List.getElem?_eraseIdx]
  split
  · exact (lview_getElem? b hwf q).symm
  · exact (lview_getElem? b hwf (q + 1)).symm


end RbModel.Buf

namespace RbModel.Buf
open RbModel.Mem

/-- the ways `delete_glyph` treats the cluster of the glyph it drops -/
theorem deleteGlyph_cases (b : Buf) (hwf : WF b) (hcur : b.idx < b.len) :
    ∃ b1 : M Buf, b.deleteGlyph = (b1 >>= fun b1 => pure b1.skipGlyph) ∧
      ((b1 = pure b ∧
          ((b.idx + 1 < b.len ∧ cl? b.info (b.idx + 1) = cl? b.info b.idx) ∨
           (b.outLen ≠ 0 ∧ cl? b.outArr (b.outLen - 1) = cl? b.info b.idx) ∨
           (b.outLen ≠ 0 ∧ ∃ p c, cl? b.outArr (b.outLen - 1) = some p ∧ cl? b.info b.idx = some c ∧ p < c) ∨
           (b.outLen = 0 ∧ b.len ≤ b.idx + 1))) ∨
       (b.outLen ≠ 0 ∧ ¬ (b.idx + 1 < b.len ∧ cl? b.info (b.idx + 1) = cl? b.info b.idx) ∧
          ∃ p c mask, cl? b.outArr (b.outLen - 1) = some p ∧ cl? b.info b.idx = some c ∧ c < p ∧
            b1 = (relabelOutBack b.outArr p c mask b.outLen >>= fun o => pure (b.setOutArr o))) ∨
       (b.outLen = 0 ∧ b.idx + 1 < b.len ∧ cl? b.info (b.idx + 1) ≠ cl? b.info b.idx ∧
          b1 = b.mergeClusters b.idx (b.idx + 2))) := by
  have hlen := hwf.len_le
  have hcap := hwf.out_cap
  have hi : b.idx < b.info.length := by omega
  by_cases hn : b.idx + 1 < b.len
  · have hi1 : b.idx + 1 < b.info.length := by omega
    by_cases hns : b.info[b.idx].cluster = b.info[b.idx + 1].cluster
    · refine ⟨pure b, ?_, Or.inl ⟨rfl, Or.inl ⟨hn, by rw [cl?_lt hi1, cl?_lt hi, hns]⟩⟩⟩
      unfold deleteGlyph
      simp only [get_ok hi, ok_bind, hn, if_true, get_ok hi1, pure_bind']
      simp [hns]
    · have hnsb : (b.info[b.idx].cluster == b.info[b.idx + 1].cluster) = false := by simpa using hns
      have hnsc : ¬ (b.idx + 1 < b.len ∧ cl? b.info (b.idx + 1) = cl? b.info b.idx) := by
        rw [cl?_lt hi1, cl?_lt hi]; intro h; exact hns (Option.some.inj h.2).symm
      by_cases ho : b.outLen = 0
      · have hob : (b.outLen != 0) = false := by simp [ho]
        refine ⟨b.mergeClusters b.idx (b.idx + 2), ?_, Or.inr (Or.inr ⟨ho, hn, fun h => hnsc ⟨hn, h⟩, rfl⟩)⟩
        unfold deleteGlyph
        simp only [get_ok hi, ok_bind, hn, if_true, get_ok hi1, pure_bind', hnsb, Bool.not_false, Bool.true_and, hob,
          Bool.false_eq_true, if_false, Bool.false_or, Bool.or_false]
      · have hob : (b.outLen != 0) = true := by simp [ho]
        have hp : b.outLen - 1 < b.outArr.length := by omega
        by_cases hps : b.info[b.idx].cluster = b.outArr[b.outLen - 1].cluster
        · refine ⟨pure b, ?_, Or.inl ⟨rfl, Or.inr (Or.inl ⟨ho, by rw [cl?_lt hp, cl?_lt hi, hps]⟩)⟩⟩
          unfold deleteGlyph
          simp only [get_ok hi, ok_bind, hn, if_true, get_ok hi1, pure_bind', hnsb, Bool.not_false, Bool.true_and, hob,
            get_ok hp]
          simp [hps]
        · have hpsb : (b.info[b.idx].cluster == b.outArr[b.outLen - 1].cluster) = false := by simpa using hps
          by_cases hlt : b.info[b.idx].cluster < b.outArr[b.outLen - 1].cluster
          · refine ⟨(relabelOutBack b.outArr b.outArr[b.outLen - 1].cluster b.info[b.idx].cluster b.info[b.idx].mask b.outLen
                      >>= fun o => pure (b.setOutArr o)), ?_, Or.inr (Or.inl ⟨ho, hnsc, _, _, _, cl?_lt hp, cl?_lt hi, hlt, rfl⟩)⟩
            unfold deleteGlyph
            simp only [get_ok hi, ok_bind, hn, if_true, get_ok hi1, pure_bind', hnsb, Bool.not_false, Bool.true_and, hob,
              get_ok hp, hpsb, Bool.false_or, Bool.or_false, Bool.false_eq_true, if_false, hlt]
            cases relabelOutBack b.outArr b.outArr[b.outLen - 1].cluster b.info[b.idx].cluster b.info[b.idx].mask b.outLen <;> rfl
          · refine ⟨pure b, ?_, Or.inl ⟨rfl, Or.inr (Or.inr (Or.inl ⟨ho, _, _, cl?_lt hp, cl?_lt hi, by omega⟩))⟩⟩
            unfold deleteGlyph
            simp only [get_ok hi, ok_bind, hn, if_true, get_ok hi1, pure_bind', hnsb, Bool.not_false, Bool.true_and, hob,
              get_ok hp, hpsb, Bool.false_or, Bool.or_false, Bool.false_eq_true, if_false, hlt]
  · by_cases ho : b.outLen = 0
    · have hob : (b.outLen != 0) = false := by simp [ho]
      refine ⟨pure b, ?_, Or.inl ⟨rfl, Or.inr (Or.inr (Or.inr ⟨ho, by omega⟩))⟩⟩
      unfold deleteGlyph
      simp only [get_ok hi, ok_bind, hn, if_false, pure_bind', Bool.not_false, Bool.true_and, hob, Bool.false_eq_true,
        Bool.false_or, Bool.or_false]
    · have hob : (b.outLen != 0) = true := by simp [ho]
      have hp : b.outLen - 1 < b.outArr.length := by omega
      by_cases hps : b.info[b.idx].cluster = b.outArr[b.outLen - 1].cluster
      · refine ⟨pure b, ?_, Or.inl ⟨rfl, Or.inr (Or.inl ⟨ho, by rw [cl?_lt hp, cl?_lt hi, hps]⟩)⟩⟩
        unfold deleteGlyph
        simp only [get_ok hi, ok_bind, hn, if_false, pure_bind', Bool.not_false, Bool.true_and, hob, if_true, get_ok hp]
        simp [hps]
      · have hpsb : (b.info[b.idx].cluster == b.outArr[b.outLen - 1].cluster) = false := by simpa using hps
        by_cases hlt : b.info[b.idx].cluster < b.outArr[b.outLen - 1].cluster
        · refine ⟨(relabelOutBack b.outArr b.outArr[b.outLen - 1].cluster b.info[b.idx].cluster b.info[b.idx].mask b.outLen
                    >>= fun o => pure (b.setOutArr o)), ?_, Or.inr (Or.inl ⟨ho, by omega, _, _, _, cl?_lt hp, cl?_lt hi, hlt, rfl⟩)⟩
          unfold deleteGlyph
          simp only [get_ok hi, ok_bind, hn, if_false, pure_bind', Bool.not_false, Bool.true_and, hob, if_true, get_ok hp,
            hpsb, Bool.false_or, Bool.or_false, Bool.false_eq_true, hlt]
          cases relabelOutBack b.outArr b.outArr[b.outLen - 1].cluster b.info[b.idx].cluster b.info[b.idx].mask b.outLen <;> rfl
        · refine ⟨pure b, ?_, Or.inl ⟨rfl, Or.inr (Or.inr (Or.inl ⟨ho, _, _, cl?_lt hp, cl?_lt hi, by omega⟩))⟩⟩
          unfold deleteGlyph
          simp only [get_ok hi, ok_bind, hn, if_false, pure_bind', Bool.not_false, Bool.true_and, hob, if_true, get_ok hp,
            hpsb, Bool.false_or, Bool.or_false, Bool.false_eq_true, hlt]

end RbModel.Buf

namespace RbModel.Buf
open RbModel.Mem

theorem setOutArr_wf (b : Buf) (o : List Info) (hwf : WF b) (hlen : o.length = b.outArr.length) : WF (b.setOutArr o) := by
  have h1 := hwf.idx_le; have h2 := hwf.len_le
  cases hs : b.sepOut with
  | true =>
    have := hwf.sep_ok hs
    refine ⟨by simp [setOutArr, hs]; exact h1, by simp [setOutArr, hs]; exact h2, ?_, by simp [setOutArr, hs]⟩
    simp [setOutArr, hs]; simp [outArr, hs] at hlen; omega
  | false =>
    have := hwf.nosep_ok hs
    refine ⟨by simp [setOutArr, hs]; exact h1, ?_, by simp [setOutArr, hs], by simp [setOutArr, hs]; exact this⟩
    simp [setOutArr, hs]; simp [outArr, hs] at hlen; omega

/-- rewriting the out-buffer below `out_len` only: the unconsumed input is untouched -/
theorem setOutArr_seq (b : Buf) (o : List Info) (hwf : WF b) (hagree : ∀ q, b.outLen ≤ q → o[q]? = b.outArr[q]?) (q : Nat) :
    seq (b.setOutArr o) q = if q < b.outLen then o[q]? else seq b q := by
  cases hs : b.sepOut with
  | true =>
    simp only [seq, setOutArr, outArr, hs, if_true]
    by_cases h1 : q < b.outLen <;> simp [h1]
  | false =>
    have hns := hwf.nosep_ok hs
    simp only [seq, setOutArr, outArr, hs, Bool.false_eq_true, if_false]
    by_cases h1 : q < b.outLen
    · simp only [h1, if_true]
    · simp only [h1, if_false]
      by_cases h2 : q - b.outLen < b.len - b.idx
      · simp only [h2, if_true]
        have := hagree (b.idx + (q - b.outLen)) (by omega)
        simpa [outArr, hs] using this
      · simp only [h2, if_false]

theorem setOutArr_scalars (b : Buf) (o : List Info) :
    (b.setOutArr o).idx = b.idx ∧ (b.setOutArr o).len = b.len ∧ (b.setOutArr o).outLen = b.outLen ∧
    (b.setOutArr o).level = b.level ∧ (b.setOutArr o).sepOut = b.sepOut ∧ (b.setOutArr o).haveOutput = b.haveOutput := by
  cases hs : b.sepOut <;> simp [setOutArr, hs]

/-- **delete_glyph**: drops the current glyph; its cluster is merged into a neighbour unless it survives anyway -/
theorem deleteGlyph_props (b : Buf) (hwf : WF b) (hcur : b.idx < b.len) (hg : Gen.Buf.extendStartGuard = 1) :
    ∃ b', b.deleteGlyph = .ok b' ∧ WF b' ∧ b'.idx = b.idx + 1 ∧ b'.len = b.len ∧ b'.outLen = b.outLen ∧
      b'.level = b.level ∧ b'.sepOut = b.sepOut ∧ b'.haveOutput = b.haveOutput ∧
      (lview b').length + 1 = (lview b).length ∧
      ValuesSubset (lview b') (lview b) ∧
      (NonDecr (lview b) → NonDecr (lview b')) ∧ (NonIncr (lview b) → NonIncr (lview b')) ∧
      (b.level ≠ 2 → (lview b').length ≠ 0 → ∀ μ, IsMinCluster μ (lview b) → IsMinCluster μ (lview b')) := by
  have hidx := hwf.idx_le
  have hlen := hwf.len_le
  have hcap := hwf.out_cap
  have hi : b.idx < b.info.length := by omega
  have hP : b.outLen < (lview b).length := by rw [lview_length b hwf]; unfold total; omega
  have hLlen : (lview b).length = b.outLen + (b.len - b.idx) := by rw [lview_length b hwf]; rfl
  have hclP : cl? (lview b) b.outLen = cl? b.info b.idx := by
    rw [lview_cl_in b hwf _ (Nat.le_refl _) (by unfold total; omega)]; congr 1; omega
  obtain ⟨b1, heq, hcase⟩ := deleteGlyph_cases b hwf hcur
  rcases hcase with ⟨hb1, hsub⟩ | ⟨ho, hnn, p, c, mask, hp, hc, hlt, hb1⟩ | ⟨ho, hn, hne, hb1⟩
  · -- the glyph is simply skipped
    subst hb1
    refine ⟨b.skipGlyph, by rw [heq]; rfl, skipGlyph_wf b hwf hcur, rfl, rfl, rfl, rfl, rfl, rfl, ?_, ?_, ?_, ?_, ?_⟩
    · rw [skipGlyph_lview b hwf hcur, List.length_eraseIdx, if_pos hP]; omega
    · rw [skipGlyph_lview b hwf hcur]; exact valuesSubset_eraseIdx _ _
    · rw [skipGlyph_lview b hwf hcur]; exact nonDecr_eraseIdx _
    · rw [skipGlyph_lview b hwf hcur]; exact nonIncr_eraseIdx _
    · intro _ hne μ hμ
      rw [skipGlyph_lview b hwf hcur] at hne ⊢
      apply isMin_eraseIdx _ hμ
      intro hPμ
      rcases hsub with ⟨h1, h2⟩ | ⟨h1, h2⟩ | ⟨h1, p, c, hp, hc, hlt⟩ | ⟨h1, h2⟩
      · refine ⟨b.outLen + 1, by omega, ?_⟩
        rw [lview_cl_in b hwf _ (by omega) (by unfold total; omega), ← hPμ, hclP, ← h2]; congr 1; omega
      · refine ⟨b.outLen - 1, by omega, ?_⟩
        rw [lview_cl_out b hwf _ (by omega), h2, ← hclP, hPμ]
      · exfalso
        rw [hclP, hc] at hPμ
        have hcμ : c = μ := Option.some.inj hPμ
        have := hμ.1 (b.outLen - 1) p (by rw [lview_cl_out b hwf _ (by omega)]; exact hp)
        omega
      · exfalso; apply hne
        rw [List.length_eraseIdx, if_pos hP, hLlen]; omega
  · -- the cluster is merged backwards into the out-buffer
    have hp' : b.outLen - 1 < b.outArr.length := by omega
    obtain ⟨o, k, hr, hk, holen, hoq, hrun, hstop⟩ := relabelOutBack_spec p c mask b.outLen b.outArr hcap
    have hk1 : k < b.outLen := by
      rcases hstop with h | h
      · omega
      · by_cases h2 : k < b.outLen
        · exact h2
        · have : k = b.outLen := by omega
          rw [this] at h; exact absurd hp h
    have hb1' : b1 = pure (b.setOutArr o) := by rw [hb1, hr]; rfl
    subst hb1'
    have hwf1 := setOutArr_wf b o hwf holen
    obtain ⟨s1, s2, s3, s4, s5, s6⟩ := setOutArr_scalars b o
    have hcur1 : (b.setOutArr o).idx < (b.setOutArr o).len := by rw [s1, s2]; exact hcur
    have hagree : ∀ q, b.outLen ≤ q → o[q]? = b.outArr[q]? := by
      intro q hq; rw [hoq q, if_neg (by omega)]
    -- clusters of the intermediate sequence
    have hcl1 : ∀ q, cl? (lview (b.setOutArr o)) q = if k ≤ q ∧ q < b.outLen then some c else cl? (lview b) q := by
      intro q
      unfold cl?
      rw [lview_getElem? _ hwf1, lview_getElem? _ hwf, setOutArr_seq b o hwf hagree q]
      by_cases hq : q < b.outLen
      · have hsq : seq b q = b.outArr[q]? := by simp [seq, hq]
        rw [if_pos hq, hoq q, hsq]
        by_cases hkq : k ≤ q
        · rw [if_pos ⟨hkq, hq⟩, if_pos ⟨hkq, hq⟩]
          have : q < b.outArr.length := by omega
          rw [List.getElem?_eq_getElem this]; rfl
        · rw [if_neg (by omega), if_neg (by omega)]
      · rw [if_neg hq, if_neg (by omega)]
    have hrunL : ∀ q, k ≤ q → q < b.outLen → cl? (lview b) q = some p := by
      intro q h1 h2; rw [lview_cl_out b hwf q h2]; exact hrun q h1 h2
    have hcP : cl? (lview b) b.outLen = some c := by rw [hclP]; exact hc
    have hlen1 : (lview (b.setOutArr o)).length = (lview b).length := by
      rw [lview_length _ hwf1, lview_length _ hwf]; unfold total; rw [s1, s2, s3]
    have hsub1 : ValuesSubset (lview (b.setOutArr o)) (lview b) := by
      intro q v hv
      rw [hcl1 q] at hv
      split at hv
      · exact ⟨b.outLen, by rw [hcP]; exact hv⟩
      · exact ⟨q, hv⟩
    have hL' : lview ((b.setOutArr o).skipGlyph) = (lview (b.setOutArr o)).eraseIdx b.outLen := by
      rw [skipGlyph_lview _ hwf1 hcur1, s3]
    refine ⟨(b.setOutArr o).skipGlyph, by rw [heq]; rfl, skipGlyph_wf _ hwf1 hcur1, by simp [skipGlyph, s1],
      by simp [skipGlyph, s2], by simp [skipGlyph, s3], by simp [skipGlyph, s4], by simp [skipGlyph, s5],
      by simp [skipGlyph, s6], ?_, ?_, ?_, ?_, ?_⟩
    · rw [hL', List.length_eraseIdx, if_pos (by rw [hlen1]; exact hP), hlen1]; omega
    · rw [hL']; exact (valuesSubset_eraseIdx _ _).trans hsub1
    · intro hm
      exfalso
      have := hm (b.outLen - 1) b.outLen p c (by omega) (hrunL _ (by omega) (by omega)) hcP
      omega
    · intro hm
      rw [hL']
      apply nonIncr_eraseIdx
      intro i j a' b' hij ha hb
      rw [hcl1 i] at ha; rw [hcl1 j] at hb
      by_cases hzi : k ≤ i ∧ i < b.outLen <;> by_cases hzj : k ≤ j ∧ j < b.outLen
      · rw [if_pos hzi] at ha; rw [if_pos hzj] at hb; cases ha; cases hb; exact Nat.le_refl _
      · rw [if_pos hzi] at ha; rw [if_neg hzj] at hb; cases ha
        exact hm b.outLen j c b' (by omega) hcP hb
      · rw [if_neg hzi] at ha; rw [if_pos hzj] at hb; cases hb
        have := hm i j a' p hij ha (hrunL j hzj.1 hzj.2)
        omega
      · rw [if_neg hzi] at ha; rw [if_neg hzj] at hb
        exact hm i j a' b' hij ha hb
    · intro _ _ μ hμ
      rw [hL']
      have hmin1 : IsMinCluster μ (lview (b.setOutArr o)) := by
        obtain ⟨hlow, q, hq⟩ := hμ
        refine ⟨fun q' v hv => ?_, q, ?_⟩
        · obtain ⟨p', hp'⟩ := hsub1 q' v hv
          exact hlow p' v hp'
        · rw [hcl1 q, if_neg]
          · exact hq
          · intro hz
            have h1 := hrunL q hz.1 hz.2
            rw [hq] at h1
            have h2 := hlow b.outLen c hcP
            have : μ = p := Option.some.inj h1
            omega
      apply isMin_eraseIdx _ hmin1
      intro _
      refine ⟨b.outLen - 1, by omega, ?_⟩
      rw [hcl1, if_pos (by omega)]
      have hc' := hcl1 b.outLen
      rw [if_neg (by omega), hcP] at hc'
      rename_i h3
      rw [hc'] at h3
      rw [h3]
  · -- nothing on the output side: merge with the next glyph
    obtain ⟨b2, hm, hwf2, e1, e2, e3, e4, e5, e6, hprops, hmin, _, _, hunif, _⟩ :=
      mergeClusters_props b b.idx (b.idx + 2) hwf (Nat.le_refl _) (by omega) hg
    have hb1' : b1 = pure b2 := by rw [hb1, hm]; rfl
    subst hb1'
    have hcur2 : b2.idx < b2.len := by rw [e1, e2]; exact hcur
    have hL' : lview b2.skipGlyph = (lview b2).eraseIdx b.outLen := by rw [skipGlyph_lview _ hwf2 hcur2, e3]
    refine ⟨b2.skipGlyph, by rw [heq]; rfl, skipGlyph_wf _ hwf2 hcur2, by simp [skipGlyph, e1], by simp [skipGlyph, e2],
      by simp [skipGlyph, e3], by simp [skipGlyph, e4], by simp [skipGlyph, e5], by simp [skipGlyph, e6], ?_, ?_, ?_, ?_, ?_⟩
    · rw [hL', List.length_eraseIdx, if_pos (by rw [hprops.len]; exact hP), hprops.len]; omega
    · rw [hL']; exact (valuesSubset_eraseIdx _ _).trans hprops.subset
    · intro h; rw [hL']; exact nonDecr_eraseIdx _ (hprops.nonDecr h)
    · intro h; rw [hL']; exact nonIncr_eraseIdx _ (hprops.nonIncr h)
    · intro hl _ μ hμ
      rw [hL']
      apply isMin_eraseIdx _ (hmin hl μ hμ)
      intro h0
      obtain ⟨m, hm'⟩ := hunif hl (by omega)
      have h1 := hm' b.outLen (by omega) (by omega)
      have h2 := hm' (b.outLen + 1) (by omega) (by omega)
      refine ⟨b.outLen + 1, by omega, ?_⟩
      rw [h2, ← h1, h0]


end RbModel.Buf

namespace RbModel.Buf
open RbModel.Mem

/-! ## the streaming primitives (zipper moves) keep the cluster sequence -/

theorem lview_eq_of_seq {b b' : Buf} (hwf : WF b) (hwf' : WF b') (h : ∀ q, seq b' q = seq b q) : lview b' = lview b := by
  apply List.ext_getElem?
  intro q
  rw [lview_getElem? _ hwf', lview_getElem? _ hwf, h q]

/-- one glyph `x` inserted at position `P` -/
def IsInsert (L L' : List Info) (P : Nat) (x : Info) : Prop :=
  ∀ q, L'[q]? = if q < P then L[q]? else if q = P then some x else L[q - 1]?

theorem IsInsert.cl {L L' : List Info} {P : Nat} {x : Info} (h : IsInsert L L' P x) (q : Nat) :
    cl? L' q = if q < P then cl? L q else if q = P then some x.cluster else cl? L (q - 1) := by
  unfold cl?; rw [h q]
  split
  · rfl
  · split <;> rfl

/-- inserting a glyph never introduces a cluster value other than the one it carries -/
theorem IsInsert.subset_supplied {L L' : List Info} {P : Nat} {x : Info} (h : IsInsert L L' P x) :
    ∀ q v, cl? L' q = some v → v = x.cluster ∨ ∃ p, cl? L p = some v := by
  intro q v hv
  rw [h.cl q] at hv
  split at hv
  · exact Or.inr ⟨q, hv⟩
  · split at hv
    · left; exact (Option.some.inj hv).symm
    · exact Or.inr ⟨q - 1, hv⟩

/-- a copy of a neighbour's cluster (what `copy_glyph`, `output_glyph`, `replace_glyphs` insert) keeps everything -/
theorem IsInsert.props {L L' : List Info} {P : Nat} {x : Info} (h : IsInsert L L' P x)
    (hx : cl? L P = some x.cluster ∨ (0 < P ∧ cl? L (P - 1) = some x.cluster)) :
    ValuesSubset L' L ∧ (NonDecr L → NonDecr L') ∧ (NonIncr L → NonIncr L') ∧
    (∀ μ, IsMinCluster μ L → IsMinCluster μ L') := by
  have hsub : ValuesSubset L' L := by
    intro q v hv
    rcases h.subset_supplied q v hv with h1 | h1
    · subst h1
      rcases hx with h2 | ⟨_, h2⟩
      · exact ⟨P, h2⟩
      · exact ⟨P - 1, h2⟩
    · exact h1
  -- the cluster x carries sits at position px ∈ {P-1, P} of L
  obtain ⟨px, hpx, hpx1, hpx2⟩ : ∃ px, cl? L px = some x.cluster ∧ P ≤ px + 1 ∧ px ≤ P := by
    rcases hx with h3 | ⟨h0, h3⟩
    · exact ⟨P, h3, by omega, Nat.le_refl _⟩
    · exact ⟨P - 1, h3, by omega, by omega⟩
  refine ⟨hsub, ?_, ?_, ?_⟩
  · intro hm i j a b hij ha hb
    rw [h.cl i] at ha; rw [h.cl j] at hb
    by_cases hi1 : i < P
    · rw [if_pos hi1] at ha
      by_cases hj1 : j < P
      · rw [if_pos hj1] at hb; exact hm i j a b hij ha hb
      · rw [if_neg hj1] at hb
        by_cases hj2 : j = P
        · rw [if_pos hj2] at hb; cases hb
          exact hm i px a _ (by omega) ha hpx
        · rw [if_neg hj2] at hb; exact hm i (j - 1) a b (by omega) ha hb
    · rw [if_neg hi1] at ha
      rw [if_neg (by omega)] at hb
      by_cases hi2 : i = P
      · rw [if_pos hi2] at ha; cases ha
        by_cases hj2 : j = P
        · rw [if_pos hj2] at hb; cases hb; exact Nat.le_refl _
        · rw [if_neg hj2] at hb; exact hm px (j - 1) _ b (by omega) hpx hb
      · rw [if_neg hi2] at ha; rw [if_neg (by omega)] at hb
        exact hm (i - 1) (j - 1) a b (by omega) ha hb
  · intro hm i j a b hij ha hb
    rw [h.cl i] at ha; rw [h.cl j] at hb
    by_cases hi1 : i < P
    · rw [if_pos hi1] at ha
      by_cases hj1 : j < P
      · rw [if_pos hj1] at hb; exact hm i j a b hij ha hb
      · rw [if_neg hj1] at hb
        by_cases hj2 : j = P
        · rw [if_pos hj2] at hb; cases hb
          exact hm i px a _ (by omega) ha hpx
        · rw [if_neg hj2] at hb; exact hm i (j - 1) a b (by omega) ha hb
    · rw [if_neg hi1] at ha
      rw [if_neg (by omega)] at hb
      by_cases hi2 : i = P
      · rw [if_pos hi2] at ha; cases ha
        by_cases hj2 : j = P
        · rw [if_pos hj2] at hb; cases hb; exact Nat.le_refl _
        · rw [if_neg hj2] at hb; exact hm px (j - 1) _ b (by omega) hpx hb
      · rw [if_neg hi2] at ha; rw [if_neg (by omega)] at hb
        exact hm (i - 1) (j - 1) a b (by omega) ha hb
  · intro μ ⟨hlow, q, hq⟩
    refine ⟨fun q' v hv => ?_, ?_⟩
    · obtain ⟨p, hp⟩ := hsub q' v hv
      exact hlow p v hp
    · by_cases h1 : q < P
      · exact ⟨q, by rw [h.cl q, if_pos h1]; exact hq⟩
      · refine ⟨q + 1, ?_⟩
        rw [h.cl (q + 1), if_neg (by omega), if_neg (by omega)]
        exact hq


end RbModel.Buf

namespace RbModel.Buf
open RbModel.Mem

/-- what a primitive that adds no cluster value guarantees about the logical sequence -/
structure KeepProps (L L' : List Info) : Prop where
  subset : ValuesSubset L' L
  nonDecr : NonDecr L → NonDecr L'
  nonIncr : NonIncr L → NonIncr L'
  min : ∀ μ, IsMinCluster μ L → IsMinCluster μ L'

theorem KeepProps.of_cl_eq {L L' : List Info} (h : ∀ q, cl? L' q = cl? L q) : KeepProps L L' :=
  ⟨valuesSubset_of_cl_eq h, nonDecr_of_cl_eq h, nonIncr_of_cl_eq h, fun _ => isMin_of_cl_eq h⟩

theorem KeepProps.of_eq {L L' : List Info} (h : L' = L) : KeepProps L L' := by
  subst h; exact KeepProps.of_cl_eq (fun _ => rfl)

theorem lview_budget_failure (b : Buf) : lview { b with successful := false } = lview b := rfl

theorem Inv.budget_failure {b : Buf} (h : Inv b) : Inv { b with successful := false } :=
  ⟨h.idx_le, h.len_le, h.out_len, h.sep_ok, h.nosep_ok, h.have_out⟩

/-- `next_glyph`: the cluster sequence is unchanged -/
theorem nextGlyph_keep (b : Buf) (hinv : Inv b) (hcur : b.idx < b.len) (hg : Gen.Buf.ensureGrowOnly = true) :
    ∃ b', b.nextGlyph = .ok b' ∧ Inv b' ∧ lview b' = lview b := by
  obtain ⟨b', h, hc⟩ := nextGlyph_spec b hinv hcur hg
  rcases hc with hf | ⟨hinv', _, _, _, _, hseq⟩
  · subst hf; exact ⟨_, h, hinv.budget_failure, rfl⟩
  · exact ⟨b', h, hinv', lview_eq_of_seq (WF.of_inv hinv) (WF.of_inv hinv') hseq⟩

theorem nextGlyphs_keep (b : Buf) (n : Nat) (hinv : Inv b) (hn : b.idx + n ≤ b.len) (hg : Gen.Buf.ensureGrowOnly = true) :
    ∃ b', b.nextGlyphs n = .ok b' ∧ Inv b' ∧ lview b' = lview b := by
  obtain ⟨b', h, hc⟩ := nextGlyphs_spec b n hinv hn hg
  rcases hc with hf | ⟨hinv', _, _, _, _, hseq⟩
  · subst hf; exact ⟨_, h, hinv.budget_failure, rfl⟩
  · exact ⟨b', h, hinv', lview_eq_of_seq (WF.of_inv hinv) (WF.of_inv hinv') hseq⟩

theorem moveTo_keep (b : Buf) (i : Nat) (hinv : Inv b) (hi : i ≤ total b)
    (hg : Gen.Buf.ensureGrowOnly = true) (hr : Gen.Buf.moveToRewindReversed = true) :
    ∃ b' r, b.moveTo i = .ok (b', r) ∧ (r = false → b'.successful = false) ∧ (r = true → Inv b' ∧ lview b' = lview b) := by
  obtain ⟨b', r, h, hf, ht⟩ := moveTo_spec b i hinv hi hg hr
  refine ⟨b', r, h, hf, fun hr' => ?_⟩
  obtain ⟨hinv', _, _, hseq, _⟩ := ht hr'
  exact ⟨hinv', lview_eq_of_seq (WF.of_inv hinv) (WF.of_inv hinv') hseq⟩

theorem replaceGlyph_keep (b : Buf) (g : Nat) (hinv : Inv b) (hcur : b.idx < b.len) (hg : Gen.Buf.ensureGrowOnly = true) :
    ∃ b', b.replaceGlyph g = .ok b' ∧ Inv b' ∧ (∀ q, cl? (lview b') q = cl? (lview b) q) := by
  obtain ⟨b', h, hc⟩ := replaceGlyph_spec b g hinv hcur hg
  rcases hc with hf | ⟨hinv', _, _, _, _, x, hx, hseq⟩
  · subst hf; exact ⟨_, h, hinv.budget_failure, fun _ => rfl⟩
  · refine ⟨b', h, hinv', fun q => ?_⟩
    unfold cl?
    rw [lview_getElem? _ (WF.of_inv hinv'), lview_getElem? _ (WF.of_inv hinv), hseq q]
    by_cases hq : q = b.outLen
    · subst hq
      rw [if_pos rfl, seq_at_outLen b hcur, hx]; rfl
    · rw [if_neg hq]

theorem copyGlyph_keep (b : Buf) (hinv : Inv b) (hcur : b.idx < b.len) (hg : Gen.Buf.ensureGrowOnly = true) :
    ∃ b', b.copyGlyph = .ok b' ∧ Inv b' ∧ KeepProps (lview b) (lview b') := by
  have hwf := WF.of_inv hinv
  obtain ⟨b', h, hc⟩ := copyGlyph_spec b hinv hcur hg
  rcases hc with hf | ⟨hinv', _, _, _, _, hseq⟩
  · subst hf; exact ⟨_, h, hinv.budget_failure, KeepProps.of_eq rfl⟩
  · have hil : b.idx < b.info.length := by have := hinv.len_le; omega
    have hx : b.info[b.idx]? = some b.info[b.idx] := List.getElem?_eq_getElem hil
    have hins : IsInsert (lview b) (lview b') b.outLen b.info[b.idx] := by
      intro q
      rw [lview_getElem? _ (WF.of_inv hinv'), hseq q, hx]
      split
      · exact (lview_getElem? b hwf q).symm
      · split
        · rfl
        · exact (lview_getElem? b hwf (q - 1)).symm
    have hcl : cl? (lview b) b.outLen = some b.info[b.idx].cluster := by
      unfold cl?; rw [lview_getElem? b hwf, seq_at_outLen b hcur, hx]; rfl
    obtain ⟨p1, p2, p3, p4⟩ := hins.props (Or.inl hcl)
    exact ⟨b', h, hinv', ⟨p1, p2, p3, p4⟩⟩

theorem outputInfo_keep (b : Buf) (x : Info) (hinv : Inv b) (hg : Gen.Buf.ensureGrowOnly = true) :
    ∃ b', b.outputInfo x = .ok b' ∧ Inv b' ∧
      ∀ q v, cl? (lview b') q = some v → v = x.cluster ∨ ∃ p, cl? (lview b) p = some v := by
  have hwf := WF.of_inv hinv
  obtain ⟨b', h, hc⟩ := outputInfo_spec b x hinv hg
  rcases hc with hf | ⟨hinv', _, _, _, _, hseq⟩
  · subst hf; exact ⟨_, h, hinv.budget_failure, fun q v hv => Or.inr ⟨q, hv⟩⟩
  · have hins : IsInsert (lview b) (lview b') b.outLen x := by
      intro q
      rw [lview_getElem? _ (WF.of_inv hinv'), hseq q]
      split
      · exact (lview_getElem? b hwf q).symm
      · split
        · rfl
        · exact (lview_getElem? b hwf (q - 1)).symm
    exact ⟨b', h, hinv', hins.subset_supplied⟩

theorem outputGlyph_empty (b : Buf) (g : Nat) (hinv : Inv b) (hg : Gen.Buf.ensureGrowOnly = true) (h1 : b.idx = b.len)
    (h2 : b.outLen = 0) (b' : Buf) (h : b.outputGlyph g = .ok b') : b'.successful = false ∨ b'.outLen = 0 := by
  unfold outputGlyph at h
  rcases insert_spec b hinv hg with hfail | ⟨b1, hok, ho, hi, hl, _⟩
  · simp only [hfail, ok_bind, Bool.not_false, if_true] at h
    cases h; exact Or.inl rfl
  · have hc : (b1.idx == b1.len && b1.outLen == 0) = true := by simp [hi, hl, ho, h1, h2]
    simp only [hok, ok_bind, Bool.not_true, Bool.false_eq_true, if_false, hc, if_true] at h
    cases h; right; rw [ho, h2]

theorem outputGlyph_keep (b : Buf) (g : Nat) (hinv : Inv b) (hg : Gen.Buf.ensureGrowOnly = true) :
    ∃ b', b.outputGlyph g = .ok b' ∧ (b'.successful = false ∨ KeepProps (lview b) (lview b')) := by
  have hwf := WF.of_inv hinv
  have hidx := hinv.idx_le
  have hlen := hinv.len_le
  obtain ⟨b', h, hc⟩ := outputGlyph_spec b g hinv hg
  refine ⟨b', h, ?_⟩
  rcases hc with hf | ⟨h1, h2, hseq, ho, hi, hl⟩ | ⟨hinv', _, _, _, _, x, hx, hseq⟩
  · exact Or.inl hf
  · -- empty buffer: nothing happens; the logical sequence is empty before and after
    right
    have e1 : lview b = [] := by simp [lview, h1, h2]
    have e2 : lview b' = [] := by simp [lview, ho, hi, hl, h1]
    exact KeepProps.of_eq (by rw [e1, e2])
  · rename_i hol _ _ _
    by_cases hemp : b.idx = b.len ∧ b.outLen = 0
    · rcases outputGlyph_empty b g hinv hg hemp.1 hemp.2 b' h with hf | hz
      · exact Or.inl hf
      · omega
    right
    have hins : IsInsert (lview b) (lview b') b.outLen { x with gid := g } := by
      intro q
      rw [lview_getElem? _ (WF.of_inv hinv'), hseq q]
      split
      · exact (lview_getElem? b hwf q).symm
      · split
        · rfl
        · exact (lview_getElem? b hwf (q - 1)).symm
    have hxc : cl? (lview b) b.outLen = some x.cluster ∨ (0 < b.outLen ∧ cl? (lview b) (b.outLen - 1) = some x.cluster) := by
      by_cases hcur : b.idx < b.len
      · left
        rw [if_pos hcur] at hx
        unfold cl?; rw [lview_getElem? b hwf, seq_at_outLen b hcur, hx]; rfl
      · rw [if_neg hcur] at hx
        have ho : 0 < b.outLen := by
          by_cases h0 : b.outLen = 0
          · exact absurd ⟨by omega, h0⟩ hemp
          · omega
        right
        refine ⟨ho, ?_⟩
        rw [lview_cl_out b hwf _ (by omega)]
        unfold cl?; rw [hx]; rfl
    obtain ⟨p1, p2, p3, p4⟩ := hins.props hxc
    exact ⟨p1, p2, p3, p4⟩

theorem sync_keep (b : Buf) (hinv : Inv b) (hg : Gen.Buf.ensureGrowOnly = true) :
    ∃ b' r, b.sync = .ok (b', r) ∧ (b'.successful = false ∨ (WF b' ∧ b'.idx = 0 ∧ b'.outLen = 0 ∧ lview b' = lview b)) := by
  have hwf := WF.of_inv hinv
  obtain ⟨b', r, h, hc⟩ := sync_spec b hinv hg
  refine ⟨b', r, h, ?_⟩
  rcases hc with hf | ⟨_, hl, hi, ho, _, hs, hle, _, hq⟩
  · exact Or.inl hf
  · right
    have hwf' : WF b' := ⟨by omega, hle, fun h => (by rw [hs] at h; cases h), fun _ => (by omega)⟩
    refine ⟨hwf', hi, ho, ?_⟩
    apply List.ext_getElem?
    intro q
    rw [lview_getElem? _ hwf', lview_getElem? _ hwf]
    by_cases h1 : q < b'.len
    · rw [← hq q h1]
      simp [seq, ho, hi, h1]
    · have : seq b' q = none := by simp [seq, ho, hi, h1]
      rw [this]
      symm
      rw [← lview_getElem? b hwf]
      apply List.getElem?_eq_none
      rw [lview_length b hwf]; omega


end RbModel.Buf

namespace RbModel.Buf
open RbModel.Mem

/-! ## in-place mode: reversals -/

/-- in-place mode: nothing on the output side, the logical sequence is `info[0..len)` -/
structure InPlace (b : Buf) : Prop where
  idx0 : b.idx = 0
  out0 : b.outLen = 0
  len_le : b.len ≤ b.info.length

theorem InPlace.wf {b : Buf} (h : InPlace b) : WF b :=
  ⟨by rw [h.idx0]; omega, h.len_le, fun _ => by rw [h.out0]; omega, fun _ => by rw [h.out0]; omega⟩

theorem InPlace.lview {b : Buf} (h : InPlace b) : Buf.lview b = b.info.take b.len := by
  unfold Buf.lview; rw [h.idx0, h.out0]; simp

theorem cl?_reverse (L : List Info) (q : Nat) (hq : q < L.length) : cl? L.reverse q = cl? L (L.length - 1 - q) := by
  unfold cl?; rw [List.getElem?_reverse hq]

theorem nonIncr_reverse {L : List Info} (h : NonDecr L) : NonIncr L.reverse := by
  intro i j a b hij ha hb
  have hj := cl?_some_lt hb; have hi := cl?_some_lt ha
  rw [List.length_reverse] at hi hj
  rw [cl?_reverse L i hi] at ha; rw [cl?_reverse L j hj] at hb
  exact h _ _ b a (by omega) hb ha

theorem nonDecr_reverse {L : List Info} (h : NonIncr L) : NonDecr L.reverse := by
  intro i j a b hij ha hb
  have hj := cl?_some_lt hb; have hi := cl?_some_lt ha
  rw [List.length_reverse] at hi hj
  rw [cl?_reverse L i hi] at ha; rw [cl?_reverse L j hj] at hb
  exact h _ _ b a (by omega) hb ha

theorem valuesSubset_reverse (L : List Info) : ValuesSubset L.reverse L := by
  intro q v hv
  have hq := cl?_some_lt hv
  rw [List.length_reverse] at hq
  rw [cl?_reverse L q hq] at hv
  exact ⟨_, hv⟩

theorem isMin_reverse {L : List Info} {μ : Nat} (h : IsMinCluster μ L) : IsMinCluster μ L.reverse := by
  obtain ⟨hlow, q, hq⟩ := h
  refine ⟨fun q' v hv => ?_, ?_⟩
  · obtain ⟨p, hp⟩ := valuesSubset_reverse L q' v hv
    exact hlow p v hp
  · have hql := cl?_some_lt hq
    refine ⟨L.length - 1 - q, ?_⟩
    rw [cl?_reverse L _ (by omega)]
    have : L.length - 1 - (L.length - 1 - q) = q := by omega
    rw [this]; exact hq

/-- `reverse_range(start, end)` reverses that slice of the Vec -/
theorem reverseRange_spec (b : Buf) (s e : Nat) (hse : s ≤ e) (he : e ≤ b.info.length) :
    ∃ I, b.reverseRange s e = .ok { b with info := I } ∧
      I = b.info.take s ++ ((b.info.drop s).take (e - s)).reverse ++ b.info.drop e ∧ I.length = b.info.length := by
  unfold reverseRange
  by_cases hshort : e - s < 2
  · refine ⟨b.info, by simp [hshort]; rfl, ?_, rfl⟩
    -- a slice of length ≤ 1 is its own reverse
    have hl : ((b.info.drop s).take (e - s)).length ≤ 1 := by simp; omega
    have hrev : ((b.info.drop s).take (e - s)).reverse = (b.info.drop s).take (e - s) := by
      generalize (b.info.drop s).take (e - s) = l at hl
      match l, hl with
      | [], _ => rfl
      | [x], _ => rfl
    rw [hrev]
    have : List.drop e b.info = List.drop (e - s) (List.drop s b.info) := by
      rw [List.drop_drop]; congr 1; omega
    rw [this, List.append_assoc, List.take_append_drop, List.take_append_drop]
  · have hc : (decide (s > e) || decide (e > b.info.length)) = false := by
      simp only [Bool.or_eq_false_iff, decide_eq_false_iff_not]; omega
    refine ⟨_, ?_, rfl, ?_⟩
    · simp only [hshort, if_false, revSlice, hc, Bool.false_eq_true, pure_bind']
      rfl
    · simp; omega

theorem reverse_spec (b : Buf) (hin : InPlace b) :
    ∃ b', b.reverse = .ok b' ∧ InPlace b' ∧ b'.len = b.len ∧ b'.level = b.level ∧ lview b' = (lview b).reverse := by
  unfold Buf.reverse
  by_cases h0 : b.len = 0
  · refine ⟨b, by simp [h0]; rfl, hin, rfl, rfl, ?_⟩
    rw [hin.lview, h0]; rfl
  · obtain ⟨I, hr, hI, hIl⟩ := reverseRange_spec b 0 b.len (by omega) hin.len_le
    have hb0 : (b.len == 0) = false := by simpa using h0
    have hin' : InPlace { b with info := I } := ⟨hin.idx0, hin.out0, by simp; rw [hIl]; exact hin.len_le⟩
    refine ⟨{ b with info := I }, by simp only [hb0, Bool.false_eq_true, if_false]; exact hr, hin', rfl, rfl, ?_⟩
    rw [hin'.lview, hin.lview]
    simp only
    rw [hI]
    simp only [List.take_zero, List.nil_append, List.drop_zero, Nat.sub_zero]
    have hle := hin.len_le
    have hl1 : ((b.info.take b.len).reverse).length = b.len := by simp; omega
    rw [List.take_append_of_le_length (by omega)]
    rw [List.take_of_length_le (by omega)]


end RbModel.Buf

namespace RbModel.Buf
open RbModel.Mem

theorem KeepProps.trans {A B C : List Info} (h1 : KeepProps A B) (h2 : KeepProps B C) : KeepProps A C :=
  ⟨h2.subset.trans h1.subset, fun h => h2.nonDecr (h1.nonDecr h), fun h => h2.nonIncr (h1.nonIncr h),
   fun μ h => h2.min μ (h1.min μ h)⟩

theorem KeepProps.refl (L : List Info) : KeepProps L L := KeepProps.of_eq rfl

theorem cl?_take (l : List Info) (n q : Nat) : cl? (l.take n) q = if q < n then cl? l q else none := by
  unfold cl?; rw [List.getElem?_take]; split <;> rfl

/-- reversing a slice whose records all carry one cluster does not change the cluster sequence of the Vec -/
theorem reverseRange_uniform (b : Buf) (s e c : Nat) (hse : s ≤ e) (he : e ≤ b.info.length)
    (hu : ∀ q v, s ≤ q → q < e → cl? b.info q = some v → v = c) :
    ∃ I, b.reverseRange s e = .ok { b with info := I } ∧ I.length = b.info.length ∧ RangePerm b.info I s e ∧
      ∀ q, cl? I q = cl? b.info q := by
  obtain ⟨I, hr, hI, hIl⟩ := reverseRange_spec b s e hse he
  have hts : (b.info.take s).length = s := by simp; omega
  have hsl : ((b.info.drop s).take (e - s)).length = e - s := by simp; omega
  have hp : RangePerm b.info I s e := by
    apply RangePerm.of_take_drop hIl
    · rw [hI, List.append_assoc, List.take_append_of_le_length (by omega), List.take_of_length_le (by omega)]
    · rw [hI, List.drop_append_of_le_length (by simp; omega), List.drop_of_length_le (by simp; omega)]
      simp
    · rw [hI, List.append_assoc, List.drop_append_of_le_length (by omega), List.drop_of_length_le (by omega)]
      simp only [List.nil_append]
      rw [List.take_append_of_le_length (by simp; omega), List.take_of_length_le (by simp; omega)]
      exact List.reverse_perm _
  exact ⟨I, hr, hIl, hp, hp.cl_eq_of_uniform hu⟩

/-- one group of `reverse_groups(…, merge_clusters = true)`: merge the group, then reverse it -/
theorem mergeThenReverse (b : Buf) (s e : Nat) (hin : InPlace b) (hse : s ≤ e) (he : e ≤ b.len) (hl : b.level ≠ 2)
    (hg : Gen.Buf.extendStartGuard = 1) :
    ∃ b', (b.mergeClusters s e >>= fun b1 => b1.reverseRange s e) = .ok b' ∧ InPlace b' ∧ b'.len = b.len ∧
      b'.level = b.level ∧ KeepProps (lview b) (lview b') := by
  have hwf := hin.wf
  obtain ⟨b1, hm, hwf1, e1, e2, e3, e4, _, _, hprops, hmin, _, _, hunif, _⟩ :=
    mergeClusters_props b s e hwf (by rw [hin.idx0]; omega) he hg
  have hin1 : InPlace b1 := ⟨by rw [e1]; exact hin.idx0, by rw [e3]; exact hin.out0, hwf1.len_le⟩
  have hk1 : KeepProps (lview b) (lview b1) := ⟨hprops.subset, hprops.nonDecr, hprops.nonIncr, hmin hl⟩
  rw [hm]
  simp only [ok_bind]
  by_cases hshort : e - s < 2
  · refine ⟨b1, ?_, hin1, e2, e4, hk1⟩
    unfold reverseRange; simp [hshort]; rfl
  · obtain ⟨m, hm'⟩ := hunif hl (by omega)
    have hu : ∀ q v, s ≤ q → q < e → cl? b1.info q = some v → v = m := by
      intro q v h1 h2 hv
      have := hm' q (by rw [hin.out0, hin.idx0]; omega) (by rw [hin.out0, hin.idx0]; omega)
      rw [hin1.lview, cl?_take, if_pos (by rw [e2]; omega), hv] at this
      exact Option.some.inj this
    obtain ⟨I, hr, hIl, _, hcl⟩ := reverseRange_uniform b1 s e m hse (by have := hin1.len_le; rw [e2] at this; omega) hu
    have hin2 : InPlace { b1 with info := I } := ⟨hin1.idx0, hin1.out0, by simp; rw [hIl]; exact hin1.len_le⟩
    refine ⟨_, hr, hin2, e2, e4, hk1.trans (KeepProps.of_cl_eq ?_)⟩
    intro q
    rw [hin2.lview, hin1.lview, cl?_take, cl?_take]
    simp only
    rw [hcl q]

theorem revGroupsLoop_merge (hg : Gen.Buf.extendStartGuard = 1) : ∀ (fuel : Nat) (b : Buf) (start i : Nat),
    InPlace b → b.level ≠ 2 → start ≤ i → 1 ≤ i → i ≤ b.len →
    ∃ b' s' i', revGroupsLoop true b start i fuel = .ok (b', s', i') ∧ InPlace b' ∧ b'.len = b.len ∧
      b'.level = b.level ∧ s' ≤ i' ∧ i' ≤ b.len ∧ KeepProps (lview b) (lview b') := by
  intro fuel
  induction fuel with
  | zero =>
    intro b start i hin _ h1 _ h3
    exact ⟨b, start, i, rfl, hin, rfl, rfl, h1, h3, KeepProps.refl _⟩
  | succ fuel ih =>
    intro b start i hin hl h1 h2 h3
    by_cases hi : i < b.len
    · have hle := hin.len_le
      have hi0 : ¬ i = 0 := by omega
      have ha : i - 1 < b.info.length := by omega
      have hc : i < b.info.length := by omega
      simp only [revGroupsLoop, hi, if_true, hi0, if_false, get_ok ha, get_ok hc, ok_bind]
      by_cases hcont : isContinuation b.info[i] = true
      · simp only [hcont, Bool.not_true, Bool.false_eq_true, if_false]
        exact ih b start (i + 1) hin hl (by omega) (by omega) (by omega)
      · have : (!isContinuation b.info[i]) = true := by simpa using hcont
        simp only [this, if_true]
        obtain ⟨b1, hb1, hin1, e2, e4, hk⟩ := mergeThenReverse b start i hin h1 (by omega) hl hg
        have hb1' : (b.mergeClusters start i >>= fun b1 => b1.reverseRange start i) = .ok b1 := hb1
        cases hm : b.mergeClusters start i with
        | error err => rw [hm] at hb1'; cases hb1'
        | ok bm =>
          rw [hm] at hb1'
          simp only [ok_bind] at hb1' ⊢
          rw [hb1']
          simp only [ok_bind]
          obtain ⟨b', s', i', hr, hin', l', lv', hs', hi', hk'⟩ :=
            ih b1 i (i + 1) hin1 (by rw [e4]; exact hl) (by omega) (by omega) (by rw [e2]; omega)
          exact ⟨b', s', i', hr, hin', by rw [l', e2], by rw [lv', e4], hs', by rw [← e2]; exact hi', hk.trans hk'⟩
    · refine ⟨b, start, i, ?_, hin, rfl, rfl, h1, h3, KeepProps.refl _⟩
      simp only [revGroupsLoop, hi, if_false]; rfl

/-- **reverse_groups with merging (cluster level 1)**: whatever the groups are, a monotone cluster sequence comes out
    monotone in the opposite sense, with the same values and the same minimum -/
theorem reverseGroupsG_merge_props (b : Buf) (hin : InPlace b) (hl : b.level ≠ 2) (hg : Gen.Buf.extendStartGuard = 1) :
    ∃ b', b.reverseGroupsG true = .ok b' ∧ InPlace b' ∧ b'.len = b.len ∧
      ValuesSubset (lview b') (lview b) ∧
      (NonDecr (lview b) → NonIncr (lview b')) ∧ (NonIncr (lview b) → NonDecr (lview b')) ∧
      (∀ μ, IsMinCluster μ (lview b) → IsMinCluster μ (lview b')) := by
  unfold reverseGroupsG
  by_cases h0 : b.len = 0
  · refine ⟨b, by simp [h0]; rfl, hin, rfl, ValuesSubset.refl _, ?_, ?_, fun _ h => h⟩
    · intro _ i j a c _ ha _
      have := cl?_some_lt ha
      rw [hin.lview, h0] at this; simp at this
    · intro _ i j a c _ ha _
      have := cl?_some_lt ha
      rw [hin.lview, h0] at this; simp at this
  · have hb0 : (b.len == 0) = false := by simpa using h0
    simp only [hb0, Bool.false_eq_true, if_false]
    obtain ⟨b1, s1, i1, hr, hin1, l1, lv1, hs1, hi1, hk1⟩ :=
      revGroupsLoop_merge hg b.len b 0 1 hin hl (by omega) (by omega) (by omega)
    simp only [hr, ok_bind, if_true]
    obtain ⟨b2, hb2, hin2, l2, lv2, hk2⟩ := mergeThenReverse b1 s1 i1 hin1 hs1 (by rw [l1]; exact hi1) (by rw [lv1]; exact hl) hg
    cases hm : b1.mergeClusters s1 i1 with
    | error err => rw [hm] at hb2; cases hb2
    | ok bm =>
      rw [hm] at hb2
      simp only [ok_bind] at hb2 ⊢
      rw [hb2]
      simp only [ok_bind]
      obtain ⟨b3, hb3, hin3, l3, _, hrev⟩ := reverse_spec b2 hin2
      have hk := hk1.trans hk2
      refine ⟨b3, hb3, hin3, by rw [l3, l2, l1], ?_, ?_, ?_, ?_⟩
      · rw [hrev]; exact (valuesSubset_reverse _).trans hk.subset
      · intro h; rw [hrev]; exact nonIncr_reverse (hk.nonDecr h)
      · intro h; rw [hrev]; exact nonDecr_reverse (hk.nonIncr h)
      · intro μ h; rw [hrev]; exact isMin_reverse (hk.min μ h)


end RbModel.Buf

namespace RbModel.Buf
open RbModel.Mem

/-! ## `reverse_groups` over graphemes without merging -/

/-- every grapheme (a glyph followed by its continuation glyphs) of `A[0..n)` carries one cluster value —
    what `form_clusters` establishes at cluster level 0 -/
def GraphemesClosed (A : List Info) (n : Nat) : Prop :=
  ∀ q x y, 0 < q → q < n → A[q - 1]? = some x → A[q]? = some y → isContinuation y = true → y.cluster = x.cluster

/-- loop invariant of `reverse_groups(grapheme, merge = false)` relative to the Vec `A` it started from -/
structure RevInv (A : List Info) (b : Buf) (start i : Nat) : Prop where
  inplace : InPlace b
  ilen : b.info.length = A.length
  untouched : ∀ q, start ≤ q → b.info[q]? = A[q]?
  conts : ∀ q, start < q → q < i → ∃ y, A[q]? = some y ∧ isContinuation y = true
  clusters : ∀ q, cl? b.info q = cl? A q

theorem RevInv.uniform {A : List Info} {b : Buf} {start i : Nat} (h : RevInv A b start i) (hc : GraphemesClosed A b.len)
    (hi : i ≤ b.len) : ∀ q, start ≤ q → q < i → cl? b.info q = cl? A start := by
  have hle := h.inplace.len_le
  intro q h1 h2
  rw [h.clusters q]
  induction q with
  | zero =>
    have : start = 0 := by omega
    rw [this]
  | succ q ih =>
    by_cases hq : start = q + 1
    · rw [hq]
    · rw [← ih (by omega) (by omega)]
      obtain ⟨y, hy, hcont⟩ := h.conts (q + 1) (by omega) h2
      have hq1 : q < A.length := by rw [← h.ilen]; omega
      have := hc (q + 1) A[q] y (by omega) (by omega) (by simp [List.getElem?_eq_getElem hq1]) hy hcont
      unfold cl?
      rw [hy, List.getElem?_eq_getElem hq1]
      simp [this]

theorem RevInv.step_reverse {A : List Info} {b : Buf} {start i : Nat} (h : RevInv A b start i) (hc : GraphemesClosed A b.len)
    (hsi : start ≤ i) (hi : i ≤ b.len) :
    ∃ b', b.reverseRange start i = .ok b' ∧ b'.len = b.len ∧ RevInv A b' i (i + 1) := by
  have hle := h.inplace.len_le
  have hsl : start ≤ b.info.length := by omega
  obtain ⟨c, hcs⟩ : ∃ c : Nat, ∀ q v, start ≤ q → q < i → cl? b.info q = some v → v = c := by
    by_cases hlt : start < b.info.length
    · refine ⟨b.info[start].cluster, fun q v h1 h2 hv => ?_⟩
      rw [h.uniform hc hi q h1 h2, ← h.clusters start, cl?_lt hlt] at hv
      exact (Option.some.inj hv).symm
    · refine ⟨0, fun q v h1 h2 hv => ?_⟩
      have := cl?_some_lt hv; omega
  obtain ⟨I, hr, hIl, hp, hcl⟩ := reverseRange_uniform b start i c hsi (by omega) hcs
  refine ⟨_, hr, rfl, ⟨⟨h.inplace.idx0, h.inplace.out0, by simp; rw [hIl]; exact hle⟩, by simp; rw [hIl]; exact h.ilen, ?_, ?_, ?_⟩⟩
  · intro q hq
    simp only
    rw [hp.outside q (Or.inr hq)]
    exact h.untouched q (by omega)
  · intro q h1 h2; omega
  · intro q; simp only; rw [hcl q]; exact h.clusters q

theorem revGroupsLoop_nomerge (A : List Info) : ∀ (fuel : Nat) (b : Buf) (start i : Nat),
    RevInv A b start i → GraphemesClosed A b.len → start ≤ i → 1 ≤ i → i ≤ b.len →
    ∃ b' s' i', revGroupsLoop false b start i fuel = .ok (b', s', i') ∧ b'.len = b.len ∧ s' ≤ i' ∧ i' ≤ b.len ∧
      RevInv A b' s' i' := by
  intro fuel
  induction fuel with
  | zero =>
    intro b start i h _ h1 _ h3
    exact ⟨b, start, i, rfl, rfl, h1, h3, h⟩
  | succ fuel ih =>
    intro b start i h hc h1 h2 h3
    by_cases hi : i < b.len
    · have hle := h.inplace.len_le
      have hi0 : ¬ i = 0 := by omega
      have ha : i - 1 < b.info.length := by omega
      have hci : i < b.info.length := by omega
      simp only [revGroupsLoop, hi, if_true, hi0, if_false, get_ok ha, get_ok hci, ok_bind]
      by_cases hcont : isContinuation b.info[i] = true
      · simp only [hcont, Bool.not_true, Bool.false_eq_true, if_false]
        refine ih b start (i + 1) ⟨h.inplace, h.ilen, h.untouched, ?_, h.clusters⟩ hc (by omega) (by omega) (by omega)
        intro q q1 q2
        by_cases hq : q = i
        · subst hq
          refine ⟨b.info[q], ?_, hcont⟩
          rw [← h.untouched q h1]; exact List.getElem?_eq_getElem hci
        · exact h.conts q q1 (by omega)
      · have : (!isContinuation b.info[i]) = true := by simpa using hcont
        simp only [this, if_true, Bool.false_eq_true, if_false, pure_bind']
        obtain ⟨b1, hr, l1, hinv1⟩ := h.step_reverse hc h1 (by omega)
        rw [hr]
        simp only [ok_bind]
        obtain ⟨b', s', i', hr', l', hs', hi', hinv'⟩ := ih b1 i (i + 1) hinv1 (by rw [l1]; exact hc) (by omega) (by omega) (by rw [l1]; omega)
        exact ⟨b', s', i', hr', by rw [l', l1], hs', by rw [← l1]; exact hi', hinv'⟩
    · refine ⟨b, start, i, ?_, rfl, h1, h3, h⟩
      simp only [revGroupsLoop, hi, if_false]; rfl

/-- **reverse_groups over graphemes without merging (cluster level 0)**: when every grapheme carries one cluster
    value, the cluster sequence comes out exactly reversed -/
theorem reverseGroupsG_nomerge_props (b : Buf) (hin : InPlace b) (hc : GraphemesClosed b.info b.len) :
    ∃ b', b.reverseGroupsG false = .ok b' ∧ InPlace b' ∧ b'.len = b.len ∧
      (lview b').map (·.cluster) = ((lview b).map (·.cluster)).reverse := by
  unfold reverseGroupsG
  by_cases h0 : b.len = 0
  · refine ⟨b, by simp [h0]; rfl, hin, rfl, ?_⟩
    rw [hin.lview, h0]; rfl
  · have hb0 : (b.len == 0) = false := by simpa using h0
    simp only [hb0, Bool.false_eq_true, if_false]
    have hinv0 : RevInv b.info b 0 1 := ⟨hin, rfl, fun _ _ => rfl, fun q a c => by omega, fun _ => rfl⟩
    obtain ⟨b1, s1, i1, hr, l1, hs1, hi1, hinv1⟩ := revGroupsLoop_nomerge b.info b.len b 0 1 hinv0 hc (by omega) (by omega) (by omega)
    simp only [hr, ok_bind, Bool.false_eq_true, if_false, pure_bind']
    obtain ⟨b2, hr2, l2, hinv2⟩ := hinv1.step_reverse (by rw [l1]; exact hc) hs1 (by rw [l1]; exact hi1)
    rw [hr2]
    simp only [ok_bind]
    obtain ⟨b3, hb3, hin3, l3, _, hrev⟩ := reverse_spec b2 hinv2.inplace
    refine ⟨b3, hb3, hin3, by rw [l3, l2, l1], ?_⟩
    rw [hrev, List.map_reverse]
    congr 1
    apply List.ext_getElem?
    intro q
    have := hinv2.clusters q
    rw [List.getElem?_map, List.getElem?_map, hinv2.inplace.lview, hin.lview, l2, l1]
    have h1 := cl?_take b2.info b.len q
    have h2 := cl?_take b.info b.len q
    unfold cl? at h1 h2 this
    rw [h1, h2, this]


end RbModel.Buf

namespace RbModel.Buf
open RbModel.Mem

/-! ## `sort` (insertion sort that merges clusters over every move) -/

theorem sort_findJ_spec (l : List Info) (xi : Info) (start : Nat) : ∀ (i : Nat), i ≤ l.length →
    ∃ j, sort.findJ l xi start i = .ok j ∧ j ≤ i ∧ (start ≤ i → start ≤ j) := by
  intro i
  induction i with
  | zero => intro _; exact ⟨0, rfl, Nat.le_refl _, fun h => h⟩
  | succ i ih =>
    intro h
    have hi : i < l.length := by omega
    by_cases hgt : i + 1 > start
    · simp only [sort.findJ, hgt, if_true, get_ok hi, ok_bind]
      split
      · obtain ⟨j, hj, h1, h2⟩ := ih (by omega)
        exact ⟨j, hj, by omega, fun _ => h2 (by omega)⟩
      · exact ⟨i + 1, rfl, Nat.le_refl _, fun h => h⟩
    · simp only [sort.findJ, hgt, if_false]
      exact ⟨i + 1, rfl, Nat.le_refl _, fun h => h⟩

theorem sort_shift_spec (j : Nat) : ∀ (k : Nat) (l : List Info), j + k + 1 ≤ l.length →
    ∃ r, sort.shift l j k = .ok r ∧ r.length = l.length ∧
      ∀ q, r[q]? = if j < q ∧ q ≤ j + k then l[q - 1]? else l[q]? := by
  intro k
  induction k with
  | zero =>
    intro l _
    refine ⟨l, rfl, rfl, fun q => ?_⟩
    rw [if_neg (by omega)]
  | succ k ih =>
    intro l h
    have h1 : k + j < l.length := by omega
    have h2 : k + j + 1 < l.length := by omega
    obtain ⟨r, hr, hlen, hq⟩ := ih (l.set (k + j + 1) l[k + j]) (by simp; omega)
    refine ⟨r, ?_, by simpa using hlen, fun q => ?_⟩
    · simp only [sort.shift, get_ok h1, ok_bind, put_ok _ h2]; exact hr
    · rw [hq q]
      by_cases hq1 : q = k + j + 1
      · subst hq1
        rw [if_neg (by omega), if_pos (by omega), List.getElem?_set_self h2]
        have : k + j + 1 - 1 = k + j := by omega
        rw [this, List.getElem?_eq_getElem h1]
      · by_cases hq2 : j < q ∧ q ≤ j + k
        · rw [if_pos hq2, if_pos (by omega), List.getElem?_set_ne (by omega)]
        · rw [if_neg hq2, if_neg (by omega), List.getElem?_set_ne (by omega)]

/-- one move of the insertion sort: merge `[j, i+1)`, then rotate the record at `i` down to `j` -/
theorem sort_move (b : Buf) (j i : Nat) (hin : InPlace b) (hji : j < i) (hi : i < b.len) (hg : Gen.Buf.extendStartGuard = 1) :
    ∃ b', (do let b1 ← b.mergeClusters j (i + 1)
              let t ← get b1.info i
              let info ← sort.shift b1.info j (i - j)
              let info ← put info j t
              pure ({ b1 with info := info } : Buf)) = .ok b' ∧
      InPlace b' ∧ b'.len = b.len ∧ b'.level = b.level ∧
      ValuesSubset (lview b') (lview b) ∧ (b.level ≠ 2 → KeepProps (lview b) (lview b')) := by
  have hwf := hin.wf
  obtain ⟨b1, hm, hwf1, e1, e2, e3, e4, _, _, hprops, hmin, _, _, hunif, _⟩ :=
    mergeClusters_props b j (i + 1) hwf (by rw [hin.idx0]; omega) (by omega) hg
  have hin1 : InPlace b1 := ⟨by rw [e1]; exact hin.idx0, by rw [e3]; exact hin.out0, hwf1.len_le⟩
  have hle1 := hin1.len_le
  have hil : i < b1.info.length := by omega
  obtain ⟨r, hr, hrl, hrq⟩ := sort_shift_spec j (i - j) b1.info (by omega)
  have hjl : j < r.length := by omega
  have hq3 : ∀ q, (r.set j b1.info[i])[q]? = b1.info[if q = j then i else if j < q ∧ q ≤ i then q - 1 else q]? := by
    intro q
    by_cases h1 : q = j
    · subst h1; rw [if_pos rfl, List.getElem?_set_self hjl, List.getElem?_eq_getElem hil]
    · rw [if_neg h1, List.getElem?_set_ne (by omega), hrq q]
      have : j + (i - j) = i := by omega
      rw [this]
      split <;> rfl
  have hin3 : InPlace ({ b1 with info := r.set j b1.info[i] } : Buf) := ⟨hin1.idx0, hin1.out0, by simp; omega⟩
  refine ⟨{ b1 with info := r.set j b1.info[i] }, ?_, hin3, e2, e4, ?_, ?_⟩
  · rw [hm]; simp only [ok_bind, get_ok hil, hr, put_ok _ hjl]; rfl
  · refine ValuesSubset.trans ?_ hprops.subset
    intro q v hv
    rw [hin3.lview, cl?_take] at hv
    simp only at hv
    by_cases hq : q < b1.len
    · rw [if_pos hq] at hv
      unfold cl? at hv
      rw [hq3 q] at hv
      refine ⟨if q = j then i else if j < q ∧ q ≤ i then q - 1 else q, ?_⟩
      rw [hin1.lview, cl?_take, if_pos]
      · exact hv
      · split
        · omega
        · split <;> omega
    · rw [if_neg hq] at hv; cases hv
  · intro hl
    have hk1 : KeepProps (lview b) (lview b1) := ⟨hprops.subset, hprops.nonDecr, hprops.nonIncr, hmin hl⟩
    refine hk1.trans (KeepProps.of_cl_eq ?_)
    obtain ⟨m, hm'⟩ := hunif hl (by omega)
    have hu : ∀ q, j ≤ q → q ≤ i → cl? b1.info q = some m := by
      intro q h1 h2
      have := hm' q (by rw [hin.out0, hin.idx0]; omega) (by rw [hin.out0, hin.idx0]; omega)
      rwa [hin1.lview, cl?_take, if_pos (by omega)] at this
    intro q
    rw [hin3.lview, hin1.lview, cl?_take, cl?_take]
    simp only
    by_cases hq : q < b1.len
    · rw [if_pos hq, if_pos hq]
      have : cl? (r.set j b1.info[i]) q = cl? b1.info (if q = j then i else if j < q ∧ q ≤ i then q - 1 else q) := by
        unfold cl?; rw [hq3 q]
      rw [this]
      by_cases h1 : q = j
      · rw [if_pos h1, hu i (by omega) (Nat.le_refl _), h1, hu j (Nat.le_refl _) (by omega)]
      · rw [if_neg h1]
        by_cases h2 : j < q ∧ q ≤ i
        · rw [if_pos h2, hu (q - 1) (by omega) (by omega), hu q (by omega) h2.2]
        · rw [if_neg h2]
    · rw [if_neg hq, if_neg hq]

theorem sort_outer_props (start stop : Nat) (hg : Gen.Buf.extendStartGuard = 1) : ∀ (fuel : Nat) (b : Buf) (i : Nat),
    InPlace b → stop ≤ b.len →
    ∃ b', sort.outer start stop b i fuel = .ok b' ∧ InPlace b' ∧ b'.len = b.len ∧ b'.level = b.level ∧
      ValuesSubset (lview b') (lview b) ∧ (b.level ≠ 2 → KeepProps (lview b) (lview b')) := by
  intro fuel
  induction fuel with
  | zero => intro b i hin _; exact ⟨b, rfl, hin, rfl, rfl, ValuesSubset.refl _, fun _ => KeepProps.refl _⟩
  | succ fuel ih =>
    intro b i hin hstop
    by_cases hi : i < stop
    · have hle := hin.len_le
      have hil : i < b.info.length := by omega
      obtain ⟨j, hj, hji, _⟩ := sort_findJ_spec b.info b.info[i] start i (by omega)
      simp only [sort.outer, hi, if_true, get_ok hil, ok_bind, hj]
      by_cases hij : i = j
      · have : (i == j) = true := by simp [hij]
        simp only [this, if_true]
        exact ih b (i + 1) hin hstop
      · have : (i == j) = false := by simpa using hij
        simp only [this, Bool.false_eq_true, if_false]
        obtain ⟨b1, hb1, hin1, l1, lv1, hs1, hk1⟩ := sort_move b j i hin (by omega) (by omega) hg
        cases hm : b.mergeClusters j (i + 1) with
        | error err => rw [hm] at hb1; cases hb1
        | ok bm =>
          rw [hm] at hb1
          simp only [ok_bind] at hb1 ⊢
          cases ht : get bm.info i with
          | error err => rw [ht] at hb1; cases hb1
          | ok t =>
            rw [ht] at hb1
            simp only [ok_bind] at hb1 ⊢
            cases hsh : sort.shift bm.info j (i - j) with
            | error err => rw [hsh] at hb1; cases hb1
            | ok inf =>
              rw [hsh] at hb1
              simp only [ok_bind] at hb1 ⊢
              cases hp : put inf j t with
              | error err => rw [hp] at hb1; cases hb1
              | ok inf2 =>
                rw [hp] at hb1
                simp only [ok_bind] at hb1 ⊢
                cases hb1
                obtain ⟨b', hb', hin', l', lv', hs', hk'⟩ := ih _ (i + 1) hin1 (by rw [l1]; exact hstop)
                exact ⟨b', hb', hin', by rw [l', l1], by rw [lv', lv1], hs'.trans hs1,
                  fun hl => (hk1 hl).trans (hk' (by rw [lv1]; exact hl))⟩
    · refine ⟨b, ?_, hin, rfl, rfl, ValuesSubset.refl _, fun _ => KeepProps.refl _⟩
      simp only [sort.outer, hi, if_false]; rfl

/-- **sort(start, end)**: a monotone cluster sequence stays monotone (levels 0/1); no cluster value is invented -/
theorem sort_props (b : Buf) (start stop : Nat) (hin : InPlace b) (hstop : stop ≤ b.len) (hp : b.havePos = false)
    (hg : Gen.Buf.extendStartGuard = 1) :
    ∃ b', b.sort start stop = .ok b' ∧ InPlace b' ∧ b'.len = b.len ∧
      ValuesSubset (lview b') (lview b) ∧ (b.level ≠ 2 → KeepProps (lview b) (lview b')) := by
  obtain ⟨b', h, hin', l', _, hs, hk⟩ := sort_outer_props start stop hg (stop - start) b (start + 1) hin hstop
  refine ⟨b', ?_, hin', l', hs, hk⟩
  unfold sort
  simp only [hp, Bool.false_eq_true, if_false]
  exact h


end RbModel.Buf

namespace RbModel.Buf
open RbModel.Mem

/-! ## `replace_glyphs` -/

/-- the loop `for i in 0..num_out { set_out_info(out_len + i, orig with glyph_id = glyphs[i]) }` on the array the
    out-buffer lives in -/
theorem replaceLoop_spec (orig : Info) : ∀ (gs : List Nat) (b : Buf) (i : Nat), b.outLen + i + gs.length ≤ b.outArr.length →
    ∃ o, replaceGlyphs.loop orig b i gs = .ok (b.setOutArr o) ∧ o.length = b.outArr.length ∧
      ∀ q, o[q]? = if b.outLen + i ≤ q ∧ q < b.outLen + i + gs.length
                   then (gs[q - (b.outLen + i)]?).map (fun g => { orig with gid := g }) else b.outArr[q]? := by
  intro gs
  induction gs with
  | nil =>
    intro b i _
    refine ⟨b.outArr, ?_, rfl, fun q => ?_⟩
    · simp only [replaceGlyphs.loop]; rw [setOutArr_self]; rfl
    · rw [if_neg (by simp)]
  | cons g rest ih =>
    intro b i h
    simp only [List.length_cons] at h
    have hi : b.outLen + i < b.outArr.length := by omega
    have e0 := setOutArr_scalars b (b.outArr.set (b.outLen + i) { orig with gid := g })
    have e1 : (b.setOutArr (b.outArr.set (b.outLen + i) { orig with gid := g })).outArr =
        b.outArr.set (b.outLen + i) { orig with gid := g } := setOutArr_outArr _ _
    obtain ⟨o, ho, hol, hoq⟩ := ih (b.setOutArr (b.outArr.set (b.outLen + i) { orig with gid := g })) (i + 1)
      (by rw [e1, e0.2.2.1]; simp; omega)
    refine ⟨o, ?_, by rw [hol, e1]; simp, fun q => ?_⟩
    · simp only [replaceGlyphs.loop, setOut, put_ok _ hi, ok_bind, pure_bind']
      rw [ho]
      congr 1
      cases hs : b.sepOut <;> simp [setOutArr, hs]
    · rw [hoq q, e0.2.2.1, e1]
      by_cases h1 : q = b.outLen + i
      · subst h1
        rw [if_neg (by omega), if_pos (by simp), List.getElem?_set_self hi]
        simp
      · rw [List.getElem?_set_ne (by omega)]
        by_cases h2 : b.outLen + (i + 1) ≤ q ∧ q < b.outLen + (i + 1) + rest.length
        · rw [if_pos h2, if_pos (by simp; omega)]
          have : q - (b.outLen + i) = (q - (b.outLen + (i + 1))) + 1 := by omega
          rw [this, List.getElem?_cons_succ]
        · rw [if_neg h2, if_neg (by simp; omega)]

/-- the cluster sequence after `num_in` glyphs at `P` were replaced by `num_out` glyphs carrying cluster `c` -/
def IsSplice (L L' : List Info) (P numIn numOut c : Nat) : Prop :=
  ∀ q, cl? L' q = if q < P then cl? L q else if q < P + numOut then some c else cl? L (q - numOut + numIn)

theorem IsSplice.props {L L' : List Info} {P numIn numOut c : Nat} (h : IsSplice L L' P numIn numOut c)
    (hc : cl? L P = some c) (hn : 1 ≤ numIn) :
    ValuesSubset L' L ∧ (NonDecr L → NonDecr L') ∧ (NonIncr L → NonIncr L') := by
  -- every position of L' reads the cluster of a position of L, and that map is monotone
  have hf : ∀ q, cl? L' q = cl? L (if q < P then q else if q < P + numOut then P else q - numOut + numIn) := by
    intro q
    rw [h q]
    by_cases h1 : q < P
    · rw [if_pos h1, if_pos h1]
    · rw [if_neg h1, if_neg h1]
      by_cases h2 : q < P + numOut
      · rw [if_pos h2, if_pos h2, hc]
      · rw [if_neg h2, if_neg h2]
  have hmono : ∀ i j, i ≤ j →
      (if i < P then i else if i < P + numOut then P else i - numOut + numIn) ≤
      (if j < P then j else if j < P + numOut then P else j - numOut + numIn) := by
    intro i j hij
    by_cases a1 : i < P <;> by_cases a2 : j < P <;> by_cases a3 : i < P + numOut <;> by_cases a4 : j < P + numOut <;>
      simp only [a1, a2, a3, a4, if_true, if_false] <;> omega
  refine ⟨fun q v hv => ⟨_, by rw [← hf q]; exact hv⟩, ?_, ?_⟩
  · intro hm i j a b hij ha hb
    rw [hf i] at ha; rw [hf j] at hb
    exact hm _ _ a b (hmono i j hij) ha hb
  · intro hm i j a b hij ha hb
    rw [hf i] at ha; rw [hf j] at hb
    exact hm _ _ a b (hmono i j hij) ha hb

theorem IsSplice.min {L L' : List Info} {P numIn numOut c μ : Nat} (h : IsSplice L L' P numIn numOut c)
    (hc : cl? L P = some c) (hn : 1 ≤ numIn) (ho : 1 ≤ numOut)
    (hu : ∀ q v, P ≤ q → q < P + numIn → cl? L q = some v → v = c) (hmin : IsMinCluster μ L) : IsMinCluster μ L' := by
  obtain ⟨hlow, q0, hq0⟩ := hmin
  obtain ⟨hsub, _, _⟩ := h.props hc hn
  refine ⟨fun q v hv => ?_, ?_⟩
  · obtain ⟨p, hp⟩ := hsub q v hv
    exact hlow p v hp
  · by_cases h1 : q0 < P
    · exact ⟨q0, by rw [h q0, if_pos h1]; exact hq0⟩
    · by_cases h2 : q0 < P + numIn
      · have := hu q0 μ (by omega) h2 hq0
        exact ⟨P, by rw [h P, if_neg (by omega), if_pos (by omega), this]⟩
      · refine ⟨q0 - numIn + numOut, ?_⟩
        rw [h _, if_neg (by omega), if_neg (by omega)]
        have : q0 - numIn + numOut - numOut + numIn = q0 := by omega
        rw [this]; exact hq0


end RbModel.Buf

namespace RbModel.Buf
open RbModel.Mem

/-- **replace_glyphs(num_in, glyphs)**: the clusters of the `num_in` current glyphs are merged and every output glyph
    carries the merged cluster -/
theorem replaceGlyphs_props (b : Buf) (numIn : Nat) (gs : List Nat) (hinv : Inv b) (hn1 : 1 ≤ numIn)
    (hn : b.idx + numIn ≤ b.len) (hgrow : Gen.Buf.ensureGrowOnly = true) (hg : Gen.Buf.extendStartGuard = 1) :
    ∃ b', b.replaceGlyphs numIn gs = .ok b' ∧
      (b' = { b with successful := false } ∨
       (WF b' ∧ b'.idx = b.idx + numIn ∧ b'.outLen = b.outLen + gs.length ∧ b'.len = b.len ∧ b'.level = b.level ∧
        b'.haveOutput = b.haveOutput ∧ b'.successful = b.successful ∧
        ValuesSubset (lview b') (lview b) ∧
        (NonDecr (lview b) → NonDecr (lview b')) ∧ (NonIncr (lview b) → NonIncr (lview b')) ∧
        (b.level ≠ 2 → gs ≠ [] → ∀ μ, IsMinCluster μ (lview b) → IsMinCluster μ (lview b')))) := by
  have hwf := WF.of_inv hinv
  have hidx := hinv.idx_le
  have hlen := hinv.len_le
  unfold replaceGlyphs
  rcases makeRoomFor_spec b numIn gs.length hinv hgrow with hfail | ⟨I, O, s, hok, hinv1, hcap, hs1, hs2, hout1, hinf1, hle1⟩
  · simp only [hfail, ok_bind, Bool.not_false, if_true]
    exact ⟨_, rfl, Or.inl rfl⟩
  · have hlv1 : lview ({ b with info := I, out := O, sepOut := s } : Buf) = lview b := by
      apply lview_eq_of_seq hwf (WF.of_inv hinv1)
      exact seq_congr b { b with info := I, out := O, sepOut := s } rfl rfl rfl hlen hout1 hinf1
    generalize hb1 : ({ b with info := I, out := O, sepOut := s } : Buf) = b1 at hok hinv1 hcap hout1 hlv1
    have e_idx : b1.idx = b.idx := by rw [← hb1]
    have e_len : b1.len = b.len := by rw [← hb1]
    have e_out : b1.outLen = b.outLen := by rw [← hb1]
    have e_lvl : b1.level = b.level := by rw [← hb1]
    have e_ho : b1.haveOutput = b.haveOutput := by rw [← hb1]
    have e_su : b1.successful = b.successful := by rw [← hb1]
    have e_sep : b1.sepOut = s := by rw [← hb1]
    have e_info : b1.info = I := by rw [← hb1]
    have hwf1 := WF.of_inv hinv1
    simp only [hok, ok_bind, Bool.not_true, Bool.false_eq_true, if_false]
    have hna : ¬ b1.idx + numIn > b1.len := by rw [e_idx, e_len]; omega
    simp only [hna, if_false]
    obtain ⟨b2, hm, hwf2, f_idx, f_len, f_out, f_lvl, f_sep, f_ho, hprops, hmin, _, _, hunif, f_il, f_ol, f_su⟩ :=
      mergeClusters_props b1 b1.idx (b1.idx + numIn) hwf1 (Nat.le_refl _) (by rw [e_idx, e_len]; omega) hg
    simp only [hm, ok_bind]
    have hil2 : b2.idx < b2.info.length := by have := hwf2.len_le; rw [f_idx, e_idx]; rw [f_len, e_len] at this; omega
    obtain ⟨orig, horig⟩ : ∃ orig, b2.info[b2.idx] = orig := ⟨_, rfl⟩
    have hc0 : cl? b2.info b2.idx = some orig.cluster := by rw [cl?_lt hil2, horig]
    simp only [get_ok hil2, ok_bind, horig]
    have hcap2 : b2.outLen + 0 + gs.length ≤ b2.outArr.length := by
      have : b2.outArr.length = b1.outArr.length := by
        unfold outArr; rw [f_sep]; cases b1.sepOut <;> simp [f_il, f_ol]
      rw [this, f_out, e_out]; omega
    obtain ⟨o, hloop, hol, hoq⟩ := replaceLoop_spec orig gs b2 0 hcap2
    simp only [hloop, ok_bind]
    obtain ⟨g1, g2, g3, g4, g5, g6⟩ := setOutArr_scalars b2 o
    -- the final buffer
    generalize hb' : ({ b2.setOutArr o with idx := (b2.setOutArr o).idx + numIn, outLen := (b2.setOutArr o).outLen + gs.length } : Buf) = b'
    have k_idx : b'.idx = b.idx + numIn := by rw [← hb']; simp only; rw [g1, f_idx, e_idx]
    have k_out : b'.outLen = b.outLen + gs.length := by rw [← hb']; simp only; rw [g3, f_out, e_out]
    have k_len : b'.len = b.len := by rw [← hb']; simp only; rw [g2, f_len, e_len]
    have k_lvl : b'.level = b.level := by rw [← hb']; simp only; rw [g4, f_lvl, e_lvl]
    have k_ho : b'.haveOutput = b.haveOutput := by rw [← hb']; simp only; rw [g6, f_ho, e_ho]
    have k_su : b'.successful = b.successful := by
      rw [← hb']; simp only
      have : (b2.setOutArr o).successful = b2.successful := by cases hs : b2.sepOut <;> simp [setOutArr, hs]
      rw [this, f_su, e_su]
    have k_sep : b'.sepOut = b2.sepOut := by rw [← hb']; simp only; rw [g5]
    have k_outArr : b'.outArr = o := by
      rw [← hb']; unfold outArr; simp only
      cases hs : b2.sepOut <;> simp [setOutArr, hs]
    have k_info_sep : b2.sepOut = true → b'.info = b2.info := by
      intro hs; rw [← hb']; simp only; exact setOutArr_info_sep b2 o hs
    have k_info_nosep : b2.sepOut = false → b'.info = o := by
      intro hs; rw [← hb']; simp only; exact setOutArr_info_nosep b2 o hs
    have hsep2 : b2.sepOut = s := by rw [f_sep, e_sep]
    have hol' : o.length = b2.outArr.length := hol
    have hwf' : WF b' := by
      refine ⟨by omega, ?_, ?_, ?_⟩
      · rw [k_len]
        cases hs : b2.sepOut with
        | true => rw [k_info_sep hs]; have := hwf2.len_le; rw [f_len, e_len] at this; exact this
        | false =>
          rw [k_info_nosep hs, hol']; have := hwf2.len_le; rw [f_len, e_len] at this
          simpa [outArr, hs] using this
      · intro hs
        rw [k_sep] at hs
        have : b'.out = o := by rw [← k_outArr]; simp [outArr, k_sep, hs]
        rw [this, hol', k_out]
        have := hcap2; rw [f_out, e_out] at this; omega
      · intro hs
        rw [k_sep] at hs
        rw [k_out, k_idx]
        exact hs1 (by rw [← hsep2]; exact hs)
    -- the logical sequence of the result
    have hseq' : ∀ q, seq b' q = if q < b.outLen then seq b2 q
        else if q < b.outLen + gs.length then (gs[q - b.outLen]?).map (fun g => { orig with gid := g })
        else seq b2 (q - gs.length + numIn) := by
      intro q
      unfold seq
      rw [k_out, k_idx, k_len, k_outArr, f_out, e_out, f_idx, e_idx, f_len, e_len]
      by_cases h1 : q < b.outLen
      · rw [if_pos (by omega), if_pos h1, if_pos h1, hoq q, if_neg (by rw [f_out, e_out]; omega)]
      · rw [if_neg h1]
        by_cases h2 : q < b.outLen + gs.length
        · rw [if_pos h2, if_pos h2, hoq q, if_pos (by rw [f_out, e_out]; omega), f_out, e_out]
          simp
        · have e1 : ¬ q - gs.length + numIn < b.outLen := by omega
          rw [if_neg h2, if_neg h2, if_neg e1]
          by_cases h3 : q - (b.outLen + gs.length) < b.len - (b.idx + numIn)
          · have e2 : q - gs.length + numIn - b.outLen < b.len - b.idx := by omega
            rw [if_pos h3, if_pos e2]
            have hix : b.idx + (q - gs.length + numIn - b.outLen) = b.idx + numIn + (q - (b.outLen + gs.length)) := by omega
            rw [hix]
            cases hs : b2.sepOut with
            | true => rw [k_info_sep hs]
            | false =>
              have hns := hs1 (by rw [← hsep2]; exact hs)
              have e3 : ¬ (b2.outLen + 0 ≤ b.idx + numIn + (q - (b.outLen + gs.length)) ∧
                  b.idx + numIn + (q - (b.outLen + gs.length)) < b2.outLen + 0 + gs.length) := by
                rw [f_out, e_out]; omega
              rw [k_info_nosep hs, hoq _, if_neg e3]
              simp [outArr, hs]
          · have e2 : ¬ q - gs.length + numIn - b.outLen < b.len - b.idx := by omega
            rw [if_neg h3, if_neg e2]
    -- clusters
    have hP : b.outLen < (lview b2).length := by
      rw [lview_length b2 hwf2]; unfold total; rw [f_out, e_out, f_len, e_len, f_idx, e_idx]; omega
    have hc : cl? (lview b2) b.outLen = some orig.cluster := by
      rw [lview_cl_in b2 hwf2 _ (by rw [f_out, e_out]; exact Nat.le_refl _) (by unfold total; rw [f_out, e_out, f_len, e_len, f_idx, e_idx]; omega),
        f_out, e_out, Nat.sub_self, Nat.add_zero, hc0]
    have hsplice : IsSplice (lview b2) (lview b') b.outLen numIn gs.length orig.cluster := by
      intro q
      unfold cl?
      rw [lview_getElem? _ hwf', hseq' q]
      by_cases h1 : q < b.outLen
      · rw [if_pos h1, if_pos h1, lview_getElem? _ hwf2]
      · rw [if_neg h1, if_neg h1]
        by_cases h2 : q < b.outLen + gs.length
        · rw [if_pos h2, if_pos h2]
          have : q - b.outLen < gs.length := by omega
          rw [List.getElem?_eq_getElem this]; rfl
        · rw [if_neg h2, if_neg h2, lview_getElem? _ hwf2]
    obtain ⟨p1, p2, p3⟩ := hsplice.props hc hn1
    refine ⟨b', rfl, Or.inr ⟨hwf', k_idx, k_out, k_len, k_lvl, k_ho, k_su, ?_, ?_, ?_, ?_⟩⟩
    · rw [← hlv1]; exact p1.trans hprops.subset
    · intro h; rw [← hlv1] at h; exact p2 (hprops.nonDecr h)
    · intro h; rw [← hlv1] at h; exact p3 (hprops.nonIncr h)
    · intro hl hgs μ hμ
      rw [← hlv1] at hμ
      have hl1 : b1.level ≠ 2 := by rw [e_lvl]; exact hl
      have ho1 : 1 ≤ gs.length := by cases gs with | nil => exact absurd rfl hgs | cons _ _ => simp
      apply hsplice.min hc hn1 ho1 _ (hmin hl1 μ hμ)
      intro q v h1 h2 hv
      by_cases hone : numIn = 1
      · have : q = b.outLen := by omega
        rw [this, hc] at hv; exact (Option.some.inj hv).symm
      · obtain ⟨m, hm'⟩ := hunif hl1 (by omega)
        have a1 := hm' q (by rw [e_out, Nat.sub_self]; omega) (by rw [e_out]; omega)
        have a2 := hm' b.outLen (by rw [e_out, Nat.sub_self]; omega) (by rw [e_out]; omega)
        rw [hv] at a1; rw [hc] at a2
        have := Option.some.inj a1; have := Option.some.inj a2; omega


end RbModel.Buf

namespace RbModel.Buf
open RbModel.Mem

/-! ## `form_clusters` -/

theorem graphemeEndLoop_spec (l : List Info) (len : Nat) (hlen : len ≤ l.length) : ∀ (fuel i : Nat), 1 ≤ i →
    ∃ r, graphemeEndLoop l len i fuel = .ok r ∧ i ≤ r ∧ (i ≤ len → r ≤ len) := by
  intro fuel
  induction fuel with
  | zero => intro i _; exact ⟨i, rfl, Nat.le_refl _, fun h => h⟩
  | succ fuel ih =>
    intro i hi
    by_cases hlt : i < len
    · have h0 : ¬ i = 0 := by omega
      have ha : i - 1 < l.length := by omega
      have hc : i < l.length := by omega
      simp only [graphemeEndLoop, hlt, if_true, h0, if_false, get_ok ha, get_ok hc, ok_bind]
      split
      · obtain ⟨r, hr, h1, h2⟩ := ih (i + 1) (by omega)
        exact ⟨r, hr, by omega, fun _ => h2 (by omega)⟩
      · exact ⟨i, rfl, Nat.le_refl _, fun h => h⟩
    · simp only [graphemeEndLoop, hlt, if_false]
      exact ⟨i, rfl, Nat.le_refl _, fun h => h⟩

theorem graphemeEnd_spec (b : Buf) (start : Nat) (hlen : b.len ≤ b.info.length) :
    ∃ r, b.graphemeEnd start = .ok r ∧ start < r ∧ (start < b.len → r ≤ b.len) := by
  obtain ⟨r, hr, h1, h2⟩ := graphemeEndLoop_spec b.info b.len hlen (b.len - start) (start + 1) (by omega)
  exact ⟨r, hr, by omega, fun h => h2 (by omega)⟩

/-- what one body of the `foreach_grapheme` loop of form_clusters does to the cluster sequence -/
theorem formBody_props (b : Buf) (merge : Bool) (s e : Nat) (hin : InPlace b) (hse : s ≤ e) (he : e ≤ b.len)
    (hlvl : merge = true → b.level ≠ 2) (hg : Gen.Buf.extendStartGuard = 1) :
    ∃ b', (if merge then b.mergeClusters s e else b.unsafeToBreak s (some e)) = .ok b' ∧ InPlace b' ∧ b'.len = b.len ∧
      b'.level = b.level ∧ KeepProps (lview b) (lview b') := by
  cases merge with
  | true =>
    obtain ⟨b1, hm, hwf1, e1, e2, e3, e4, _, _, hprops, hmin, _⟩ :=
      mergeClusters_props b s e hin.wf (by rw [hin.idx0]; omega) he hg
    exact ⟨b1, by simpa using hm, ⟨by rw [e1]; exact hin.idx0, by rw [e3]; exact hin.out0, hwf1.len_le⟩, e2, e4,
      ⟨hprops.subset, hprops.nonDecr, hprops.nonIncr, hmin (hlvl rfl)⟩⟩
  | false =>
    obtain ⟨b1, hb, hf⟩ := unsafeToBreak_ok b s e hin.wf hse he
    have h1 := hf.1
    have hwf1 := hf.wf hin.wf
    refine ⟨b1, by simpa using hb, ⟨by rw [h1]; exact hin.idx0, by rw [h1]; exact hin.out0, hwf1.len_le⟩, by rw [h1], by rw [h1],
      KeepProps.of_cl_eq hf.cl⟩

theorem formLoop_props (merge : Bool) (count : Nat) (hg : Gen.Buf.extendStartGuard = 1) : ∀ (fuel : Nat) (b : Buf) (s e : Nat),
    InPlace b → b.len = count → s < e → (s < count → e ≤ count) → (merge = true → b.level ≠ 2) →
    ∃ b', formLoop merge count b s e fuel = .ok b' ∧ InPlace b' ∧ b'.len = b.len ∧ b'.level = b.level ∧
      KeepProps (lview b) (lview b') := by
  intro fuel
  induction fuel with
  | zero => intro b s e hin _ _ _ _; exact ⟨b, rfl, hin, rfl, rfl, KeepProps.refl _⟩
  | succ fuel ih =>
    intro b s e hin hc hse he hl
    by_cases hs : s < count
    · obtain ⟨b1, hb1, hin1, l1, lv1, hk1⟩ := formBody_props b merge s e hin (by omega) (by rw [hc]; exact he hs) hl hg
      obtain ⟨r, hr, hr1, hr2⟩ := graphemeEnd_spec b1 e hin1.len_le
      obtain ⟨b', hb', hin', l', lv', hk'⟩ := ih b1 e r hin1 (by rw [l1, hc]) hr1
        (fun h => by have := hr2 (by rw [l1, hc]; exact h); rw [l1, hc] at this; exact this)
        (fun h => by rw [lv1]; exact hl h)
      refine ⟨b', ?_, hin', by rw [l', l1], by rw [lv', lv1], hk1.trans hk'⟩
      simp only [formLoop, hs, if_true]
      cases merge
      · simp only [Bool.false_eq_true, if_false] at hb1 ⊢
        rw [hb1]; simp only [ok_bind, hr]; exact hb'
      · simp only [if_true] at hb1 ⊢
        rw [hb1]; simp only [ok_bind, hr]; exact hb'
    · refine ⟨b, ?_, hin, rfl, rfl, KeepProps.refl _⟩
      simp only [formLoop, hs, if_false]; rfl

/-- **form_clusters** adds no cluster value, keeps the minimum and keeps a monotone sequence monotone (all levels) -/
theorem formClusters_props (b : Buf) (hin : InPlace b) (hg : Gen.Buf.extendStartGuard = 1) :
    ∃ b', b.formClusters = .ok b' ∧ InPlace b' ∧ b'.len = b.len ∧ b'.level = b.level ∧ KeepProps (lview b) (lview b') := by
  unfold formClusters
  by_cases hsc : (b.scratch &&& SCRATCH_HAS_NON_ASCII == 0) = true
  · simp only [hsc, if_true]
    exact ⟨b, rfl, hin, rfl, rfl, KeepProps.refl _⟩
  · simp only [hsc, Bool.false_eq_true, if_false]
    have hl : (b.level == 0) = true → b.level ≠ 2 := by
      intro h; have : b.level = 0 := by simpa using h
      rw [this]; decide
    by_cases h0 : b.len > 0
    · obtain ⟨r, hr, hr1, hr2⟩ := graphemeEnd_spec b 0 hin.len_le
      simp only [h0, if_true, hr, ok_bind]
      exact formLoop_props (b.level == 0) b.len hg (b.len + 1) b 0 r hin rfl hr1 (fun h => hr2 h) hl
    · simp only [h0, if_false, pure_bind']
      have hz : b.len = 0 := by omega
      refine ⟨b, ?_, hin, rfl, rfl, KeepProps.refl _⟩
      rw [hz]; simp [formLoop]; rfl


end RbModel.Buf

namespace RbModel.Buf
open RbModel.Mem

/-! ## direction handling of the pipeline -/

/-- what a reversal guarantees: the sense of a monotone sequence flips, values and minimum stay -/
structure FlipProps (L L' : List Info) : Prop where
  subset : ValuesSubset L' L
  flipUp : NonDecr L → NonIncr L'
  flipDown : NonIncr L → NonDecr L'
  min : ∀ μ, IsMinCluster μ L → IsMinCluster μ L'

theorem FlipProps.of_reverse_clusters {L L' : List Info}
    (h : L'.map (·.cluster) = (L.map (·.cluster)).reverse) : FlipProps L L' := by
  have hcl : ∀ q, cl? L' q = cl? L.reverse q := by
    intro q
    have e1 : cl? L' q = (L'.map (·.cluster))[q]? := by unfold cl?; rw [List.getElem?_map]
    have e2 : cl? L.reverse q = (L.reverse.map (·.cluster))[q]? := by unfold cl?; rw [List.getElem?_map]
    rw [e1, e2, h, List.map_reverse]
  exact ⟨(valuesSubset_of_cl_eq hcl).trans (valuesSubset_reverse L),
    fun hm => nonIncr_of_cl_eq hcl (nonIncr_reverse hm), fun hm => nonDecr_of_cl_eq hcl (nonDecr_reverse hm),
    fun μ hμ => isMin_of_cl_eq hcl (isMin_reverse hμ)⟩

theorem FlipProps.of_reverse {L L' : List Info} (h : L' = L.reverse) : FlipProps L L' :=
  FlipProps.of_reverse_clusters (by rw [h, List.map_reverse])

/-- **`_hb_ot_layout_reverse_graphemes`**: at level 1 it merges every grapheme first; at the other levels the
    graphemes must already carry one cluster each (what form_clusters does at level 0) -/
theorem reverseGraphemes_props (b : Buf) (hin : InPlace b) (hc : b.level ≠ 1 → GraphemesClosed b.info b.len)
    (hg : Gen.Buf.extendStartGuard = 1) :
    ∃ b', b.reverseGraphemes = .ok b' ∧ InPlace b' ∧ b'.len = b.len ∧ FlipProps (lview b) (lview b') := by
  unfold reverseGraphemes
  by_cases hl : b.level = 1
  · have : (b.level == 1) = true := by simp [hl]
    rw [this]
    obtain ⟨b', h, hin', l', p1, p2, p3, p4⟩ := reverseGroupsG_merge_props b hin (by omega) hg
    exact ⟨b', h, hin', l', ⟨p1, p2, p3, p4⟩⟩
  · have : (b.level == 1) = false := by simpa using hl
    rw [this]
    obtain ⟨b', h, hin', l', hrev⟩ := reverseGroupsG_nomerge_props b hin (hc hl)
    exact ⟨b', h, hin', l', FlipProps.of_reverse_clusters hrev⟩

/-- `ensure_native_direction` either leaves the buffer alone or reverses its graphemes and flips the direction -/
theorem ensureNativeDirection_cases (b : Buf) (dir hor0 : Nat) (b' : Buf) (d' : Nat)
    (h : b.ensureNativeDirection dir hor0 = .ok (b', d')) :
    (b' = b ∧ d' = dir) ∨ (b.reverseGraphemes = .ok b' ∧ d' = Dir.reverse dir) := by
  have key : ∀ hor : Nat,
      (if (Dir.isHorizontal dir && dir != hor && hor != Dir.INVALID || Dir.isVertical dir && dir != Dir.TTB) = true then
          (b.reverseGraphemes >>= fun b1 => pure (b1, Dir.reverse dir)) else (pure (b, dir) : M (Buf × Nat))) = .ok (b', d') →
      (b' = b ∧ d' = dir) ∨ (b.reverseGraphemes = .ok b' ∧ d' = Dir.reverse dir) := by
    intro hor h
    split at h
    · obtain ⟨b1, hb1, h⟩ := bind_eq_ok h
      cases h
      exact Or.inr ⟨hb1, rfl⟩
    · cases h
      exact Or.inl ⟨rfl, rfl⟩
  unfold ensureNativeDirection at h
  simp only at h
  split at h
  · obtain ⟨x, _, h⟩ := bind_eq_ok h
    split at h
    · exact key _ h
    · exact key _ h
  · exact key _ h

/-- the last step of `position()`: a backward run is reversed once, a forward run is left alone -/
theorem finalReverse_props (b : Buf) (dir : Nat) (hin : InPlace b) :
    ∃ b', b.finalReverse dir = .ok b' ∧ InPlace b' ∧ b'.len = b.len ∧
      ((Dir.isBackward dir = true ∧ lview b' = (lview b).reverse) ∨ (Dir.isBackward dir = false ∧ b' = b)) := by
  unfold finalReverse
  cases hd : Dir.isBackward dir with
  | true =>
    obtain ⟨b', h, hin', l', _, hrev⟩ := reverse_spec b hin
    exact ⟨b', by simpa using h, hin', l', Or.inl ⟨rfl, hrev⟩⟩
  | false => exact ⟨b, rfl, hin, rfl, Or.inr ⟨rfl, rfl⟩⟩


end RbModel.Buf

namespace RbModel.Buf
open RbModel.Mem

/-! ## every primitive: no cluster value is invented -/

theorem setMasks_flagsOnly {b b' : Buf} {v m cs ce : Nat} (h : b.setMasks v m cs ce = .ok b') : FlagsOnly b b' := by
  unfold setMasks at h
  split at h
  · cases h; exact FlagsOnly.refl b
  · split at h
    · cases h
    · cases h
      refine ⟨rfl, ?_, OnlyMask.refl _⟩
      unfold OnlyMask
      simp only
      rw [List.map_append, List.map_map]
      conv => rhs; rw [← List.take_append_drop b.len b.info, List.map_append]
      congr 1
      apply List.map_congr_left
      intro x _
      simp only [Function.comp]
      split <;> rfl

theorem resetMasks_flagsOnly {b b' : Buf} {m : Nat} (h : b.resetMasks m = .ok b') : FlagsOnly b b' := by
  unfold resetMasks at h
  split at h
  · cases h
  · cases h
    refine ⟨rfl, ?_, OnlyMask.refl _⟩
    unfold OnlyMask
    simp only
    rw [List.map_append, List.map_map]
    conv => rhs; rw [← List.take_append_drop b.len b.info, List.map_append]
    congr 1

/-- cluster values of the logical glyph sequence -/
def clusters (b : Buf) : List Nat := (lview b).map (·.cluster)

theorem mem_clusters {b : Buf} {c : Nat} : c ∈ clusters b ↔ ∃ q, cl? (lview b) q = some c := by
  unfold clusters cl?
  rw [List.mem_map]
  constructor
  · rintro ⟨x, hx, rfl⟩
    obtain ⟨q, hq⟩ := List.mem_iff_getElem?.1 hx
    exact ⟨q, by rw [hq]; rfl⟩
  · rintro ⟨q, hq⟩
    cases hx : (lview b)[q]? with
    | none => rw [hx] at hq; cases hq
    | some x =>
      rw [hx] at hq
      exact ⟨x, List.mem_iff_getElem?.2 ⟨q, hx⟩, Option.some.inj hq⟩

theorem subset_of_valuesSubset {b b' : Buf} (h : ValuesSubset (lview b') (lview b)) : ∀ c ∈ clusters b', c ∈ clusters b := by
  intro c hc
  obtain ⟨q, hq⟩ := mem_clusters.1 hc
  obtain ⟨p, hp⟩ := h q c hq
  exact mem_clusters.2 ⟨p, hp⟩

/-- the buffer primitives of buffer.rs (and the cluster pipeline steps) as data -/
inductive Op where
  | next | nexts (n : Nat) | copy | skip | repl (g : Nat) | repls (numIn : Nat) (gs : List Nat)
  | outg (g : Nat) | outi (x : Info) | del | merge (s e : Nat) | mergeOut (s e : Nat) | moveTo (i : Nat) | sync
  | utb (s : Nat) (e : Option Nat) | utbo (s : Nat) (e : Option Nat) | utc (s : Nat) (e : Option Nat)
  | utco (s : Nat) (e : Option Nat) | tatweel (s : Nat) (e : Option Nat)
  | setMasks (v m cs ce : Nat) | resetMasks (m : Nat)
  | reverse | sort (s e : Nat) | formClusters | finalReverse (dir : Nat)

def Op.run : Op → Buf → M Buf
  | .next, b => b.nextGlyph
  | .nexts n, b => b.nextGlyphs n
  | .copy, b => b.copyGlyph
  | .skip, b => pure b.skipGlyph
  | .repl g, b => b.replaceGlyph g
  | .repls n gs, b => b.replaceGlyphs n gs
  | .outg g, b => b.outputGlyph g
  | .outi x, b => b.outputInfo x
  | .del, b => b.deleteGlyph
  | .merge s e, b => b.mergeClusters s e
  | .mergeOut s e, b => b.mergeOutClusters s e
  | .moveTo i, b => do let (b, _) ← b.moveTo i; pure b
  | .sync, b => do let (b, _) ← b.sync; pure b
  | .utb s e, b => b.unsafeToBreak s e
  | .utbo s e, b => b.unsafeToBreakFromOut s e
  | .utc s e, b => b.unsafeToConcat s e
  | .utco s e, b => b.unsafeToConcatFromOut s e
  | .tatweel s e, b => b.safeToInsertTatweel s e
  | .setMasks v m cs ce, b => b.setMasks v m cs ce
  | .resetMasks m, b => b.resetMasks m
  | .reverse, b => b.reverse
  | .sort s e, b => b.sort s e
  | .formClusters, b => b.formClusters
  | .finalReverse d, b => b.finalReverse d

/-- the cluster values a primitive is handed from outside -/
def Op.supplied : Op → List Nat
  | .outi x => [x.cluster]
  | _ => []

/-- callers' preconditions: the streaming primitives run in the in/out mode (`Inv`) with a current glyph where they
    read one, ranges lie inside the buffer, the whole-buffer routines run in in-place mode -/
def Op.Pre : Op → Buf → Prop
  | .next, b => Inv b ∧ b.idx < b.len
  | .nexts n, b => Inv b ∧ b.idx + n ≤ b.len
  | .copy, b => Inv b ∧ b.idx < b.len
  | .skip, b => WF b ∧ b.idx < b.len
  | .repl _, b => Inv b ∧ b.idx < b.len
  | .repls n _, b => Inv b ∧ 1 ≤ n ∧ b.idx + n ≤ b.len
  | .outg _, b => Inv b
  | .outi _, b => Inv b
  | .del, b => WF b ∧ b.idx < b.len
  | .merge s e, b => WF b ∧ b.idx ≤ s ∧ e ≤ b.len
  | .mergeOut _ e, b => WF b ∧ e ≤ b.outLen
  | .moveTo i, b => Inv b ∧ i ≤ total b
  | .sync, b => Inv b
  | .sort _ e, b => InPlace b ∧ e ≤ b.len ∧ b.havePos = false
  | .reverse, b => InPlace b
  | .formClusters, b => InPlace b
  | .finalReverse _, b => InPlace b
  | _, _ => True

theorem Op.subset (op : Op) (b b' : Buf) (hpre : op.Pre b) (h : op.run b = .ok b')
    (hgrow : Gen.Buf.ensureGrowOnly = true) (hrew : Gen.Buf.moveToRewindReversed = true) (hg : Gen.Buf.extendStartGuard = 1) :
    b'.successful = false ∨ ∀ c ∈ clusters b', c ∈ clusters b ∨ c ∈ op.supplied := by
  have fromVS : ValuesSubset (lview b') (lview b) → b'.successful = false ∨ ∀ c ∈ clusters b', c ∈ clusters b ∨ c ∈ op.supplied :=
    fun hv => Or.inr (fun c hc => Or.inl (subset_of_valuesSubset hv c hc))
  have fromEq : lview b' = lview b → b'.successful = false ∨ ∀ c ∈ clusters b', c ∈ clusters b ∨ c ∈ op.supplied :=
    fun he => fromVS (by rw [he]; exact ValuesSubset.refl _)
  have fromFlags : FlagsOnly b b' → b'.successful = false ∨ ∀ c ∈ clusters b', c ∈ clusters b ∨ c ∈ op.supplied :=
    fun hf => fromVS hf.props.subset
  cases op with
  | next =>
    obtain ⟨b1, h1, _, hl⟩ := nextGlyph_keep b hpre.1 hpre.2 hgrow
    rw [Op.run, h1] at h; cases h; exact fromEq hl
  | nexts n =>
    obtain ⟨b1, h1, _, hl⟩ := nextGlyphs_keep b n hpre.1 hpre.2 hgrow
    rw [Op.run, h1] at h; cases h; exact fromEq hl
  | copy =>
    obtain ⟨b1, h1, _, hk⟩ := copyGlyph_keep b hpre.1 hpre.2 hgrow
    rw [Op.run, h1] at h; cases h; exact fromVS hk.subset
  | skip =>
    cases h
    rw [show lview b.skipGlyph = (lview b).eraseIdx b.outLen from skipGlyph_lview b hpre.1 hpre.2] at *
    exact Or.inr (fun c hc => Or.inl (subset_of_valuesSubset (by rw [skipGlyph_lview b hpre.1 hpre.2]; exact valuesSubset_eraseIdx _ _) c hc))
  | repl g =>
    obtain ⟨b1, h1, _, hcl⟩ := replaceGlyph_keep b g hpre.1 hpre.2 hgrow
    rw [Op.run, h1] at h; cases h; exact fromVS (valuesSubset_of_cl_eq hcl)
  | repls n gs =>
    obtain ⟨b1, h1, hc⟩ := replaceGlyphs_props b n gs hpre.1 hpre.2.1 hpre.2.2 hgrow hg
    rw [Op.run, h1] at h; cases h
    rcases hc with hf | ⟨_, _, _, _, _, _, _, hs, _⟩
    · left; rw [hf]
    · exact fromVS hs
  | outg g =>
    obtain ⟨b1, h1, hc⟩ := outputGlyph_keep b g hpre hgrow
    rw [Op.run, h1] at h; cases h
    rcases hc with hf | hk
    · exact Or.inl hf
    · exact fromVS hk.subset
  | outi x =>
    obtain ⟨b1, h1, _, hs⟩ := outputInfo_keep b x hpre hgrow
    rw [Op.run, h1] at h; cases h
    right
    intro c hc
    obtain ⟨q, hq⟩ := mem_clusters.1 hc
    rcases hs q c hq with h2 | ⟨p, hp⟩
    · right; simp [Op.supplied, h2]
    · left; exact mem_clusters.2 ⟨p, hp⟩
  | del =>
    obtain ⟨b1, h1, _, _, _, _, _, _, _, _, hs, _⟩ := deleteGlyph_props b hpre.1 hpre.2 hg
    rw [Op.run, h1] at h; cases h; exact fromVS hs
  | merge s e =>
    obtain ⟨b1, h1, _, _, _, _, _, _, _, hp, _⟩ := mergeClusters_props b s e hpre.1 hpre.2.1 hpre.2.2 hg
    rw [Op.run, h1] at h; cases h; exact fromVS hp.subset
  | mergeOut s e =>
    obtain ⟨b1, h1, _, _, _, _, _, _, _, hp, _⟩ := mergeOutClusters_props b s e hpre.1 hpre.2
    rw [Op.run, h1] at h; cases h; exact fromVS hp.subset
  | moveTo i =>
    obtain ⟨b1, r, h1, hf, ht⟩ := moveTo_keep b i hpre.1 hpre.2 hgrow hrew
    simp only [Op.run, h1, ok_bind] at h
    cases h
    cases r with
    | false => exact Or.inl (hf rfl)
    | true => exact fromEq (ht rfl).2
  | sync =>
    obtain ⟨b1, r, h1, hc⟩ := sync_keep b hpre hgrow
    simp only [Op.run, h1, ok_bind] at h
    cases h
    rcases hc with hf | ⟨_, _, _, hl⟩
    · exact Or.inl hf
    · exact fromEq hl
  | utb s e => exact fromFlags (unsafeToBreak_flagsOnly h)
  | utbo s e => exact fromFlags (unsafeToBreakFromOut_flagsOnly h)
  | utc s e => exact fromFlags (unsafeToConcat_flagsOnly h)
  | utco s e => exact fromFlags (unsafeToConcatFromOut_flagsOnly h)
  | tatweel s e => exact fromFlags (safeToInsertTatweel_flagsOnly h)
  | setMasks v m cs ce => exact fromFlags (setMasks_flagsOnly h)
  | resetMasks m => exact fromFlags (resetMasks_flagsOnly h)
  | reverse =>
    obtain ⟨b1, h1, _, _, _, hrev⟩ := reverse_spec b hpre
    rw [Op.run, h1] at h; cases h; exact fromVS (by rw [hrev]; exact valuesSubset_reverse _)
  | sort s e =>
    obtain ⟨b1, h1, _, _, hs, _⟩ := sort_props b s e hpre.1 hpre.2.1 hpre.2.2 hg
    rw [Op.run, h1] at h; cases h; exact fromVS hs
  | formClusters =>
    obtain ⟨b1, h1, _, _, _, hk⟩ := formClusters_props b hpre hg
    rw [Op.run, h1] at h; cases h; exact fromVS hk.subset
  | finalReverse d =>
    obtain ⟨b1, h1, _, _, hc⟩ := finalReverse_props b d hpre
    rw [Op.run, h1] at h; cases h
    rcases hc with ⟨_, hrev⟩ | ⟨_, he⟩
    · exact fromVS (by rw [hrev]; exact valuesSubset_reverse _)
    · exact fromEq (by rw [he])


/-- a run of primitives, each applied within its precondition and none hitting the length budget -/
inductive Runs : Buf → List Op → Buf → Prop
  | nil (b : Buf) : Runs b [] b
  | cons {b b1 b2 : Buf} {op : Op} {ops : List Op} : op.Pre b → op.run b = .ok b1 → b1.successful = true →
      Runs b1 ops b2 → Runs b (op :: ops) b2

theorem Runs.subset {b b' : Buf} {ops : List Op} (h : Runs b ops b')
    (hgrow : Gen.Buf.ensureGrowOnly = true) (hrew : Gen.Buf.moveToRewindReversed = true) (hg : Gen.Buf.extendStartGuard = 1) :
    ∀ c ∈ clusters b', c ∈ clusters b ∨ ∃ op ∈ ops, c ∈ op.supplied := by
  induction h with
  | nil b => intro c hc; exact Or.inl hc
  | @cons b0 b1 b2 op ops hpre hrun hsucc _ ih =>
    intro c hc
    rcases ih c hc with h1 | ⟨op', hop', hc'⟩
    · rcases Op.subset op b0 b1 hpre hrun hgrow hrew hg with hf | hs
      · rw [hsucc] at hf; cases hf
      · rcases hs c h1 with h2 | h2
        · exact Or.inl h2
        · exact Or.inr ⟨op, List.mem_cons_self, h2⟩
    · exact Or.inr ⟨op', List.mem_cons_of_mem _ hop', hc'⟩

end RbModel.Buf

namespace RbModel.Buf
open RbModel.Mem

/-! ## what the cluster level (and the cluster values) cannot influence: glyph identities and order -/

/-- identity of a glyph record: everything but its cluster and its mask (flag bits live in the mask) -/
def ident (x : Info) : Nat × Nat × Nat := (x.gid, x.var1, x.var2)

/-- glyph identities of the logical sequence, in order -/
def glyphs (b : Buf) : List (Nat × Nat × Nat) := (lview b).map ident

theorem ident_setCluster (x : Info) (c m : Nat) : ident (setCluster x c m) = ident x := rfl

theorem IsMerge.glyphs_eq {L L' : List Info} {S E m : Nat} (h : IsMerge L L' S E m) : L'.map ident = L.map ident := by
  apply List.ext_getElem?
  intro q
  rw [List.getElem?_map, List.getElem?_map]
  by_cases hz : Zone L S E q
  · rw [h.inz q hz]
    cases L[q]? with
    | none => rfl
    | some x => simp [ident_setCluster]
  · rw [h.outz q hz]

theorem OnlyMask.glyphs_eq {l l' : List Info} (h : OnlyMask l l') : l'.map ident = l.map ident := by
  have h2 : (l'.map noMask).map ident = (l.map noMask).map ident := by rw [h]
  have e : ident ∘ noMask = ident := rfl
  rwa [List.map_map, List.map_map, e] at h2

theorem FlagsOnly.glyphs_eq {b b' : Buf} (h : FlagsOnly b b') : glyphs b' = glyphs b := (FlagsOnly.lview h).glyphs_eq

/-- merging clusters moves no glyph and changes no glyph identity, at any cluster level -/
theorem mergeClusters_glyphs (b : Buf) (s e : Nat) (hwf : WF b) (hs : b.idx ≤ s) (he : e ≤ b.len)
    (hg : Gen.Buf.extendStartGuard = 1) : ∃ b', b.mergeClusters s e = .ok b' ∧ glyphs b' = glyphs b := by
  by_cases hshort : e - s < 2
  · exact ⟨b, by unfold mergeClusters; simp [hshort]; rfl, rfl⟩
  · by_cases hl : b.level = 2
    · obtain ⟨b', hb, hf⟩ := unsafeToBreak_ok b s e hwf (by omega) he
      refine ⟨b', ?_, hf.glyphs_eq⟩
      unfold mergeClusters mergeClustersImpl
      simp only [hshort, if_false, hl, beq_self_eq_true, if_true]
      rw [hb]
    · obtain ⟨b', m, hb, _, hm⟩ := mergeClusters_isMerge b s e hwf hs (by omega) he hl hg
      exact ⟨b', hb, hm.glyphs_eq⟩

theorem mergeOutClusters_glyphs (b : Buf) (s e : Nat) (hwf : WF b) (he : e ≤ b.outLen) :
    ∃ b', b.mergeOutClusters s e = .ok b' ∧ glyphs b' = glyphs b := by
  by_cases hl : b.level = 2
  · exact ⟨b, by unfold mergeOutClusters; simp [hl]; rfl, rfl⟩
  · by_cases hshort : e - s < 2
    · refine ⟨b, ?_, rfl⟩
      unfold mergeOutClusters
      have : (b.level == 2) = false := by simpa using hl
      simp [this, hshort]; rfl
    · obtain ⟨b', m, hb, _, hm⟩ := mergeOutClusters_isMerge b s e hwf (by omega) he hl
      exact ⟨b', hb, hm.glyphs_eq⟩

theorem formLoop_glyphs (merge : Bool) (count : Nat) (hg : Gen.Buf.extendStartGuard = 1) : ∀ (fuel : Nat) (b : Buf) (s e : Nat),
    InPlace b → b.len = count → s < e → (s < count → e ≤ count) →
    ∃ b', formLoop merge count b s e fuel = .ok b' ∧ glyphs b' = glyphs b := by
  intro fuel
  induction fuel with
  | zero => intro b s e _ _ _ _; exact ⟨b, rfl, rfl⟩
  | succ fuel ih =>
    intro b s e hin hc hse he
    by_cases hs : s < count
    · have hbody : ∃ b1, (if merge = true then b.mergeClusters s e else b.unsafeToBreak s (some e)) = .ok b1 ∧
          InPlace b1 ∧ b1.len = b.len ∧ glyphs b1 = glyphs b := by
        cases merge with
        | true =>
          obtain ⟨b1, hm, hwf1, e1, e2, e3, _⟩ := mergeClusters_props b s e hin.wf (by rw [hin.idx0]; omega) (by rw [hc]; exact he hs) hg
          obtain ⟨b1', hm', hgl⟩ := mergeClusters_glyphs b s e hin.wf (by rw [hin.idx0]; omega) (by rw [hc]; exact he hs) hg
          rw [hm] at hm'; cases hm'
          exact ⟨b1, by simpa using hm, ⟨by rw [e1]; exact hin.idx0, by rw [e3]; exact hin.out0, hwf1.len_le⟩, e2, hgl⟩
        | false =>
          obtain ⟨b1, hb, hf⟩ := unsafeToBreak_ok b s e hin.wf (by omega) (by rw [hc]; exact he hs)
          have h1 := hf.1
          have hwf1 := hf.wf hin.wf
          exact ⟨b1, by simpa using hb, ⟨by rw [h1]; exact hin.idx0, by rw [h1]; exact hin.out0, hwf1.len_le⟩, by rw [h1], hf.glyphs_eq⟩
      obtain ⟨b1, hb1, hin1, l1, hg1⟩ := hbody
      obtain ⟨r, hr, hr1, hr2⟩ := graphemeEnd_spec b1 e hin1.len_le
      obtain ⟨b', hb', hg'⟩ := ih b1 e r hin1 (by rw [l1, hc]) hr1
        (fun h => by have := hr2 (by rw [l1, hc]; exact h); rw [l1, hc] at this; exact this)
      refine ⟨b', ?_, by rw [hg', hg1]⟩
      simp only [formLoop, hs, if_true]
      cases merge
      · simp only [Bool.false_eq_true, if_false] at hb1 ⊢
        rw [hb1]; simp only [ok_bind, hr]; exact hb'
      · simp only [if_true] at hb1 ⊢
        rw [hb1]; simp only [ok_bind, hr]; exact hb'
    · refine ⟨b, ?_, rfl⟩
      simp only [formLoop, hs, if_false]; rfl

/-- `form_clusters` moves no glyph and changes no glyph identity, at any level -/
theorem formClusters_glyphs (b : Buf) (hin : InPlace b) (hg : Gen.Buf.extendStartGuard = 1) :
    ∃ b', b.formClusters = .ok b' ∧ glyphs b' = glyphs b := by
  unfold formClusters
  by_cases hsc : (b.scratch &&& SCRATCH_HAS_NON_ASCII == 0) = true
  · simp only [hsc, if_true]
    exact ⟨b, rfl, rfl⟩
  · simp only [hsc, Bool.false_eq_true, if_false]
    by_cases h0 : b.len > 0
    · obtain ⟨r, hr, hr1, hr2⟩ := graphemeEnd_spec b 0 hin.len_le
      simp only [h0, if_true, hr, ok_bind]
      exact formLoop_glyphs (b.level == 0) b.len hg (b.len + 1) b 0 r hin rfl hr1 (fun h => hr2 h)
    · simp only [h0, if_false, pure_bind']
      have hz : b.len = 0 := by omega
      refine ⟨b, ?_, rfl⟩
      rw [hz]; simp [formLoop]; rfl


end RbModel.Buf
