/-
  Cluster bookkeeping of the buffer: loop lemmas and the pointwise meaning of `merge_clusters` /
  `merge_out_clusters` on the logical glyph sequence (`Buf.seq`, Lemmas/BufZipper.lean).
  Part 1: the loops of the two merge routines.
-/
import RbModel.Cluster
import RbModel.Lemmas.BufZipper

namespace RbModel.Buf
open RbModel.Mem

/-- cluster value at an index of a Vec (`none` outside) -/
def cl? (l : List Info) (q : Nat) : Option Nat := (l[q]?).map (·.cluster)

theorem cl?_of_get {l : List Info} {q : Nat} {x : Info} (h : l[q]? = some x) : cl? l q = some x.cluster := by
  simp [cl?, h]

theorem cl?_lt {l : List Info} {q : Nat} (h : q < l.length) : cl? l q = some l[q].cluster := by
  simp [cl?, List.getElem?_eq_getElem h]

theorem cl?_set_ne (l : List Info) (i q : Nat) (x : Info) (h : i ≠ q) : cl? (l.set i x) q = cl? l q := by
  simp [cl?, List.getElem?_set_ne h]

/-! ### `cluster = min(cluster, info[i].cluster)` loops -/

theorem minClusterLoop_spec (l : List Info) : ∀ (k i c : Nat), i + k ≤ l.length →
    ∃ m, minClusterLoop l c i k = .ok m ∧ m ≤ c ∧
      (∀ q, i ≤ q → q < i + k → ∀ v, cl? l q = some v → m ≤ v) ∧
      (m = c ∨ ∃ q, i ≤ q ∧ q < i + k ∧ cl? l q = some m) := by
  intro k
  induction k with
  | zero =>
    intro i c _
    exact ⟨c, rfl, Nat.le_refl _, by intro q h1 h2; omega, Or.inl rfl⟩
  | succ k ih =>
    intro i c h
    have hi : i < l.length := by omega
    obtain ⟨m, hm, hle, hall, hex⟩ := ih (i + 1) (min c l[i].cluster) (by omega)
    refine ⟨m, ?_, ?_, ?_, ?_⟩
    · simp only [minClusterLoop, get_ok hi, bind, Except.bind]; exact hm
    · have := Nat.min_le_left c l[i].cluster; omega
    · intro q h1 h2 v hv
      by_cases hq : q = i
      · subst hq
        rw [cl?_lt hi] at hv
        cases hv
        have := Nat.min_le_right c l[q].cluster; omega
      · exact hall q (by omega) (by omega) v hv
    · rcases hex with h1 | ⟨q, h1, h2, h3⟩
      · by_cases hc : c ≤ l[i].cluster
        · left; rw [h1]; exact Nat.min_eq_left hc
        · right
          refine ⟨i, Nat.le_refl _, by omega, ?_⟩
          rw [cl?_lt hi, h1, Nat.min_eq_right (by omega)]
      · right; exact ⟨q, by omega, by omega, h3⟩

/-! ### extend end -/

theorem extendEnd_spec (l : List Info) (len : Nat) (hlen : len ≤ l.length) :
    ∀ (fuel e : Nat), 1 ≤ e → e ≤ len → len - e ≤ fuel →
    ∃ e', extendEnd l len e fuel = .ok e' ∧ e ≤ e' ∧ e' ≤ len ∧
      (∀ q, e ≤ q → q < e' → cl? l q = cl? l (e - 1)) ∧
      (e' = len ∨ cl? l e' ≠ cl? l (e - 1)) := by
  intro fuel
  induction fuel with
  | zero =>
    intro e h1 h2 h3
    have : e = len := by omega
    subst this
    exact ⟨e, rfl, Nat.le_refl _, Nat.le_refl _, by intro q a b; omega, Or.inl rfl⟩
  | succ fuel ih =>
    intro e h1 h2 h3
    by_cases he : e < len
    · have ha : e - 1 < l.length := by omega
      have hc : e < l.length := by omega
      have hne : ¬ e = 0 := by omega
      by_cases heq : l[e - 1].cluster = l[e].cluster
      · obtain ⟨e', hr, hle1, hle2, hall, hstop⟩ := ih (e + 1) (by omega) (by omega) (by omega)
        have hcl : cl? l e = cl? l (e - 1) := by rw [cl?_lt hc, cl?_lt ha, heq]
        refine ⟨e', ?_, by omega, hle2, ?_, ?_⟩
        · simp only [extendEnd, he, if_true, hne, if_false, get_ok ha, get_ok hc, bind, Except.bind]
          simp only [heq, beq_self_eq_true, if_true]
          exact hr
        · intro q a b
          by_cases hq : q = e
          · subst hq; exact hcl
          · have := hall q (by omega) b
            simp only [Nat.add_sub_cancel] at this
            rw [this, hcl]
        · simp only [Nat.add_sub_cancel] at hstop
          rcases hstop with h | h
          · exact Or.inl h
          · right; rw [← hcl]; exact h
      · refine ⟨e, ?_, Nat.le_refl _, h2, by intro q a b; omega, ?_⟩
        · simp only [extendEnd, he, if_true, hne, if_false, get_ok ha, get_ok hc, bind, Except.bind]
          have : (l[e - 1].cluster == l[e].cluster) = false := by simpa using heq
          simp only [this, Bool.false_eq_true, if_false]; rfl
        · right
          rw [cl?_lt hc, cl?_lt ha]
          intro h; exact heq (Option.some.inj h).symm
    · have : e = len := by omega
      subst this
      refine ⟨e, ?_, Nat.le_refl _, Nat.le_refl _, by intro q a b; omega, Or.inl rfl⟩
      simp only [extendEnd, he, if_false]; rfl

/-! ### extend start -/

theorem extendStart_spec (l : List Info) (lo : Nat) : ∀ (s : Nat), s < l.length →
    ∃ s', extendStart l lo s = .ok s' ∧ s' ≤ s ∧ (lo ≤ s → lo ≤ s') ∧
      (∀ q, s' ≤ q → q ≤ s → cl? l q = cl? l s) ∧
      (s' ≤ lo ∨ cl? l (s' - 1) ≠ cl? l s) := by
  intro s
  induction s with
  | zero =>
    intro _
    refine ⟨0, rfl, Nat.le_refl _, fun h => h, ?_, Or.inl (Nat.zero_le _)⟩
    intro q a b
    have : q = 0 := by omega
    subst this; rfl
  | succ s ih =>
    intro hs
    by_cases hg : lo < s + 1
    · have ha : s < l.length := by omega
      by_cases heq : l[s].cluster = l[s + 1].cluster
      · obtain ⟨s', hr, hle, hlo, hall, hstop⟩ := ih ha
        have hcl : cl? l s = cl? l (s + 1) := by rw [cl?_lt ha, cl?_lt hs, heq]
        refine ⟨s', ?_, by omega, fun _ => hlo (by omega), ?_, ?_⟩
        · simp only [extendStart, hg, if_true, get_ok ha, get_ok hs, bind, Except.bind]
          simp only [heq, beq_self_eq_true, if_true]
          exact hr
        · intro q a b
          by_cases hq : q = s + 1
          · subst hq; rfl
          · rw [hall q a (by omega), hcl]
        · rcases hstop with h | h
          · exact Or.inl h
          · right; rw [← hcl]; exact h
      · refine ⟨s + 1, ?_, Nat.le_refl _, fun h => h, ?_, ?_⟩
        · simp only [extendStart, hg, if_true, get_ok ha, get_ok hs, bind, Except.bind]
          have : (l[s].cluster == l[s + 1].cluster) = false := by simpa using heq
          simp only [this, Bool.false_eq_true, if_false]; rfl
        · intro q a b
          have : q = s + 1 := by omega
          subst this; rfl
        · right
          simp only [Nat.add_sub_cancel]
          rw [cl?_lt ha, cl?_lt hs]
          intro h; exact heq (Option.some.inj h)
    · refine ⟨s + 1, ?_, Nat.le_refl _, fun h => h, ?_, Or.inl (by omega)⟩
      · simp only [extendStart, hg, if_false]; rfl
      · intro q a b
        have : q = s + 1 := by omega
        subst this; rfl

theorem extendStartOut_spec (l : List Info) : ∀ (s : Nat), s < l.length →
    ∃ s', extendStartOut l s = .ok s' ∧ s' ≤ s ∧
      (∀ q, s' ≤ q → q ≤ s → cl? l q = cl? l s) ∧
      (s' = 0 ∨ cl? l (s' - 1) ≠ cl? l s) := by
  intro s
  induction s with
  | zero =>
    intro _
    refine ⟨0, rfl, Nat.le_refl _, ?_, Or.inl rfl⟩
    intro q a b
    have : q = 0 := by omega
    subst this; rfl
  | succ s ih =>
    intro hs
    have ha : s < l.length := by omega
    by_cases heq : l[s].cluster = l[s + 1].cluster
    · obtain ⟨s', hr, hle, hall, hstop⟩ := ih ha
      have hcl : cl? l s = cl? l (s + 1) := by rw [cl?_lt ha, cl?_lt hs, heq]
      refine ⟨s', ?_, by omega, ?_, ?_⟩
      · simp only [extendStartOut, get_ok ha, get_ok hs, bind, Except.bind]
        simp only [heq, beq_self_eq_true, if_true]
        exact hr
      · intro q a b
        by_cases hq : q = s + 1
        · subst hq; rfl
        · rw [hall q a (by omega), hcl]
      · rcases hstop with h | h
        · exact Or.inl h
        · right; rw [← hcl]; exact h
    · refine ⟨s + 1, ?_, Nat.le_refl _, ?_, ?_⟩
      · simp only [extendStartOut, get_ok ha, get_ok hs, bind, Except.bind]
        have : (l[s].cluster == l[s + 1].cluster) = false := by simpa using heq
        simp only [this, Bool.false_eq_true, if_false]; rfl
      · intro q a b
        have : q = s + 1 := by omega
        subst this; rfl
      · right
        simp only [Nat.add_sub_cancel]
        rw [cl?_lt ha, cl?_lt hs]
        intro h; exact heq (Option.some.inj h)

/-! ### relabelling loops -/

/-- `set_cluster` on every record of `[i, i+k)` -/
theorem setClusterRange_spec (cluster : Nat) : ∀ (k i : Nat) (l : List Info), i + k ≤ l.length →
    ∃ r, setClusterRange l cluster i k = .ok r ∧ r.length = l.length ∧
      ∀ q, r[q]? = if i ≤ q ∧ q < i + k then (l[q]?).map (fun x => setCluster x cluster 0) else l[q]? := by
  intro k
  induction k with
  | zero =>
    intro i l _
    refine ⟨l, rfl, rfl, ?_⟩
    intro q
    have : ¬ (i ≤ q ∧ q < i + 0) := by omega
    simp only [this, if_false]
  | succ k ih =>
    intro i l h
    have hi : i < l.length := by omega
    obtain ⟨r, hr, hlen, hq⟩ := ih (i + 1) (l.set i (setCluster l[i] cluster 0)) (by simp; omega)
    refine ⟨r, ?_, by simpa using hlen, ?_⟩
    · simp only [setClusterRange, get_ok hi, bind, Except.bind]; exact hr
    · intro q
      rw [hq q]
      by_cases hq1 : q = i
      · subst hq1
        rw [if_neg (by omega), if_pos (by omega)]
        rw [List.getElem?_set_self hi, List.getElem?_eq_getElem hi]; rfl
      · rw [List.getElem?_set_ne (by omega)]
        by_cases hr1 : i + 1 ≤ q ∧ q < i + 1 + k
        · have : i ≤ q ∧ q < i + (k + 1) := by omega
          simp only [hr1, this, and_self, if_true]
        · have : ¬ (i ≤ q ∧ q < i + (k + 1)) := by omega
          simp only [hr1, this, if_false]

/-- the backward walk through the out-buffer: relabels the maximal run of cluster `c` ending at `i` -/
theorem relabelOutBack_spec (c cluster mask : Nat) : ∀ (i : Nat) (o : List Info), i ≤ o.length →
    ∃ r k, relabelOutBack o c cluster mask i = .ok r ∧ k ≤ i ∧ r.length = o.length ∧
      (∀ q, r[q]? = if k ≤ q ∧ q < i then (o[q]?).map (fun x => setCluster x cluster mask) else o[q]?) ∧
      (∀ q, k ≤ q → q < i → cl? o q = some c) ∧
      (k = 0 ∨ cl? o (k - 1) ≠ some c) := by
  intro i
  induction i with
  | zero =>
    intro o _
    refine ⟨o, 0, rfl, Nat.le_refl _, rfl, ?_, by intro q a b; omega, Or.inl rfl⟩
    intro q
    have : ¬ (0 ≤ q ∧ q < 0) := by omega
    simp only [this, if_false]
  | succ i ih =>
    intro o h
    have hi : i < o.length := by omega
    by_cases heq : o[i].cluster = c
    · obtain ⟨r, k, hr, hk, hlen, hq, hall, hstop⟩ := ih (o.set i (setCluster o[i] cluster mask)) (by simp; omega)
      refine ⟨r, k, ?_, by omega, by simpa using hlen, ?_, ?_, ?_⟩
      · simp only [relabelOutBack, get_ok hi, bind, Except.bind]
        simp only [heq, beq_self_eq_true, if_true]
        exact hr
      · intro q
        rw [hq q]
        by_cases hq1 : q = i
        · subst hq1
          rw [if_neg (by omega), if_pos (by omega)]
          rw [List.getElem?_set_self hi, List.getElem?_eq_getElem hi]; rfl
        · rw [List.getElem?_set_ne (by omega)]
          by_cases hr1 : k ≤ q ∧ q < i
          · have : k ≤ q ∧ q < i + 1 := by omega
            simp only [hr1, this, and_self, if_true]
          · have : ¬ (k ≤ q ∧ q < i + 1) := by omega
            simp only [hr1, this, if_false]
      · intro q a b
        by_cases hq1 : q = i
        · subst hq1; rw [cl?_lt hi, heq]
        · have := hall q a (by omega)
          rwa [cl?_set_ne _ _ _ _ (by omega)] at this
      · rcases hstop with h1 | h1
        · exact Or.inl h1
        · by_cases hk0 : k = 0
          · exact Or.inl hk0
          · right
            rwa [cl?_set_ne _ _ _ _ (by omega)] at h1
    · refine ⟨o, i + 1, ?_, Nat.le_refl _, rfl, ?_, by intro q a b; omega, ?_⟩
      · simp only [relabelOutBack, get_ok hi, bind, Except.bind]
        have : (o[i].cluster == c) = false := by simpa using heq
        simp only [this, Bool.false_eq_true, if_false]; rfl
      · intro q
        have : ¬ (i + 1 ≤ q ∧ q < i + 1) := by omega
        simp only [this, if_false]
      · right
        simp only [Nat.add_sub_cancel]
        rw [cl?_lt hi]
        intro h; cases h; exact heq rfl

end RbModel.Buf

namespace RbModel.Buf
open RbModel.Mem

/-- the forward walk through the unconsumed input: relabels the maximal run of cluster `c` starting at `i` -/
theorem relabelInFwd_spec (len c cluster : Nat) : ∀ (fuel i : Nat) (l : List Info), len ≤ l.length → i ≤ len →
    len - i ≤ fuel →
    ∃ r k, relabelInFwd l len c cluster i fuel = .ok r ∧ i ≤ k ∧ k ≤ len ∧ r.length = l.length ∧
      (∀ q, r[q]? = if i ≤ q ∧ q < k then (l[q]?).map (fun x => setCluster x cluster 0) else l[q]?) ∧
      (∀ q, i ≤ q → q < k → cl? l q = some c) ∧
      (k = len ∨ cl? l k ≠ some c) := by
  intro fuel
  induction fuel with
  | zero =>
    intro i l _ h2 h3
    have : i = len := by omega
    subst this
    refine ⟨l, i, rfl, Nat.le_refl _, Nat.le_refl _, rfl, ?_, by intro q a b; omega, Or.inl rfl⟩
    intro q
    rw [if_neg (by omega)]
  | succ fuel ih =>
    intro i l h1 h2 h3
    by_cases hi : i < len
    · have hil : i < l.length := by omega
      by_cases heq : l[i].cluster = c
      · obtain ⟨r, k, hr, hk1, hk2, hlen, hq, hall, hstop⟩ :=
          ih (i + 1) (l.set i (setCluster l[i] cluster 0)) (by simp; omega) (by omega) (by omega)
        refine ⟨r, k, ?_, by omega, hk2, by simpa using hlen, ?_, ?_, ?_⟩
        · simp only [relabelInFwd, hi, if_true, get_ok hil, bind, Except.bind]
          simp only [heq, beq_self_eq_true, if_true]
          exact hr
        · intro q
          rw [hq q]
          by_cases hq1 : q = i
          · subst hq1
            rw [if_neg (by omega), if_pos (by omega)]
            rw [List.getElem?_set_self hil, List.getElem?_eq_getElem hil]; rfl
          · rw [List.getElem?_set_ne (by omega)]
            by_cases hr1 : i + 1 ≤ q ∧ q < k
            · rw [if_pos hr1, if_pos (by omega)]
            · rw [if_neg hr1, if_neg (by omega)]
        · intro q a b
          by_cases hq1 : q = i
          · subst hq1; rw [cl?_lt hil, heq]
          · have := hall q (by omega) b
            rwa [cl?_set_ne _ _ _ _ (by omega)] at this
        · rcases hstop with h | h
          · exact Or.inl h
          · right; rwa [cl?_set_ne _ _ _ _ (by omega)] at h
      · refine ⟨l, i, ?_, Nat.le_refl _, by omega, rfl, ?_, by intro q a b; omega, ?_⟩
        · simp only [relabelInFwd, hi, if_true, get_ok hil, bind, Except.bind]
          have : (l[i].cluster == c) = false := by simpa using heq
          simp only [this, Bool.false_eq_true, if_false]; rfl
        · intro q
          rw [if_neg (by omega)]
        · right
          rw [cl?_lt hil]
          intro h; exact heq (Option.some.inj h)
    · have : i = len := by omega
      subst this
      refine ⟨l, i, ?_, Nat.le_refl _, Nat.le_refl _, rfl, ?_, by intro q a b; omega, Or.inl rfl⟩
      · simp only [relabelInFwd, hi, if_false]; rfl
      · intro q
        rw [if_neg (by omega)]

/-! ## well-formed buffers and the logical sequence -/

/-- representation invariant needed by the cluster routines (in/out mode or in-place mode) -/
structure WF (b : Buf) : Prop where
  idx_le : b.idx ≤ b.len
  len_le : b.len ≤ b.info.length
  sep_ok : b.sepOut = true → b.outLen ≤ b.out.length
  nosep_ok : b.sepOut = false → b.outLen ≤ b.idx

theorem WF.of_inv {b : Buf} (h : Inv b) : WF b := ⟨h.idx_le, h.len_le, h.sep_ok, h.nosep_ok⟩

theorem WF.out_cap {b : Buf} (h : WF b) : b.outLen ≤ b.outArr.length := by
  have := h.idx_le; have := h.len_le
  cases hs : b.sepOut with
  | true => have := h.sep_ok hs; simp [outArr, hs]; omega
  | false => have := h.nosep_ok hs; simp [outArr, hs]; omega

/-- everything but the two Vecs is unchanged, and the Vecs keep their lengths -/
def SameShape (b b' : Buf) : Prop :=
  b' = { b with info := b'.info, out := b'.out } ∧ b'.info.length = b.info.length ∧ b'.out.length = b.out.length

theorem SameShape.wf {b b' : Buf} (h : SameShape b b') (hwf : WF b) : WF b' := by
  obtain ⟨h1, h2, h3⟩ := h
  rw [h1]
  exact ⟨hwf.idx_le, by simp; rw [h2]; exact hwf.len_le, by simp; intro hs; rw [h3]; exact hwf.sep_ok hs,
    by simp; exact hwf.nosep_ok⟩

/-- cluster of the q-th glyph of the logical sequence -/
def clq (b : Buf) (q : Nat) : Option Nat := (seq b q).map (·.cluster)

end RbModel.Buf

namespace RbModel.Buf
open RbModel.Mem

/-! ## `merge_clusters_impl` on the two Vecs -/

theorem setOutArr_outArr (b : Buf) (o : List Info) : (b.setOutArr o).outArr = o := by
  unfold setOutArr outArr
  cases b.sepOut <;> simp

theorem setOutArr_info_sep (b : Buf) (o : List Info) (h : b.sepOut = true) : (b.setOutArr o).info = b.info := by
  unfold setOutArr; simp [h]

theorem setOutArr_info_nosep (b : Buf) (o : List Info) (h : b.sepOut = false) : (b.setOutArr o).info = o := by
  unfold setOutArr; simp [h]

theorem ok_bind {α β : Type} (x : α) (k : α → M β) : (Except.ok x >>= k) = k x := rfl

theorem pure_bind' {α β : Type} (x : α) (k : α → M β) : ((pure x : M α) >>= k) = k x := rfl

theorem setOutArr_self (b : Buf) : b.setOutArr b.outArr = b := by
  cases b with
  | mk info out idx len outLen ho sep hp su lv fl sc ml mo se => cases sep <;> rfl

/-- arrays-level meaning of `merge_clusters_impl` (levels 0/1) -/
theorem mergeImpl_arrays (b : Buf) (s e : Nat) (hwf : WF b) (hs : b.idx ≤ s) (hse : s < e) (he : e ≤ b.len)
    (hl : b.level ≠ 2) (hg : Gen.Buf.extendStartGuard = 1) :
    ∃ m e' s' k o' I', b.mergeClustersImpl s e = .ok { b.setOutArr o' with info := I' } ∧
      ((∀ q, s ≤ q → q < e → ∀ v, cl? b.info q = some v → m ≤ v) ∧ ∃ q, s ≤ q ∧ q < e ∧ cl? b.info q = some m) ∧
      (e ≤ e' ∧ e' ≤ b.len ∧ (∀ q, e ≤ q → q < e' → cl? b.info q = cl? b.info (e - 1)) ∧
        (e' = b.len ∨ cl? b.info e' ≠ cl? b.info (e - 1) ∨ cl? b.info (e - 1) = some m)) ∧
      (b.idx ≤ s' ∧ s' ≤ s ∧ (∀ q, s' ≤ q → q ≤ s → cl? b.info q = cl? b.info s) ∧
        (s' = b.idx ∨ cl? b.info (s' - 1) ≠ cl? b.info s ∨ cl? b.info s = some m)) ∧
      (k ≤ b.outLen ∧ o'.length = b.outArr.length ∧
        (∀ q, o'[q]? = if k ≤ q ∧ q < b.outLen then (b.outArr[q]?).map (fun x => setCluster x m 0) else b.outArr[q]?) ∧
        (∀ q, k ≤ q → q < b.outLen → cl? b.outArr q = cl? b.info s) ∧
        (k = b.outLen ∨ s' = b.idx) ∧
        (k = 0 ∨ cl? b.outArr (k - 1) ≠ cl? b.info s ∨ s' ≠ b.idx ∨ cl? b.info s = some m)) ∧
      (I'.length = (b.setOutArr o').info.length ∧
        ∀ q, I'[q]? = if s' ≤ q ∧ q < e' then ((b.setOutArr o').info[q]?).map (fun x => setCluster x m 0)
                      else (b.setOutArr o').info[q]?) := by
  have hidx := hwf.idx_le
  have hlen := hwf.len_le
  have hcap := hwf.out_cap
  have hsl : s < b.info.length := by omega
  have hel : e - 1 < b.info.length := by omega
  unfold mergeClustersImpl
  have hl2 : (b.level == 2) = false := by simpa using hl
  simp only [hl2, Bool.false_eq_true, if_false]
  -- minimum
  obtain ⟨m, hm, hmle, hmall, hmex⟩ := minClusterLoop_spec b.info (e - (s + 1)) (s + 1) b.info[s].cluster (by omega)
  have hmin : (∀ q, s ≤ q → q < e → ∀ v, cl? b.info q = some v → m ≤ v) ∧ ∃ q, s ≤ q ∧ q < e ∧ cl? b.info q = some m := by
    constructor
    · intro q h1 h2 v hv
      by_cases hq : q = s
      · subst hq; rw [cl?_lt hsl] at hv; cases hv; exact hmle
      · exact hmall q (by omega) (by omega) v hv
    · rcases hmex with h | ⟨q, h1, h2, h3⟩
      · exact ⟨s, Nat.le_refl _, hse, by rw [cl?_lt hsl, h]⟩
      · exact ⟨q, by omega, by omega, h3⟩
  -- extend end
  have hend : ∃ e', (if (m != b.info[e - 1].cluster) = true then extendEnd b.info b.len e (b.len - e) else pure e) = .ok e' ∧
      e ≤ e' ∧ e' ≤ b.len ∧ (∀ q, e ≤ q → q < e' → cl? b.info q = cl? b.info (e - 1)) ∧
      (e' = b.len ∨ cl? b.info e' ≠ cl? b.info (e - 1) ∨ cl? b.info (e - 1) = some m) := by
    by_cases hc : m = b.info[e - 1].cluster
    · refine ⟨e, ?_, Nat.le_refl _, he, by intro q a b; omega, Or.inr (Or.inr ?_)⟩
      · have : (m != b.info[e - 1].cluster) = false := by simp [hc]
        simp only [this, Bool.false_eq_true, if_false]; rfl
      · rw [cl?_lt hel, hc]
    · obtain ⟨e', h1, h2, h3, h4, h5⟩ := extendEnd_spec b.info b.len hlen (b.len - e) e (by omega) he (Nat.le_refl _)
      refine ⟨e', ?_, h2, h3, h4, ?_⟩
      · have : (m != b.info[e - 1].cluster) = true := by simpa using hc
        simp only [this, if_true]; exact h1
      · rcases h5 with h | h
        · exact Or.inl h
        · exact Or.inr (Or.inl h)
  obtain ⟨e', hE, hE1, hE2, hE3, hE4⟩ := hend
  -- extend start
  have hstart : ∃ s', (if (m != b.info[s].cluster) = true then
        (if (Gen.Buf.extendStartGuard == 1) = true then extendStart b.info b.idx s else pure s) else pure s) = .ok s' ∧
      b.idx ≤ s' ∧ s' ≤ s ∧ (∀ q, s' ≤ q → q ≤ s → cl? b.info q = cl? b.info s) ∧
      (s' = b.idx ∨ cl? b.info (s' - 1) ≠ cl? b.info s ∨ cl? b.info s = some m) := by
    by_cases hc : m = b.info[s].cluster
    · refine ⟨s, ?_, hs, Nat.le_refl _, ?_, Or.inr (Or.inr ?_)⟩
      · have : (m != b.info[s].cluster) = false := by simp [hc]
        simp only [this, Bool.false_eq_true, if_false]; rfl
      · intro q a b
        have : q = s := by omega
        subst this; rfl
      · rw [cl?_lt hsl, hc]
    · obtain ⟨s', h1, h2, h3, h4, h5⟩ := extendStart_spec b.info b.idx s hsl
      refine ⟨s', ?_, h3 hs, h2, h4, ?_⟩
      · have : (m != b.info[s].cluster) = true := by simpa using hc
        simp only [this, if_true, hg, beq_self_eq_true]; exact h1
      · rcases h5 with h | h
        · left; have := h3 hs; omega
        · exact Or.inr (Or.inl h)
  obtain ⟨s', hS, hS1, hS2, hS3, hS4⟩ := hstart
  have hs'l : s' < b.info.length := by omega
  have hcls' : cl? b.info s' = cl? b.info s := hS3 s' (Nat.le_refl _) hS2
  have hcls'v : b.info[s'].cluster = b.info[s].cluster := by
    rw [cl?_lt hs'l, cl?_lt hsl] at hcls'; exact Option.some.inj hcls'
  -- out-buffer continuation
  have hout : ∃ k o', (((b.idx == s' && b.info[s'].cluster != m) = true →
        relabelOutBack b.outArr b.info[s'].cluster m 0 b.outLen = .ok o') ∧
        ((b.idx == s' && b.info[s'].cluster != m) = false → o' = b.outArr)) ∧
      k ≤ b.outLen ∧ o'.length = b.outArr.length ∧
      (∀ q, o'[q]? = if k ≤ q ∧ q < b.outLen then (b.outArr[q]?).map (fun x => setCluster x m 0) else b.outArr[q]?) ∧
      (∀ q, k ≤ q → q < b.outLen → cl? b.outArr q = cl? b.info s) ∧
      (k = b.outLen ∨ s' = b.idx) ∧
      (k = 0 ∨ cl? b.outArr (k - 1) ≠ cl? b.info s ∨ s' ≠ b.idx ∨ cl? b.info s = some m) := by
    by_cases hc : b.idx = s' ∧ b.info[s'].cluster ≠ m
    · obtain ⟨o', k, h1, h2, h3, h4, h5, h6⟩ := relabelOutBack_spec b.info[s'].cluster m 0 b.outLen b.outArr hcap
      have hcb : (b.idx == s' && b.info[s'].cluster != m) = true := by simp [hc.1, hc.2]
      refine ⟨k, o', ⟨fun _ => h1, fun h => (by rw [hcb] at h; cases h)⟩, h2, h3, h4, ?_, Or.inr hc.1.symm, ?_⟩
      · intro q a c
        rw [h5 q a c, cl?_lt hsl, hcls'v]
      · rcases h6 with h | h
        · exact Or.inl h
        · right; left; rw [cl?_lt hsl, ← hcls'v]; exact h
    · have hcb : (b.idx == s' && b.info[s'].cluster != m) = false := by
        by_cases h1 : b.idx = s'
        · have : b.info[s'].cluster = m := by
            by_cases h2 : b.info[s'].cluster = m
            · exact h2
            · exact absurd ⟨h1, h2⟩ hc
          simp [h1, this]
        · simp [h1]
      refine ⟨b.outLen, b.outArr, ⟨fun h => (by rw [hcb] at h; cases h), fun _ => rfl⟩, Nat.le_refl _, rfl, ?_,
        by intro q a c; omega, Or.inl rfl, ?_⟩
      · intro q; rw [if_neg (by omega)]
      · by_cases h1 : b.idx = s'
        · have : b.info[s'].cluster = m := by
            by_cases h2 : b.info[s'].cluster = m
            · exact h2
            · exact absurd ⟨h1, h2⟩ hc
          right; right; right
          rw [cl?_lt hsl, ← hcls'v, this]
        · right; right; left; exact fun h => h1 h.symm
  obtain ⟨k, o', hO, hO1, hO2, hO3, hO4, hO5, hO6⟩ := hout
  -- final relabelling of [s', e')
  have hilen : (b.setOutArr o').info.length = b.info.length := by
    cases hsep : b.sepOut with
    | true => rw [setOutArr_info_sep b o' hsep]
    | false => rw [setOutArr_info_nosep b o' hsep, hO2]; simp [outArr, hsep]
  obtain ⟨I', hI, hI1, hI2⟩ := setClusterRange_spec m (e' - s') s' (b.setOutArr o').info (by rw [hilen]; omega)
  refine ⟨m, e', s', k, o', I', ?_, hmin, ⟨hE1, hE2, hE3, hE4⟩, ⟨hS1, hS2, hS3, hS4⟩, ⟨hO1, hO2, hO3, hO4, hO5, hO6⟩, hI1, ?_⟩
  · have hne : ¬ e = 0 := by omega
    simp only [get_ok hsl, ok_bind, hm, hne, if_false, get_ok hel]
    by_cases c1 : (m != b.info[e - 1].cluster) = true <;> by_cases c2 : (m != b.info[s].cluster) = true <;>
    simp only [c1, c2, if_true, if_false, Bool.false_eq_true] at hE hS ⊢ <;>
    simp only [hE, hS, ok_bind, pure_bind', get_ok hs'l] <;>
    cases c3 : (b.idx == s' && b.info[s'].cluster != m) <;>
    first
    | (have hoo := hO.2 c3
       subst hoo
       rw [setOutArr_self] at hI ⊢
       simp only [Bool.false_eq_true, if_false, hI, ok_bind]
       rfl)
    | (simp only [if_true, hO.1 c3, ok_bind, hI]
       rfl)
  · intro q
    rw [hI2 q]
    have : s' + (e' - s') = e' := by omega
    rw [this]

end RbModel.Buf

namespace RbModel.Buf
open RbModel.Mem

/-! ## `merge_out_clusters` on the two Vecs -/

/-- arrays-level meaning of `merge_out_clusters` (levels 0/1) -/
theorem mergeOut_arrays (b : Buf) (s e : Nat) (hwf : WF b) (hse : s + 2 ≤ e) (he : e ≤ b.outLen)
    (hl : b.level ≠ 2) :
    ∃ m e' s' k o' I', b.mergeOutClusters s e = .ok ({ b with info := I' }.setOutArr o') ∧
      ((∀ q, s ≤ q → q < e → ∀ v, cl? b.outArr q = some v → m ≤ v) ∧ ∃ q, s ≤ q ∧ q < e ∧ cl? b.outArr q = some m) ∧
      (e ≤ e' ∧ e' ≤ b.outLen ∧ (∀ q, e ≤ q → q < e' → cl? b.outArr q = cl? b.outArr (e - 1)) ∧
        (e' = b.outLen ∨ cl? b.outArr e' ≠ cl? b.outArr (e - 1))) ∧
      (s' ≤ s ∧ (∀ q, s' ≤ q → q ≤ s → cl? b.outArr q = cl? b.outArr s) ∧
        (s' = 0 ∨ cl? b.outArr (s' - 1) ≠ cl? b.outArr s)) ∧
      (b.idx ≤ k ∧ k ≤ b.len ∧ I'.length = b.info.length ∧
        (∀ q, I'[q]? = if b.idx ≤ q ∧ q < k then (b.info[q]?).map (fun x => setCluster x m 0) else b.info[q]?) ∧
        (∀ q, b.idx ≤ q → q < k → cl? b.info q = cl? b.outArr (e - 1)) ∧
        (k = b.idx ∨ e' = b.outLen) ∧
        (k = b.len ∨ cl? b.info k ≠ cl? b.outArr (e - 1) ∨ e' ≠ b.outLen)) ∧
      (o'.length = ({ b with info := I' } : Buf).outArr.length ∧
        ∀ q, o'[q]? = if s' ≤ q ∧ q < e' then (({ b with info := I' } : Buf).outArr[q]?).map (fun x => setCluster x m 0)
                      else ({ b with info := I' } : Buf).outArr[q]?) := by
  have hidx := hwf.idx_le
  have hlen := hwf.len_le
  have hcap := hwf.out_cap
  have hsl : s < b.outArr.length := by omega
  have hel : e - 1 < b.outArr.length := by omega
  unfold mergeOutClusters
  have hl2 : (b.level == 2) = false := by simpa using hl
  have hlt : ¬ e - s < 2 := by omega
  simp only [hl2, Bool.false_eq_true, if_false, hlt]
  obtain ⟨m, hm, hmle, hmall, hmex⟩ := minClusterLoop_spec b.outArr (e - (s + 1)) (s + 1) b.outArr[s].cluster (by omega)
  have hmin : (∀ q, s ≤ q → q < e → ∀ v, cl? b.outArr q = some v → m ≤ v) ∧ ∃ q, s ≤ q ∧ q < e ∧ cl? b.outArr q = some m := by
    constructor
    · intro q h1 h2 v hv
      by_cases hq : q = s
      · subst hq; rw [cl?_lt hsl] at hv; cases hv; exact hmle
      · exact hmall q (by omega) (by omega) v hv
    · rcases hmex with h | ⟨q, h1, h2, h3⟩
      · exact ⟨s, Nat.le_refl _, by omega, by rw [cl?_lt hsl, h]⟩
      · exact ⟨q, by omega, by omega, h3⟩
  obtain ⟨s', hS, hS1, hS2, hS3⟩ := extendStartOut_spec b.outArr s hsl
  obtain ⟨e', hE, hE1, hE2, hE3, hE4⟩ := extendEnd_spec b.outArr b.outLen hcap (b.outLen - e) e (by omega) he (Nat.le_refl _)
  have he'l : e' - 1 < b.outArr.length := by omega
  have hcle' : cl? b.outArr (e' - 1) = cl? b.outArr (e - 1) := by
    by_cases h : e' = e
    · rw [h]
    · exact hE3 (e' - 1) (by omega) (by omega)
  have hcle'v : b.outArr[e' - 1].cluster = b.outArr[e - 1].cluster := by
    rw [cl?_lt he'l, cl?_lt hel] at hcle'; exact Option.some.inj hcle'
  -- continuation into the unconsumed input
  have hin : ∃ k I', (((e' == b.outLen) = true →
        relabelInFwd b.info b.len b.outArr[e' - 1].cluster m b.idx (b.len - b.idx) = .ok I') ∧
        ((e' == b.outLen) = false → I' = b.info)) ∧
      b.idx ≤ k ∧ k ≤ b.len ∧ I'.length = b.info.length ∧
      (∀ q, I'[q]? = if b.idx ≤ q ∧ q < k then (b.info[q]?).map (fun x => setCluster x m 0) else b.info[q]?) ∧
      (∀ q, b.idx ≤ q → q < k → cl? b.info q = cl? b.outArr (e - 1)) ∧
      (k = b.idx ∨ e' = b.outLen) ∧
      (k = b.len ∨ cl? b.info k ≠ cl? b.outArr (e - 1) ∨ e' ≠ b.outLen) := by
    by_cases hc : e' = b.outLen
    · obtain ⟨I', k, h1, h2, h3, h4, h5, h6, h7⟩ :=
        relabelInFwd_spec b.len b.outArr[e' - 1].cluster m (b.len - b.idx) b.idx b.info hlen hidx (Nat.le_refl _)
      have hcb : (e' == b.outLen) = true := by simp [hc]
      refine ⟨k, I', ⟨fun _ => h1, fun h => (by rw [hcb] at h; cases h)⟩, h2, h3, h4, h5, ?_, Or.inr hc, ?_⟩
      · intro q a c
        rw [h6 q a c, cl?_lt hel, hcle'v]
      · rcases h7 with h | h
        · exact Or.inl h
        · right; left; rw [cl?_lt hel, ← hcle'v]; exact h
    · have hcb : (e' == b.outLen) = false := by simp [hc]
      refine ⟨b.idx, b.info, ⟨fun h => (by rw [hcb] at h; cases h), fun _ => rfl⟩, Nat.le_refl _, hidx, rfl, ?_,
        by intro q a c; omega, Or.inl rfl, Or.inr (Or.inr hc)⟩
      intro q; rw [if_neg (by omega)]
  obtain ⟨k, I', hI, hI1, hI2, hI3, hI4, hI5, hI6, hI7⟩ := hin
  have holen : ({ b with info := I' } : Buf).outArr.length = b.outArr.length := by
    cases hsep : b.sepOut with
    | true => simp [outArr, hsep]
    | false => simp [outArr, hsep, hI3]
  obtain ⟨o', hO, hO1, hO2⟩ := setClusterRange_spec m (e' - s') s' ({ b with info := I' } : Buf).outArr (by rw [holen]; omega)
  refine ⟨m, e', s', k, o', I', ?_, hmin, ⟨hE1, hE2, hE3, hE4⟩, ⟨hS1, hS2, hS3⟩, ⟨hI1, hI2, hI3, hI4, hI5, hI6, hI7⟩, hO1, ?_⟩
  · have hne : ¬ e' = 0 := by omega
    simp only [get_ok hsl, ok_bind, hm, hS, hE]
    cases c3 : (e' == b.outLen)
    · have hii := hI.2 c3
      subst hii
      simp only [Bool.false_eq_true, if_false, pure_bind']
      have : ({ b with info := b.info } : Buf) = b := rfl
      rw [this] at hO
      simp only [hO, ok_bind]
      rfl
    · simp only [if_true, hne, if_false, get_ok he'l, ok_bind, hI.1 c3, hO, pure_bind']
      rfl
  · intro q
    rw [hO2 q]
    have : s' + (e' - s') = e' := by omega
    rw [this]

end RbModel.Buf

namespace RbModel.Buf
open RbModel.Mem

/-! ## the merges on the logical sequence -/

/-- the logical glyph sequence as a list: out-prefix followed by the unconsumed input -/
def lview (b : Buf) : List Info :=
  b.outArr.take b.outLen ++ (b.info.drop b.idx).take (b.len - b.idx)

theorem lview_getElem? (b : Buf) (hwf : WF b) (q : Nat) : (lview b)[q]? = seq b q := by
  have hidx := hwf.idx_le
  have hlen := hwf.len_le
  have hcap := hwf.out_cap
  have hl1 : (b.outArr.take b.outLen).length = b.outLen := by simp; omega
  unfold lview seq
  by_cases h1 : q < b.outLen
  · simp only [h1, if_true]
    rw [List.getElem?_append_left (by omega), List.getElem?_take]
    simp [h1]
  · simp only [h1, if_false]
    rw [List.getElem?_append_right (by omega), hl1, List.getElem?_take]
    by_cases h2 : q - b.outLen < b.len - b.idx
    · simp only [h2, if_true, List.getElem?_drop]
    · simp only [h2, if_false]

theorem lview_length (b : Buf) (hwf : WF b) : (lview b).length = total b := by
  have hidx := hwf.idx_le
  have hlen := hwf.len_le
  have hcap := hwf.out_cap
  unfold lview total
  simp; omega

theorem lview_cl_out (b : Buf) (hwf : WF b) (q : Nat) (h : q < b.outLen) : cl? (lview b) q = cl? b.outArr q := by
  unfold cl?; rw [lview_getElem? b hwf]; unfold seq; simp [h]

theorem lview_cl_in (b : Buf) (hwf : WF b) (q : Nat) (h1 : b.outLen ≤ q) (h2 : q < total b) :
    cl? (lview b) q = cl? b.info (b.idx + (q - b.outLen)) := by
  unfold cl?; rw [lview_getElem? b hwf]; unfold seq total at *
  have h3 : ¬ q < b.outLen := by omega
  have h4 : q - b.outLen < b.len - b.idx := by omega
  simp [h3, h4]

/-- positions whose cluster a merge of `[S,E)` rewrites: the range itself, the rest of the cluster run of its last
    glyph to the right, the rest of the cluster run of its first glyph to the left -/
def Zone (L : List Info) (S E q : Nat) : Prop :=
  (S ≤ q ∧ q < E) ∨ (E ≤ q ∧ ∀ r, E - 1 ≤ r → r ≤ q → cl? L r = cl? L (E - 1)) ∨
  (q < S ∧ ∀ r, q ≤ r → r ≤ S → cl? L r = cl? L S)

/-- `L'` is `L` with the clusters of `[S,E)` merged: every glyph of the zone gets the minimum `m` (and loses its
    glyph flags when its cluster changes), nothing else changes -/
structure IsMerge (L L' : List Info) (S E m : Nat) : Prop where
  len : L'.length = L.length
  min_le : ∀ q, S ≤ q → q < E → ∀ v, cl? L q = some v → m ≤ v
  min_mem : ∃ q, S ≤ q ∧ q < E ∧ cl? L q = some m
  inz : ∀ q, Zone L S E q → L'[q]? = (L[q]?).map (fun x => setCluster x m 0)
  outz : ∀ q, ¬ Zone L S E q → L'[q]? = L[q]?

theorem setCluster_same (x : Info) (m mask : Nat) (h : x.cluster = m) : setCluster x m mask = x := by
  cases x with
  | mk g mk c v1 v2 =>
    simp only at h
    subst h
    simp [setCluster]

theorem map_setCluster_same (l : List Info) (q m : Nat) (h : cl? l q = some m) :
    (l[q]?).map (fun x => setCluster x m 0) = l[q]? := by
  unfold cl? at h
  cases hx : l[q]? with
  | none => rfl
  | some x =>
    rw [hx] at h
    simp at h
    simp [setCluster_same x m 0 h]

theorem mergeClusters_isMerge (b : Buf) (s e : Nat) (hwf : WF b) (hs : b.idx ≤ s) (hse : s + 2 ≤ e) (he : e ≤ b.len)
    (hl : b.level ≠ 2) (hg : Gen.Buf.extendStartGuard = 1) :
    ∃ b' m, b.mergeClusters s e = .ok b' ∧ SameShape b b' ∧
      IsMerge (lview b) (lview b') (b.outLen + (s - b.idx)) (b.outLen + (e - b.idx)) m := by
  have hidx := hwf.idx_le
  have hlen := hwf.len_le
  have hcap := hwf.out_cap
  obtain ⟨m, e', s', k, o', I', hr, ⟨hm1, hm2⟩, ⟨hE1, hE2, hE3, hE4⟩, ⟨hS1, hS2, hS3, hS4⟩,
    ⟨hO1, hO2, hO3, hO4, hO5, hO6⟩, hI1, hI2⟩ := mergeImpl_arrays b s e hwf hs (by omega) he hl hg
  have hilen : (b.setOutArr o').info.length = b.info.length := by
    cases hsep : b.sepOut with
    | true => rw [setOutArr_info_sep b o' hsep]
    | false => rw [setOutArr_info_nosep b o' hsep, hO2]; simp [outArr, hsep]
  have hshape : SameShape b { b.setOutArr o' with info := I' } := by
    refine ⟨?_, by simp; rw [hI1, hilen], ?_⟩
    · cases hsep : b.sepOut <;> simp [setOutArr, hsep]
    · cases hsep : b.sepOut with
      | true => simp [setOutArr, hsep]; simpa [outArr, hsep] using hO2
      | false => simp [setOutArr, hsep]
  refine ⟨_, m, ?_, hshape, ?_⟩
  · unfold mergeClusters
    have : ¬ e - s < 2 := by omega
    simp only [this, if_false]; exact hr
  -- the two Vecs of the result, read through the logical sequence
  have hwf' := hshape.wf hwf
  have hOutArr : ∀ q, q < b.outLen →
      ({ b.setOutArr o' with info := I' } : Buf).outArr[q]? =
        if k ≤ q then (b.outArr[q]?).map (fun x => setCluster x m 0) else b.outArr[q]? := by
    intro q hq
    have : ({ b.setOutArr o' with info := I' } : Buf).outArr[q]? = o'[q]? := by
      cases hsep : b.sepOut with
      | true => simp [outArr, setOutArr, hsep]
      | false =>
        have hns := hwf.nosep_ok hsep
        have h1 : ({ b.setOutArr o' with info := I' } : Buf).outArr = I' := by simp [outArr, setOutArr, hsep]
        rw [h1, hI2 q, if_neg (by omega), setOutArr_info_nosep b o' hsep]
    rw [this, hO3 q]
    by_cases hk : k ≤ q
    · rw [if_pos ⟨hk, hq⟩, if_pos hk]
    · rw [if_neg (by omega), if_neg hk]
  have hInfo : ∀ p, b.idx ≤ p →
      I'[p]? = if s' ≤ p ∧ p < e' then (b.info[p]?).map (fun x => setCluster x m 0) else b.info[p]? := by
    intro p hp
    have : (b.setOutArr o').info[p]? = b.info[p]? := by
      cases hsep : b.sepOut with
      | true => rw [setOutArr_info_sep b o' hsep]
      | false =>
        have hns := hwf.nosep_ok hsep
        rw [setOutArr_info_nosep b o' hsep, hO3 p, if_neg (by omega)]
        simp [outArr, hsep]
    rw [hI2 p, this]
  have hseq' : ∀ q, seq ({ b.setOutArr o' with info := I' } : Buf) q =
      if q < b.outLen then ({ b.setOutArr o' with info := I' } : Buf).outArr[q]?
      else if q - b.outLen < b.len - b.idx then I'[b.idx + (q - b.outLen)]? else none := by
    intro q
    cases hsep : b.sepOut <;> simp [seq, setOutArr, hsep, outArr]
  -- clusters of the logical sequence in terms of the two Vecs
  have hA : ∀ r, b.outLen ≤ r → r < total b → cl? (lview b) r = cl? b.info (b.idx + (r - b.outLen)) :=
    fun r h1 h2 => lview_cl_in b hwf r h1 h2
  have hB : ∀ r, r < b.outLen → cl? (lview b) r = cl? b.outArr r := fun r h => lview_cl_out b hwf r h
  have htot : total b = b.outLen + (b.len - b.idx) := rfl
  have hclS : cl? (lview b) (b.outLen + (s - b.idx)) = cl? b.info s := by
    rw [hA _ (by omega) (by omega)]; congr 1; omega
  have hclE : cl? (lview b) (b.outLen + (e - b.idx) - 1) = cl? b.info (e - 1) := by
    rw [hA _ (by omega) (by omega)]; congr 1; omega
  have hsl : s < b.info.length := by omega
  have hel : e - 1 < b.info.length := by omega
  refine ⟨?_, ?_, ?_, ?_, ?_⟩
  · rw [lview_length _ hwf', lview_length _ hwf]
    cases hsep : b.sepOut <;> simp [total, setOutArr, hsep]
  · intro q h1 h2 v hv
    rw [hA q (by omega) (by omega)] at hv
    exact hm1 _ (by omega) (by omega) v hv
  · obtain ⟨q0, h1, h2, h3⟩ := hm2
    refine ⟨b.outLen + (q0 - b.idx), by omega, by omega, ?_⟩
    rw [hA _ (by omega) (by omega), ← h3]; congr 1; omega
  · -- inside the zone
    intro q hz
    rw [lview_getElem? _ hwf', lview_getElem? _ hwf, hseq' q]
    by_cases hq : q < b.outLen
    · rw [if_pos hq, hOutArr q hq]
      have hsq : seq b q = b.outArr[q]? := by simp [seq, hq]
      rw [hsq]
      by_cases hk : k ≤ q
      · rw [if_pos hk]
      · rw [if_neg hk]
        -- then the run condition of the zone forces cluster = m (no-op) 
        rcases hz with ⟨h1, _⟩ | ⟨h1, _⟩ | ⟨_, hrun⟩
        · omega
        · omega
        · symm
          apply map_setCluster_same
          have hrunq := hrun q (Nat.le_refl _) (by omega)
          rw [hB q hq, hclS] at hrunq
          rw [hrunq]
          -- cl s = m, otherwise the loops would have reached q
          have hallin : ∀ p, b.idx ≤ p → p ≤ s → cl? b.info p = cl? b.info s := by
            intro p h1 h2
            have := hrun (b.outLen + (p - b.idx)) (by omega) (by omega)
            rw [hA _ (by omega) (by omega), hclS] at this
            rw [← this]; congr 1; omega
          have hallout : ∀ r, q ≤ r → r < b.outLen → cl? b.outArr r = cl? b.info s := by
            intro r h1 h2
            have := hrun r h1 (by omega)
            rwa [hB r h2, hclS] at this
          rcases hS4 with h | h | h
          · rcases hO6 with h6 | h6 | h6 | h6
            · omega
            · exact absurd (hallout (k - 1) (by omega) (by omega)) h6
            · exact absurd h h6
            · exact h6
          · by_cases hs0 : s' = b.idx
            · rcases hO6 with h6 | h6 | h6 | h6
              · omega
              · exact absurd (hallout (k - 1) (by omega) (by omega)) h6
              · exact absurd hs0 h6
              · exact h6
            · exact absurd (hallin (s' - 1) (by omega) (by omega)) h
          · exact h
    · rw [if_neg hq]
      by_cases hq2 : q - b.outLen < b.len - b.idx
      · rw [if_pos hq2, hInfo _ (by omega)]
        have hsq : seq b q = b.info[b.idx + (q - b.outLen)]? := by simp [seq, hq, hq2]
        rw [hsq]
        by_cases hp : s' ≤ b.idx + (q - b.outLen) ∧ b.idx + (q - b.outLen) < e'
        · rw [if_pos hp]
        · rw [if_neg hp]
          symm
          apply map_setCluster_same
          rcases hz with ⟨h1, h2⟩ | ⟨h1, hrun⟩ | ⟨h1, hrun⟩
          · omega
          · -- right of the range
            have hallin : ∀ p, e - 1 ≤ p → p ≤ b.idx + (q - b.outLen) → cl? b.info p = cl? b.info (e - 1) := by
              intro p h3 h4
              have := hrun (b.outLen + (p - b.idx)) (by omega) (by omega)
              rw [hA _ (by omega) (by omega), hclE] at this
              rw [← this]; congr 1; omega
            rw [hallin _ (by omega) (Nat.le_refl _)]
            rcases hE4 with h | h | h
            · omega
            · exact absurd (hallin e' (by omega) (by omega)) h
            · exact h
          · -- left of the range
            have hallin : ∀ p, b.idx + (q - b.outLen) ≤ p → p ≤ s → cl? b.info p = cl? b.info s := by
              intro p h3 h4
              have := hrun (b.outLen + (p - b.idx)) (by omega) (by omega)
              rw [hA _ (by omega) (by omega), hclS] at this
              rw [← this]; congr 1; omega
            rw [hallin _ (Nat.le_refl _) (by omega)]
            rcases hS4 with h | h | h
            · omega
            · exact absurd (hallin (s' - 1) (by omega) (by omega)) h
            · exact h
      · rw [if_neg hq2]
        have hsq : seq b q = none := by simp [seq, hq, hq2]
        rw [hsq]; rfl
  · -- outside the zone
    intro q hz
    rw [lview_getElem? _ hwf', lview_getElem? _ hwf, hseq' q]
    by_cases hq : q < b.outLen
    · rw [if_pos hq, hOutArr q hq]
      have hsq : seq b q = b.outArr[q]? := by simp [seq, hq]
      rw [hsq]
      by_cases hk : k ≤ q
      · exfalso
        apply hz
        right; right
        refine ⟨by omega, ?_⟩
        intro r h1 h2
        have hs'i : s' = b.idx := by
          rcases hO5 with h | h
          · omega
          · exact h
        rw [hclS]
        by_cases hr : r < b.outLen
        · rw [hB r hr]; exact hO4 r (by omega) hr
        · rw [hA r (by omega) (by omega)]
          exact hS3 _ (by omega) (by omega)
      · rw [if_neg hk]
    · rw [if_neg hq]
      by_cases hq2 : q - b.outLen < b.len - b.idx
      · rw [if_pos hq2, hInfo _ (by omega)]
        have hsq : seq b q = b.info[b.idx + (q - b.outLen)]? := by simp [seq, hq, hq2]
        rw [hsq]
        by_cases hp : s' ≤ b.idx + (q - b.outLen) ∧ b.idx + (q - b.outLen) < e'
        · exfalso
          apply hz
          by_cases h1 : b.idx + (q - b.outLen) < s
          · right; right
            refine ⟨by omega, ?_⟩
            intro r h2 h3
            rw [hclS, hA r (by omega) (by omega)]
            exact hS3 _ (by omega) (by omega)
          · by_cases h2 : b.idx + (q - b.outLen) < e
            · left; omega
            · right; left
              refine ⟨by omega, ?_⟩
              intro r h3 h4
              rw [hclE, hA r (by omega) (by omega)]
              by_cases h5 : b.idx + (r - b.outLen) = e - 1
              · rw [h5]
              · exact hE3 _ (by omega) (by omega)
        · rw [if_neg hp]
      · rw [if_neg hq2]
        have hsq : seq b q = none := by simp [seq, hq, hq2]
        rw [hsq]

end RbModel.Buf

namespace RbModel.Buf
open RbModel.Mem

theorem mergeOutClusters_isMerge (b : Buf) (s e : Nat) (hwf : WF b) (hse : s + 2 ≤ e) (he : e ≤ b.outLen)
    (hl : b.level ≠ 2) :
    ∃ b' m, b.mergeOutClusters s e = .ok b' ∧ SameShape b b' ∧ IsMerge (lview b) (lview b') s e m := by
  have hidx := hwf.idx_le
  have hlen := hwf.len_le
  have hcap := hwf.out_cap
  obtain ⟨m, e', s', k, o', I', hr, ⟨hm1, hm2⟩, ⟨hE1, hE2, hE3, hE4⟩, ⟨hS1, hS2, hS3⟩,
    ⟨hI1, hI2, hI3, hI4, hI5, hI6, hI7⟩, hO1, hO2⟩ := mergeOut_arrays b s e hwf hse he hl
  have holen : ({ b with info := I' } : Buf).outArr.length = b.outArr.length := by
    cases hsep : b.sepOut with
    | true => simp [outArr, hsep]
    | false => simp [outArr, hsep, hI3]
  have hshape : SameShape b (({ b with info := I' } : Buf).setOutArr o') := by
    cases hsep : b.sepOut with
    | true =>
      refine ⟨by simp [setOutArr, hsep], by simp [setOutArr, hsep, hI3], ?_⟩
      simp [setOutArr, hsep]; rw [hO1]; simp [outArr, hsep]
    | false =>
      refine ⟨by simp [setOutArr, hsep], ?_, by simp [setOutArr, hsep]⟩
      simp [setOutArr, hsep]; rw [hO1]; simp [outArr, hsep, hI3]
  refine ⟨_, m, hr, hshape, ?_⟩
  have hwf' := hshape.wf hwf
  -- out-buffer of the intermediate state, below out_len
  have hMid : ∀ q, q < b.outLen → ({ b with info := I' } : Buf).outArr[q]? = b.outArr[q]? := by
    intro q hq
    cases hsep : b.sepOut with
    | true => simp [outArr, hsep]
    | false =>
      have hns := hwf.nosep_ok hsep
      simp only [outArr, hsep, Bool.false_eq_true, if_false]
      rw [hI4 q, if_neg (by omega)]
  have hOutArr : ∀ q, q < b.outLen →
      (({ b with info := I' } : Buf).setOutArr o').outArr[q]? =
        if s' ≤ q ∧ q < e' then (b.outArr[q]?).map (fun x => setCluster x m 0) else b.outArr[q]? := by
    intro q hq
    rw [setOutArr_outArr, hO2 q, hMid q hq]
  have hInfo : ∀ p, b.idx ≤ p →
      (({ b with info := I' } : Buf).setOutArr o').info[p]? =
        if b.idx ≤ p ∧ p < k then (b.info[p]?).map (fun x => setCluster x m 0) else b.info[p]? := by
    intro p hp
    cases hsep : b.sepOut with
    | true =>
      rw [setOutArr_info_sep _ o' (by simp [hsep])]
      exact hI4 p
    | false =>
      have hns := hwf.nosep_ok hsep
      rw [setOutArr_info_nosep _ o' (by simp [hsep]), hO2 p, if_neg (by omega)]
      simp only [outArr, hsep, Bool.false_eq_true, if_false]
      exact hI4 p
  have hseq' : ∀ q, seq (({ b with info := I' } : Buf).setOutArr o') q =
      if q < b.outLen then (({ b with info := I' } : Buf).setOutArr o').outArr[q]?
      else if q - b.outLen < b.len - b.idx then (({ b with info := I' } : Buf).setOutArr o').info[b.idx + (q - b.outLen)]?
      else none := by
    intro q
    cases hsep : b.sepOut <;> simp [seq, setOutArr, hsep, outArr]
  have hA : ∀ r, b.outLen ≤ r → r < total b → cl? (lview b) r = cl? b.info (b.idx + (r - b.outLen)) :=
    fun r h1 h2 => lview_cl_in b hwf r h1 h2
  have hB : ∀ r, r < b.outLen → cl? (lview b) r = cl? b.outArr r := fun r h => lview_cl_out b hwf r h
  have htot : total b = b.outLen + (b.len - b.idx) := rfl
  refine ⟨?_, ?_, ?_, ?_, ?_⟩
  · rw [lview_length _ hwf', lview_length _ hwf]
    cases hsep : b.sepOut <;> simp [total, setOutArr, hsep]
  · intro q h1 h2 v hv
    rw [hB q (by omega)] at hv
    exact hm1 q h1 h2 v hv
  · obtain ⟨q0, h1, h2, h3⟩ := hm2
    exact ⟨q0, h1, h2, by rw [hB q0 (by omega)]; exact h3⟩
  · intro q hz
    rw [lview_getElem? _ hwf', lview_getElem? _ hwf, hseq' q]
    by_cases hq : q < b.outLen
    · rw [if_pos hq, hOutArr q hq]
      have hsq : seq b q = b.outArr[q]? := by simp [seq, hq]
      rw [hsq]
      have hin : s' ≤ q ∧ q < e' := by
        rcases hz with ⟨h1, h2⟩ | ⟨h1, hrun⟩ | ⟨h1, hrun⟩
        · omega
        · refine ⟨by omega, ?_⟩
          rcases hE4 with h | h
          · omega
          · by_cases h2 : q < e'
            · exact h2
            · have := hrun e' (by omega) (by omega)
              rw [hB e' (by omega), hB (e - 1) (by omega)] at this
              exact absurd this h
        · refine ⟨?_, by omega⟩
          rcases hS3 with h | h
          · omega
          · by_cases h2 : s' ≤ q
            · exact h2
            · have := hrun (s' - 1) (by omega) (by omega)
              rw [hB (s' - 1) (by omega), hB s (by omega)] at this
              exact absurd this h
      rw [if_pos hin]
    · rw [if_neg hq]
      by_cases hq2 : q - b.outLen < b.len - b.idx
      · rw [if_pos hq2, hInfo _ (by omega)]
        have hsq : seq b q = b.info[b.idx + (q - b.outLen)]? := by simp [seq, hq, hq2]
        rw [hsq]
        have hin : b.idx ≤ b.idx + (q - b.outLen) ∧ b.idx + (q - b.outLen) < k := by
          refine ⟨by omega, ?_⟩
          rcases hz with ⟨h1, h2⟩ | ⟨h1, hrun⟩ | ⟨h1, hrun⟩
          · omega
          · have he' : e' = b.outLen := by
              rcases hE4 with h | h
              · exact h
              · by_cases h0 : e' = b.outLen
                · exact h0
                · have := hrun e' (by omega) (by omega)
                  rw [hB e' (by omega), hB (e - 1) (by omega)] at this
                  exact absurd this h
            rcases hI7 with h | h | h
            · omega
            · by_cases h2 : b.idx + (q - b.outLen) < k
              · exact h2
              · have := hrun (b.outLen + (k - b.idx)) (by omega) (by omega)
                rw [hA _ (by omega) (by omega), hB (e - 1) (by omega)] at this
                have h3 : b.idx + (b.outLen + (k - b.idx) - b.outLen) = k := by omega
                rw [h3] at this
                exact absurd this h
            · exact absurd he' h
          · omega
        rw [if_pos hin]
      · rw [if_neg hq2]
        have hsq : seq b q = none := by simp [seq, hq, hq2]
        rw [hsq]; rfl
  · intro q hz
    rw [lview_getElem? _ hwf', lview_getElem? _ hwf, hseq' q]
    by_cases hq : q < b.outLen
    · rw [if_pos hq, hOutArr q hq]
      have hsq : seq b q = b.outArr[q]? := by simp [seq, hq]
      rw [hsq]
      by_cases hp : s' ≤ q ∧ q < e'
      · exfalso
        apply hz
        by_cases h1 : q < s
        · right; right
          refine ⟨h1, ?_⟩
          intro r h2 h3
          rw [hB r (by omega), hB s (by omega)]
          exact hS2 r (by omega) h3
        · by_cases h2 : q < e
          · left; omega
          · right; left
            refine ⟨by omega, ?_⟩
            intro r h3 h4
            rw [hB r (by omega), hB (e - 1) (by omega)]
            by_cases h5 : r = e - 1
            · rw [h5]
            · exact hE3 r (by omega) (by omega)
      · rw [if_neg hp]
    · rw [if_neg hq]
      by_cases hq2 : q - b.outLen < b.len - b.idx
      · rw [if_pos hq2, hInfo _ (by omega)]
        have hsq : seq b q = b.info[b.idx + (q - b.outLen)]? := by simp [seq, hq, hq2]
        rw [hsq]
        by_cases hp : b.idx ≤ b.idx + (q - b.outLen) ∧ b.idx + (q - b.outLen) < k
        · exfalso
          apply hz
          right; left
          have he' : e' = b.outLen := by
            rcases hI6 with h | h
            · omega
            · exact h
          refine ⟨by omega, ?_⟩
          intro r h3 h4
          rw [hB (e - 1) (by omega)]
          by_cases hr : r < b.outLen
          · rw [hB r hr]
            by_cases h5 : r = e - 1
            · rw [h5]
            · exact hE3 r (by omega) (by omega)
          · rw [hA r (by omega) (by omega)]
            exact hI5 _ (by omega) (by omega)
        · rw [if_neg hp]
      · rw [if_neg hq2]
        have hsq : seq b q = none := by simp [seq, hq, hq2]
        rw [hsq]

end RbModel.Buf

namespace RbModel.Buf
open RbModel.Mem

/-! ## consequences of `IsMerge` (pure list reasoning) -/

/-- cluster values never decrease along the list -/
def NonDecr (L : List Info) : Prop := ∀ i j a b, i ≤ j → cl? L i = some a → cl? L j = some b → a ≤ b
/-- cluster values never increase along the list -/
def NonIncr (L : List Info) : Prop := ∀ i j a b, i ≤ j → cl? L i = some a → cl? L j = some b → b ≤ a
/-- every cluster value of `L'` occurs in `L` -/
def ValuesSubset (L' L : List Info) : Prop := ∀ q v, cl? L' q = some v → ∃ p, cl? L p = some v
/-- `μ` is the smallest cluster value of `L` -/
def IsMinCluster (μ : Nat) (L : List Info) : Prop := (∀ q v, cl? L q = some v → μ ≤ v) ∧ ∃ q, cl? L q = some μ
/-- glyphs that shared a cluster still share one -/
def Coarsens (L L' : List Info) : Prop := ∀ i j v, cl? L i = some v → cl? L j = some v → cl? L' i = cl? L' j

theorem cl?_some_lt {L : List Info} {q v : Nat} (h : cl? L q = some v) : q < L.length := by
  unfold cl? at h
  cases hx : L[q]? with
  | none => rw [hx] at h; cases h
  | some x => exact (List.getElem?_eq_some_iff.1 hx).1

theorem setCluster_cluster (x : Info) (c mask : Nat) : (setCluster x c mask).cluster = c := rfl

namespace IsMerge
variable {L L' : List Info} {S E m : Nat}

theorem cl_in (h : IsMerge L L' S E m) {q v : Nat} (hz : Zone L S E q) (hv : cl? L q = some v) : cl? L' q = some m := by
  unfold cl? at *
  rw [h.inz q hz]
  cases hx : L[q]? with
  | none => rw [hx] at hv; cases hv
  | some x => simp [setCluster_cluster]

theorem cl_out (h : IsMerge L L' S E m) {q : Nat} (hz : ¬ Zone L S E q) : cl? L' q = cl? L q := by
  unfold cl?; rw [h.outz q hz]

theorem cl_defined (h : IsMerge L L' S E m) {q v' : Nat} (hv : cl? L' q = some v') : ∃ v, cl? L q = some v := by
  have h1 := cl?_some_lt hv
  rw [h.len] at h1
  exact ⟨_, cl?_lt h1⟩

/-- a glyph of the zone carries a cluster ≥ the minimum of the range -/
theorem zone_ge (h : IsMerge L L' S E m) (hSE : S < E) {q v : Nat} (hz : Zone L S E q) (hv : cl? L q = some v) : m ≤ v := by
  rcases hz with ⟨h1, h2⟩ | ⟨h1, hrun⟩ | ⟨h1, hrun⟩
  · exact h.min_le q h1 h2 v hv
  · have := hrun q (by omega) (Nat.le_refl _)
    rw [hv] at this
    exact h.min_le (E - 1) (by omega) (by omega) v this.symm
  · have := hrun q (Nat.le_refl _) (by omega)
    rw [hv] at this
    exact h.min_le S (Nat.le_refl _) hSE v this.symm

theorem cl_cases (h : IsMerge L L' S E m) {q v' : Nat} (hv : cl? L' q = some v') :
    (Zone L S E q ∧ v' = m) ∨ (¬ Zone L S E q ∧ cl? L q = some v') := by
  obtain ⟨v, hv0⟩ := h.cl_defined hv
  by_cases hz : Zone L S E q
  · left; rw [h.cl_in hz hv0] at hv; exact ⟨hz, (Option.some.inj hv).symm⟩
  · right; rw [h.cl_out hz] at hv; exact ⟨hz, hv⟩

theorem values_subset (h : IsMerge L L' S E m) : ValuesSubset L' L := by
  intro q v' hv
  rcases h.cl_cases hv with ⟨_, h2⟩ | ⟨_, h2⟩
  · obtain ⟨q0, _, _, h3⟩ := h.min_mem
    exact ⟨q0, by rw [h2]; exact h3⟩
  · exact ⟨q, h2⟩

theorem min_kept (h : IsMerge L L' S E m) (hSE : S < E) {μ : Nat} (hmin : IsMinCluster μ L) : IsMinCluster μ L' := by
  obtain ⟨hlow, q, hq⟩ := hmin
  constructor
  · intro q' v' hv'
    obtain ⟨p, hp⟩ := h.values_subset q' v' hv'
    exact hlow p v' hp
  · by_cases hz : Zone L S E q
    · have h1 := h.zone_ge hSE hz hq
      obtain ⟨q0, _, _, h3⟩ := h.min_mem
      have h2 := hlow q0 m h3
      have : m = μ := by omega
      exact ⟨q, by rw [h.cl_in hz hq, this]⟩
    · exact ⟨q, by rw [h.cl_out hz]; exact hq⟩

/-- zone membership propagates towards the range on the left side -/
theorem zone_left_closed (hSE : S < E) {i j : Nat} (hi : Zone L S E i) (hij : i ≤ j) (hj : j < S) : Zone L S E j := by
  rcases hi with ⟨h1, h2⟩ | ⟨h1, hrun⟩ | ⟨h1, hrun⟩
  · omega
  · omega
  · right; right
    exact ⟨hj, fun r a b => hrun r (by omega) b⟩

/-- zone membership propagates towards the range on the right side -/
theorem zone_right_closed (hSE : S < E) {i j : Nat} (hj : Zone L S E j) (hij : i ≤ j) (hi : E ≤ i) : Zone L S E i := by
  rcases hj with ⟨h1, h2⟩ | ⟨h1, hrun⟩ | ⟨h1, hrun⟩
  · omega
  · right; left
    exact ⟨hi, fun r a b => hrun r a (by omega)⟩
  · omega

theorem zone_mid {q : Nat} (h1 : S ≤ q) (h2 : q < E) : Zone L S E q := Or.inl ⟨h1, h2⟩

end IsMerge

/-- what a merge over `[S,E)` needs of the list to keep it non-decreasing: sorted before and after the range, and
    everything before ≤ everything inside ≤ everything after (true of a sorted list, and of a sorted list whose
    range `[S,E)` was permuted) -/
structure SandwichUp (L : List Info) (S E : Nat) : Prop where
  left : ∀ i j a b, i ≤ j → j < S → cl? L i = some a → cl? L j = some b → a ≤ b
  right : ∀ i j a b, E ≤ i → i ≤ j → cl? L i = some a → cl? L j = some b → a ≤ b
  below : ∀ i q a b, i < S → S ≤ q → cl? L i = some a → cl? L q = some b → a ≤ b
  above : ∀ q j a b, S ≤ q → q < E → E ≤ j → cl? L q = some a → cl? L j = some b → a ≤ b

structure SandwichDown (L : List Info) (S E : Nat) : Prop where
  left : ∀ i j a b, i ≤ j → j < S → cl? L i = some a → cl? L j = some b → b ≤ a
  right : ∀ i j a b, E ≤ i → i ≤ j → cl? L i = some a → cl? L j = some b → b ≤ a
  below : ∀ i q a b, i < S → S ≤ q → cl? L i = some a → cl? L q = some b → b ≤ a
  above : ∀ q j a b, S ≤ q → q < E → E ≤ j → cl? L q = some a → cl? L j = some b → b ≤ a

theorem NonDecr.sandwich {L : List Info} (h : NonDecr L) (S E : Nat) : SandwichUp L S E :=
  ⟨fun i j a b h1 _ => h i j a b h1, fun i j a b _ h2 => h i j a b h2,
   fun i q a b h1 h2 => h i q a b (by omega), fun q j a b _ h2 h3 => h q j a b (by omega)⟩

theorem NonIncr.sandwich {L : List Info} (h : NonIncr L) (S E : Nat) : SandwichDown L S E :=
  ⟨fun i j a b h1 _ => h i j a b h1, fun i j a b _ h2 => h i j a b h2,
   fun i q a b h1 h2 => h i q a b (by omega), fun q j a b _ h2 h3 => h q j a b (by omega)⟩

theorem IsMerge.nonDecr {L L' : List Info} {S E m : Nat} (h : IsMerge L L' S E m) (hSE : S < E)
    (hs : SandwichUp L S E) : NonDecr L' := by
  obtain ⟨q0, hq1, hq2, hq3⟩ := h.min_mem
  intro i j a' b' hij ha' hb'
  rcases h.cl_cases ha' with ⟨hzi, hai⟩ | ⟨hzi, hai⟩ <;> rcases h.cl_cases hb' with ⟨hzj, hbj⟩ | ⟨hzj, hbj⟩
  · omega
  · -- i in the zone (value m), j outside: j lies right of the range
    subst hai
    have hjE : E ≤ j := by
      by_cases h1 : j < S
      · exact absurd (IsMerge.zone_left_closed hSE hzi hij h1) hzj
      · by_cases h2 : j < E
        · exact absurd (IsMerge.zone_mid (by omega) h2) hzj
        · omega
    exact hs.above q0 j a' b' hq1 hq2 hjE hq3 hbj
  · -- i outside, j in the zone: i lies left of the range
    subst hbj
    have hiS : i < S := by
      by_cases h1 : E ≤ i
      · exact absurd (IsMerge.zone_right_closed hSE hzj hij h1) hzi
      · by_cases h2 : S ≤ i
        · exact absurd (IsMerge.zone_mid h2 (by omega)) hzi
        · omega
    exact hs.below i q0 a' b' hiS hq1 hai hq3
  · -- both outside the zone
    by_cases h1 : j < S
    · exact hs.left i j a' b' hij h1 hai hbj
    · have hjE : E ≤ j := by
        by_cases h2 : j < E
        · exact absurd (IsMerge.zone_mid (by omega) h2) hzj
        · omega
      by_cases h3 : E ≤ i
      · exact hs.right i j a' b' h3 hij hai hbj
      · have hiS : i < S := by
          by_cases h2 : S ≤ i
          · exact absurd (IsMerge.zone_mid h2 (by omega)) hzi
          · omega
        have h4 := hs.below i q0 a' m hiS hq1 hai hq3
        have h5 := hs.above q0 j m b' hq1 hq2 hjE hq3 hbj
        omega

theorem IsMerge.nonIncr {L L' : List Info} {S E m : Nat} (h : IsMerge L L' S E m) (hSE : S < E)
    (hs : SandwichDown L S E) : NonIncr L' := by
  obtain ⟨q0, hq1, hq2, hq3⟩ := h.min_mem
  intro i j a' b' hij ha' hb'
  rcases h.cl_cases ha' with ⟨hzi, hai⟩ | ⟨hzi, hai⟩ <;> rcases h.cl_cases hb' with ⟨hzj, hbj⟩ | ⟨hzj, hbj⟩
  · omega
  · subst hai
    have hjE : E ≤ j := by
      by_cases h1 : j < S
      · exact absurd (IsMerge.zone_left_closed hSE hzi hij h1) hzj
      · by_cases h2 : j < E
        · exact absurd (IsMerge.zone_mid (by omega) h2) hzj
        · omega
    exact hs.above q0 j a' b' hq1 hq2 hjE hq3 hbj
  · subst hbj
    have hiS : i < S := by
      by_cases h1 : E ≤ i
      · exact absurd (IsMerge.zone_right_closed hSE hzj hij h1) hzi
      · by_cases h2 : S ≤ i
        · exact absurd (IsMerge.zone_mid h2 (by omega)) hzi
        · omega
    exact hs.below i q0 a' b' hiS hq1 hai hq3
  · by_cases h1 : j < S
    · exact hs.left i j a' b' hij h1 hai hbj
    · have hjE : E ≤ j := by
        by_cases h2 : j < E
        · exact absurd (IsMerge.zone_mid (by omega) h2) hzj
        · omega
      by_cases h3 : E ≤ i
      · exact hs.right i j a' b' h3 hij hai hbj
      · have hiS : i < S := by
          by_cases h2 : S ≤ i
          · exact absurd (IsMerge.zone_mid h2 (by omega)) hzi
          · omega
        have h4 := hs.below i q0 a' m hiS hq1 hai hq3
        have h5 := hs.above q0 j m b' hq1 hq2 hjE hq3 hbj
        omega


end RbModel.Buf

namespace RbModel.Buf
open RbModel.Mem

theorem mono_squeeze {L : List Info} (hm : NonDecr L ∨ NonIncr L) {i r j v : Nat} (h1 : i ≤ r) (h2 : r ≤ j)
    (hi : cl? L i = some v) (hj : cl? L j = some v) : cl? L r = some v := by
  have hjl := cl?_some_lt hj
  have hr : cl? L r = some L[r].cluster := cl?_lt (by omega)
  rw [hr]
  rcases hm with h | h
  · have a := h i r v _ h1 hi hr
    have b := h r j _ v h2 hr hj
    congr 1; omega
  · have a := h i r v _ h1 hi hr
    have b := h r j _ v h2 hr hj
    congr 1; omega

/-- on a monotone list a merge never separates two glyphs of one cluster -/
theorem IsMerge.coarsens {L L' : List Info} {S E m : Nat} (h : IsMerge L L' S E m) (hSE : S < E)
    (hm : NonDecr L ∨ NonIncr L) : Coarsens L L' := by
  -- ordered pairs first
  have key : ∀ i j v, i ≤ j → cl? L i = some v → cl? L j = some v → cl? L' i = cl? L' j := by
    intro i j v hij hi hj
    have hall : ∀ r, i ≤ r → r ≤ j → cl? L r = some v := fun r a b => mono_squeeze hm a b hi hj
    by_cases hzi : Zone L S E i <;> by_cases hzj : Zone L S E j
    · rw [h.cl_in hzi hi, h.cl_in hzj hj]
    · -- i in the zone, j not: the run of v reaches j, so j is in the zone after all
      exfalso; apply hzj
      rcases hzi with ⟨h1, h2⟩ | ⟨h1, hrun⟩ | ⟨h1, hrun⟩
      · by_cases h3 : j < E
        · exact IsMerge.zone_mid (by omega) h3
        · right; left
          refine ⟨by omega, fun r a b => ?_⟩
          rw [hall r (by omega) b, hall (E - 1) (by omega) (by omega)]
      · right; left
        have hE1 : cl? L (E - 1) = some v := by rw [← hrun i (by omega) (Nat.le_refl _)]; exact hi
        refine ⟨by omega, fun r a b => ?_⟩
        rw [hE1]
        by_cases h3 : r ≤ i
        · rw [hrun r a h3, hE1]
        · exact hall r (by omega) b
      · have hS1 : cl? L S = some v := by rw [← hrun i (Nat.le_refl _) (by omega)]; exact hi
        by_cases h3 : j ≤ S
        · by_cases h4 : j = S
          · subst h4; exact IsMerge.zone_mid (Nat.le_refl _) hSE
          · right; right
            exact ⟨by omega, fun r a b => hrun r (by omega) b⟩
        · by_cases h4 : j < E
          · exact IsMerge.zone_mid (by omega) h4
          · right; left
            refine ⟨by omega, fun r a b => ?_⟩
            rw [hall r (by omega) b, hall (E - 1) (by omega) (by omega)]
    · -- j in the zone, i not
      exfalso; apply hzi
      rcases hzj with ⟨h1, h2⟩ | ⟨h1, hrun⟩ | ⟨h1, hrun⟩
      · by_cases h3 : S ≤ i
        · exact IsMerge.zone_mid h3 (by omega)
        · right; right
          refine ⟨by omega, fun r a b => ?_⟩
          rw [hall r a (by omega), hall S (by omega) (by omega)]
      · have hE1 : cl? L (E - 1) = some v := by rw [← hrun j (by omega) (Nat.le_refl _)]; exact hj
        by_cases h3 : E ≤ i
        · right; left
          exact ⟨h3, fun r a b => hrun r a (by omega)⟩
        · by_cases h4 : S ≤ i
          · exact IsMerge.zone_mid h4 (by omega)
          · right; right
            refine ⟨by omega, fun r a b => ?_⟩
            rw [hall r a (by omega), hall S (by omega) (by omega)]
      · have hS1 : cl? L S = some v := by rw [← hrun j (Nat.le_refl _) (by omega)]; exact hj
        right; right
        refine ⟨by omega, fun r a b => ?_⟩
        rw [hS1]
        by_cases h3 : j ≤ r
        · rw [hrun r h3 b, hS1]
        · exact hall r a (by omega)
    · rw [h.cl_out hzi, h.cl_out hzj, hi, hj]
  intro i j v hi hj
  by_cases hij : i ≤ j
  · exact key i j v hij hi hj
  · exact (key j i v (by omega) hj hi).symm


end RbModel.Buf

namespace RbModel.Buf
open RbModel.Mem

/-! ## permutations inside a range -/

/-- `L` is `L0` with the records of `[S,E)` permuted among themselves -/
structure RangePerm (L0 L : List Info) (S E : Nat) : Prop where
  len : L.length = L0.length
  outside : ∀ q, q < S ∨ E ≤ q → L[q]? = L0[q]?
  perm : ((L.drop S).take (E - S)).Perm ((L0.drop S).take (E - S))

theorem slice_mem {L : List Info} {S E q : Nat} {x : Info} (h1 : S ≤ q) (h2 : q < E) (hx : L[q]? = some x) :
    x ∈ (L.drop S).take (E - S) := by
  rw [List.mem_iff_getElem?]
  refine ⟨q - S, ?_⟩
  rw [List.getElem?_take, if_pos (by omega), List.getElem?_drop]
  have : S + (q - S) = q := by omega
  rw [this]; exact hx

theorem mem_slice {L : List Info} {S E : Nat} {x : Info} (hx : x ∈ (L.drop S).take (E - S)) :
    ∃ p, S ≤ p ∧ p < E ∧ L[p]? = some x := by
  rw [List.mem_iff_getElem?] at hx
  obtain ⟨k, hk⟩ := hx
  rw [List.getElem?_take] at hk
  by_cases h : k < E - S
  · rw [if_pos h, List.getElem?_drop] at hk
    exact ⟨S + k, by omega, by omega, hk⟩
  · rw [if_neg h] at hk; cases hk

theorem RangePerm.inside {L0 L : List Info} {S E : Nat} (h : RangePerm L0 L S E) {q : Nat} {x : Info}
    (h1 : S ≤ q) (h2 : q < E) (hx : L[q]? = some x) : ∃ p, S ≤ p ∧ p < E ∧ L0[p]? = some x :=
  mem_slice (h.perm.mem_iff.1 (slice_mem h1 h2 hx))

theorem RangePerm.cl_outside {L0 L : List Info} {S E : Nat} (h : RangePerm L0 L S E) {q : Nat}
    (hq : q < S ∨ E ≤ q) : cl? L q = cl? L0 q := by
  unfold cl?; rw [h.outside q hq]

theorem RangePerm.cl_inside {L0 L : List Info} {S E : Nat} (h : RangePerm L0 L S E) {q v : Nat}
    (h1 : S ≤ q) (h2 : q < E) (hv : cl? L q = some v) : ∃ p, S ≤ p ∧ p < E ∧ cl? L0 p = some v := by
  unfold cl? at hv
  cases hx : L[q]? with
  | none => rw [hx] at hv; cases hv
  | some x =>
    rw [hx] at hv
    obtain ⟨p, a, b, c⟩ := h.inside h1 h2 hx
    refine ⟨p, a, b, ?_⟩
    unfold cl?; rw [c]; exact hv

/-- a sorted list stays "sandwiched" around a range whose records were permuted -/
theorem RangePerm.sandwichUp {L0 L : List Info} {S E : Nat} (h : RangePerm L0 L S E) (h0 : NonDecr L0) :
    SandwichUp L S E := by
  refine ⟨?_, ?_, ?_, ?_⟩
  · intro i j a b hij hj ha hb
    rw [h.cl_outside (Or.inl (by omega))] at ha
    rw [h.cl_outside (Or.inl hj)] at hb
    exact h0 i j a b hij ha hb
  · intro i j a b hi hij ha hb
    rw [h.cl_outside (Or.inr hi)] at ha
    rw [h.cl_outside (Or.inr (by omega))] at hb
    exact h0 i j a b hij ha hb
  · intro i q a b hi hq ha hb
    rw [h.cl_outside (Or.inl hi)] at ha
    by_cases hqE : q < E
    · obtain ⟨p, p1, p2, p3⟩ := h.cl_inside hq hqE hb
      exact h0 i p a b (by omega) ha p3
    · rw [h.cl_outside (Or.inr (by omega))] at hb
      exact h0 i q a b (by omega) ha hb
  · intro q j a b hq1 hq2 hj ha hb
    rw [h.cl_outside (Or.inr hj)] at hb
    obtain ⟨p, p1, p2, p3⟩ := h.cl_inside hq1 hq2 ha
    exact h0 p j a b (by omega) p3 hb

theorem RangePerm.sandwichDown {L0 L : List Info} {S E : Nat} (h : RangePerm L0 L S E) (h0 : NonIncr L0) :
    SandwichDown L S E := by
  refine ⟨?_, ?_, ?_, ?_⟩
  · intro i j a b hij hj ha hb
    rw [h.cl_outside (Or.inl (by omega))] at ha
    rw [h.cl_outside (Or.inl hj)] at hb
    exact h0 i j a b hij ha hb
  · intro i j a b hi hij ha hb
    rw [h.cl_outside (Or.inr hi)] at ha
    rw [h.cl_outside (Or.inr (by omega))] at hb
    exact h0 i j a b hij ha hb
  · intro i q a b hi hq ha hb
    rw [h.cl_outside (Or.inl hi)] at ha
    by_cases hqE : q < E
    · obtain ⟨p, p1, p2, p3⟩ := h.cl_inside hq hqE hb
      exact h0 i p a b (by omega) ha p3
    · rw [h.cl_outside (Or.inr (by omega))] at hb
      exact h0 i q a b (by omega) ha hb
  · intro q j a b hq1 hq2 hj ha hb
    rw [h.cl_outside (Or.inr hj)] at hb
    obtain ⟨p, p1, p2, p3⟩ := h.cl_inside hq1 hq2 ha
    exact h0 p j a b (by omega) p3 hb

/-- permuting records inside a range whose clusters are all equal does not change the cluster sequence -/
theorem RangePerm.cl_eq_of_uniform {L0 L : List Info} {S E c : Nat} (h : RangePerm L0 L S E)
    (hu : ∀ q v, S ≤ q → q < E → cl? L0 q = some v → v = c) : ∀ q, cl? L q = cl? L0 q := by
  intro q
  by_cases hq : q < S ∨ E ≤ q
  · exact h.cl_outside hq
  · have h1 : S ≤ q := by omega
    have h2 : q < E := by omega
    by_cases hl : q < L.length
    · have hv := cl?_lt hl
      obtain ⟨p, p1, p2, p3⟩ := h.cl_inside h1 h2 hv
      have e1 := hu p _ p1 p2 p3
      have hl0 : q < L0.length := by rw [← h.len]; exact hl
      have e2 := hu q _ h1 h2 (cl?_lt hl0)
      rw [hv, cl?_lt hl0, e1, e2]
    · have hl0 : ¬ q < L0.length := by rw [← h.len]; exact hl
      unfold cl?
      rw [List.getElem?_eq_none (by omega), List.getElem?_eq_none (by omega)]

theorem values_subset_of_rangePerm {L0 L : List Info} {S E : Nat} (h : RangePerm L0 L S E) : ValuesSubset L L0 := by
  intro q v hv
  by_cases hq : q < S ∨ E ≤ q
  · exact ⟨q, by rw [← h.cl_outside hq]; exact hv⟩
  · obtain ⟨p, _, _, p3⟩ := h.cl_inside (by omega) (by omega) hv
    exact ⟨p, p3⟩

theorem RangePerm.symm {L0 L : List Info} {S E : Nat} (h : RangePerm L0 L S E) : RangePerm L L0 S E :=
  ⟨h.len.symm, fun q hq => (h.outside q hq).symm, h.perm.symm⟩

theorem isMin_of_rangePerm {L0 L : List Info} {S E μ : Nat} (h : RangePerm L0 L S E) (hm : IsMinCluster μ L0) :
    IsMinCluster μ L := by
  obtain ⟨hlow, q, hq⟩ := hm
  constructor
  · intro q' v hv
    obtain ⟨p, hp⟩ := values_subset_of_rangePerm h q' v hv
    exact hlow p v hp
  · obtain ⟨p, hp⟩ := values_subset_of_rangePerm h.symm q μ hq
    exact ⟨p, hp⟩


end RbModel.Buf

namespace RbModel.Buf
open RbModel.Mem

/-! ## the glyph-flag routines touch masks only -/

def noMask (x : Info) : Info := { x with mask := 0 }

/-- `l'` differs from `l` in mask fields only -/
def OnlyMask (l l' : List Info) : Prop := l'.map noMask = l.map noMask

theorem OnlyMask.refl (l : List Info) : OnlyMask l l := rfl
theorem OnlyMask.trans {a b c : List Info} (h1 : OnlyMask a b) (h2 : OnlyMask b c) : OnlyMask a c := by
  unfold OnlyMask at *; rw [h2, h1]

theorem OnlyMask.set (l : List Info) (i : Nat) (x : Info) (m : Nat) (h : l[i]? = some x) :
    OnlyMask l (l.set i { x with mask := m }) := by
  unfold OnlyMask
  rw [List.map_set]
  apply List.ext_getElem?
  intro q
  by_cases hq : i = q
  · subst hq
    have hi : i < l.length := (List.getElem?_eq_some_iff.1 h).1
    rw [List.getElem?_set_self (by simpa using hi), List.getElem?_map, h]; rfl
  · rw [List.getElem?_set_ne hq]

theorem OnlyMask.length {l l' : List Info} (h : OnlyMask l l') : l'.length = l.length := by
  have := congrArg List.length h
  simpa using this

theorem OnlyMask.cl? {l l' : List Info} (h : OnlyMask l l') (q : Nat) : cl? l' q = cl? l q := by
  have h1 : (l'.map noMask)[q]? = (l.map noMask)[q]? := by rw [h]
  rw [List.getElem?_map, List.getElem?_map] at h1
  unfold Buf.cl?
  cases ha : l'[q]? <;> cases hb : l[q]? <;> rw [ha, hb] at h1 <;> simp at h1 ⊢
  have := congrArg Info.cluster h1
  simpa [noMask] using this

theorem OnlyMask.take_drop {l l' : List Info} (h : OnlyMask l l') (n : Nat) :
    OnlyMask (l.take n) (l'.take n) ∧ OnlyMask (l.drop n) (l'.drop n) := by
  unfold OnlyMask at *
  constructor
  · rw [List.map_take, List.map_take, h]
  · rw [List.map_drop, List.map_drop, h]

theorem orMaskRange_onlyMask (mask : Nat) : ∀ (k i : Nat) (l r : List Info), orMaskRange l mask i k = .ok r → OnlyMask l r := by
  intro k
  induction k with
  | zero => intro i l r h; cases h; exact OnlyMask.refl _
  | succ k ih =>
    intro i l r h
    simp only [orMaskRange] at h
    cases hg : get l i with
    | error e => rw [hg] at h; cases h
    | ok x =>
      rw [hg] at h
      exact (OnlyMask.set l i x _ (get_eq_ok hg)).trans (ih _ _ _ h)

theorem flagAllNe_onlyMask (cluster mask : Nat) : ∀ (k i : Nat) (l : List Info) (ch : Bool) (r : List Info × Bool),
    flagAllNe l cluster mask i k ch = .ok r → OnlyMask l r.1 := by
  intro k
  induction k with
  | zero => intro i l ch r h; cases h; exact OnlyMask.refl _
  | succ k ih =>
    intro i l ch r h
    simp only [flagAllNe] at h
    cases hg : get l i with
    | error e => rw [hg] at h; cases h
    | ok x =>
      rw [hg] at h
      simp only [ok_bind] at h
      split at h
      · exact (OnlyMask.set l i x _ (get_eq_ok hg)).trans (ih _ _ _ _ h)
      · exact ih _ _ _ _ h

theorem flagFromEnd_onlyMask (cluster cf mask start : Nat) : ∀ (i : Nat) (l : List Info) (ch : Bool) (r : List Info × Bool),
    flagFromEnd l cluster cf mask start i ch = .ok r → OnlyMask l r.1 := by
  intro i
  induction i with
  | zero => intro l ch r h; cases h; exact OnlyMask.refl _
  | succ i ih =>
    intro l ch r h
    simp only [flagFromEnd] at h
    split at h
    · cases hg : get l i with
      | error e => rw [hg] at h; cases h
      | ok x =>
        rw [hg] at h
        simp only [ok_bind] at h
        split at h
        · split at h
          · exact (OnlyMask.set l i x _ (get_eq_ok hg)).trans (ih _ _ _ h)
          · exact ih _ _ _ h
        · cases h; exact OnlyMask.refl _
    · cases h; exact OnlyMask.refl _

theorem flagFromStart_onlyMask (cluster cl mask : Nat) : ∀ (k i : Nat) (l : List Info) (ch : Bool) (r : List Info × Bool),
    flagFromStart l cluster cl mask i k ch = .ok r → OnlyMask l r.1 := by
  intro k
  induction k with
  | zero => intro i l ch r h; cases h; exact OnlyMask.refl _
  | succ k ih =>
    intro i l ch r h
    simp only [flagFromStart] at h
    cases hg : get l i with
    | error e => rw [hg] at h; cases h
    | ok x =>
      rw [hg] at h
      simp only [ok_bind] at h
      split at h
      · split at h
        · exact (OnlyMask.set l i x _ (get_eq_ok hg)).trans (ih _ _ _ _ h)
        · exact ih _ _ _ _ h
      · cases h; exact OnlyMask.refl _

theorem infosSetGlyphFlags_onlyMask (level : Nat) (l : List Info) (start stop cluster mask : Nat) (r : List Info × Bool)
    (h : infosSetGlyphFlags level l start stop cluster mask = .ok r) : OnlyMask l r.1 := by
  unfold infosSetGlyphFlags at h
  split at h
  · cases h; exact OnlyMask.refl _
  · cases hg : get l start with
    | error e => simp [hg, bind, Except.bind] at h
    | ok a =>
      simp only [hg, ok_bind] at h
      split at h
      · cases h
      · cases hz : get l (stop - 1) with
        | error e => simp [hz, bind, Except.bind] at h
        | ok z =>
          simp only [hz, ok_bind] at h
          split at h
          · exact flagAllNe_onlyMask _ _ _ _ _ _ _ h
          · split at h
            · exact flagFromEnd_onlyMask _ _ _ _ _ _ _ _ h
            · exact flagFromStart_onlyMask _ _ _ _ _ _ _ _ h


end RbModel.Buf

namespace RbModel.Buf
open RbModel.Mem

theorem bind_eq_ok {α β : Type} {x : M α} {k : α → M β} {r : β} (h : (x >>= k) = .ok r) :
    ∃ a, x = .ok a ∧ k a = .ok r := by
  cases x with
  | error e => cases h
  | ok a => exact ⟨a, rfl, h⟩

/-- `b'` differs from `b` in mask fields of the two Vecs and in `scratch_flags` only -/
def FlagsOnly (b b' : Buf) : Prop :=
  b' = { b with info := b'.info, out := b'.out, scratch := b'.scratch } ∧ OnlyMask b.info b'.info ∧ OnlyMask b.out b'.out

theorem FlagsOnly.refl (b : Buf) : FlagsOnly b b := ⟨rfl, OnlyMask.refl _, OnlyMask.refl _⟩

theorem FlagsOnly.trans {a b c : Buf} (h1 : FlagsOnly a b) (h2 : FlagsOnly b c) : FlagsOnly a c := by
  obtain ⟨e1, i1, o1⟩ := h1
  obtain ⟨e2, i2, o2⟩ := h2
  refine ⟨?_, i1.trans i2, o1.trans o2⟩
  rw [e2, e1]

theorem FlagsOnly.scratch (b : Buf) (s : Nat) : FlagsOnly b { b with scratch := s } := ⟨rfl, OnlyMask.refl _, OnlyMask.refl _⟩

theorem FlagsOnly.addScratch (b : Buf) (ch : Bool) : FlagsOnly b (b.addScratch ch) := by
  unfold Buf.addScratch; split
  · exact FlagsOnly.scratch b _
  · exact FlagsOnly.refl b

theorem FlagsOnly.info (b : Buf) (l : List Info) (h : OnlyMask b.info l) : FlagsOnly b { b with info := l } :=
  ⟨rfl, h, OnlyMask.refl _⟩

theorem FlagsOnly.scratch_info (b : Buf) (s : Nat) (l : List Info) (h : OnlyMask b.info l) :
    FlagsOnly b { b with scratch := s, info := l } := ⟨rfl, h, OnlyMask.refl _⟩

theorem FlagsOnly.setOutArr (b : Buf) (o : List Info) (h : OnlyMask b.outArr o) : FlagsOnly b (b.setOutArr o) := by
  unfold Buf.setOutArr outArr at *
  cases hs : b.sepOut
  · simp only [hs, Bool.false_eq_true, if_false] at h ⊢
    exact ⟨by simp [hs], h, OnlyMask.refl _⟩
  · simp only [hs, if_true] at h ⊢
    exact ⟨by simp [hs], OnlyMask.refl _, h⟩

theorem setGlyphFlags_flagsOnly (b : Buf) (mask start : Nat) (stop : Option Nat) (interior fromOut : Bool) (b' : Buf)
    (h : b.setGlyphFlags mask start stop interior fromOut = .ok b') : FlagsOnly b b' := by
  unfold setGlyphFlags at h
  simp only at h
  split at h
  · cases h; exact FlagsOnly.refl b
  · split at h
    · split at h
      · cases ho : orMaskRange b.info mask start (min (stop.getD b.len) b.len - start) with
        | error e => simp [ho, bind, Except.bind] at h
        | ok info =>
          simp only [ho, ok_bind] at h
          cases h
          exact FlagsOnly.scratch_info b _ info (orMaskRange_onlyMask _ _ _ _ _ ho)
      · cases hc : findMinCluster b.level b.info start (min (stop.getD b.len) b.len) U32MAX with
        | error e => simp [hc, bind, Except.bind] at h
        | ok cluster =>
          simp only [hc, ok_bind] at h
          cases hi : infosSetGlyphFlags b.level b.info start (min (stop.getD b.len) b.len) cluster mask with
          | error e => simp [hi, bind, Except.bind] at h
          | ok r =>
            obtain ⟨info, ch⟩ := r
            simp only [hi, ok_bind] at h
            cases h
            exact (FlagsOnly.scratch_info b _ info (infosSetGlyphFlags_onlyMask _ _ _ _ _ _ _ hi)).trans
              (FlagsOnly.addScratch _ _)
    · split at h
      · cases h
      · split at h
        · cases h
        · split at h
          · generalize hb1 : ({ b with scratch := b.scratch ||| SCRATCH_HAS_GLYPH_FLAGS } : Buf) = b1 at h
            have hf1 : FlagsOnly b b1 := by rw [← hb1]; exact FlagsOnly.scratch b _
            obtain ⟨o, ho, h⟩ := bind_eq_ok h
            have hf2 : FlagsOnly b1 (b1.setOutArr o) := FlagsOnly.setOutArr b1 o (orMaskRange_onlyMask _ _ _ _ _ ho)
            obtain ⟨info, hi, h⟩ := bind_eq_ok h
            cases h
            exact (hf1.trans hf2).trans (FlagsOnly.info _ info (orMaskRange_onlyMask _ _ _ _ _ hi))
          · generalize hb1 : ({ b with scratch := b.scratch ||| SCRATCH_HAS_GLYPH_FLAGS } : Buf) = b1 at h
            have hf1 : FlagsOnly b b1 := by rw [← hb1]; exact FlagsOnly.scratch b _
            obtain ⟨c1, _, h⟩ := bind_eq_ok h
            obtain ⟨c2, _, h⟩ := bind_eq_ok h
            obtain ⟨r, ho, h⟩ := bind_eq_ok h
            have hf2 : FlagsOnly b1 ((b1.setOutArr r.1).addScratch r.2) :=
              (FlagsOnly.setOutArr b1 r.1 (infosSetGlyphFlags_onlyMask _ _ _ _ _ _ _ ho)).trans (FlagsOnly.addScratch _ _)
            obtain ⟨r2, hi, h⟩ := bind_eq_ok h
            cases h
            exact ((hf1.trans hf2).trans (FlagsOnly.info _ r2.1 (infosSetGlyphFlags_onlyMask _ _ _ _ _ _ _ hi))).trans
              (FlagsOnly.addScratch _ _)

end RbModel.Buf

namespace RbModel.Buf
open RbModel.Mem

theorem OnlyMask.append {a a' c c' : List Info} (h1 : OnlyMask a a') (h2 : OnlyMask c c') : OnlyMask (a ++ c) (a' ++ c') := by
  unfold OnlyMask at *; rw [List.map_append, List.map_append, h1, h2]

theorem FlagsOnly.outArr {b b' : Buf} (h : FlagsOnly b b') : OnlyMask b.outArr b'.outArr := by
  obtain ⟨h1, h2, h3⟩ := h
  have hs : b'.sepOut = b.sepOut := by rw [h1]
  unfold Buf.outArr
  rw [hs]
  cases b.sepOut
  · exact h2
  · exact h3

theorem FlagsOnly.lview {b b' : Buf} (h : FlagsOnly b b') : OnlyMask (lview b) (lview b') := by
  have ho := h.outArr
  obtain ⟨h1, h2, h3⟩ := h
  have e1 : b'.outLen = b.outLen := by rw [h1]
  have e2 : b'.idx = b.idx := by rw [h1]
  have e3 : b'.len = b.len := by rw [h1]
  unfold Buf.lview
  rw [e1, e2, e3]
  exact (ho.take_drop _).1.append ((h2.take_drop _).2.take_drop _).1

theorem FlagsOnly.cl {b b' : Buf} (h : FlagsOnly b b') (q : Nat) : cl? (Buf.lview b') q = cl? (Buf.lview b) q :=
  (FlagsOnly.lview h).cl? q

theorem FlagsOnly.wf {b b' : Buf} (h : FlagsOnly b b') (hwf : WF b) : WF b' := by
  obtain ⟨h1, h2, h3⟩ := h
  rw [h1]
  exact ⟨hwf.idx_le, by simp; rw [h2.length]; exact hwf.len_le, by simp; intro hs; rw [h3.length]; exact hwf.sep_ok hs,
    by simp; exact hwf.nosep_ok⟩

theorem unsafeToBreak_flagsOnly {b b' : Buf} {s : Nat} {e : Option Nat} (h : b.unsafeToBreak s e = .ok b') : FlagsOnly b b' :=
  setGlyphFlags_flagsOnly _ _ _ _ _ _ _ h

theorem unsafeToBreakFromOut_flagsOnly {b b' : Buf} {s : Nat} {e : Option Nat} (h : b.unsafeToBreakFromOut s e = .ok b') :
    FlagsOnly b b' := setGlyphFlags_flagsOnly _ _ _ _ _ _ _ h

theorem unsafeToConcat_flagsOnly {b b' : Buf} {s : Nat} {e : Option Nat} (h : b.unsafeToConcat s e = .ok b') : FlagsOnly b b' := by
  unfold unsafeToConcat at h
  split at h
  · cases h; exact FlagsOnly.refl b
  · exact setGlyphFlags_flagsOnly _ _ _ _ _ _ _ h

theorem unsafeToConcatFromOut_flagsOnly {b b' : Buf} {s : Nat} {e : Option Nat} (h : b.unsafeToConcatFromOut s e = .ok b') :
    FlagsOnly b b' := by
  unfold unsafeToConcatFromOut at h
  split at h
  · cases h; exact FlagsOnly.refl b
  · exact setGlyphFlags_flagsOnly _ _ _ _ _ _ _ h

theorem safeToInsertTatweel_flagsOnly {b b' : Buf} {s : Nat} {e : Option Nat} (h : b.safeToInsertTatweel s e = .ok b') :
    FlagsOnly b b' := by
  unfold safeToInsertTatweel at h
  split at h
  · exact unsafeToBreak_flagsOnly h
  · exact setGlyphFlags_flagsOnly _ _ _ _ _ _ _ h

/-! ### transfer along equal cluster sequences -/

theorem nonDecr_of_cl_eq {L L' : List Info} (h : ∀ q, cl? L' q = cl? L q) (hm : NonDecr L) : NonDecr L' := by
  intro i j a b hij ha hb; rw [h] at ha hb; exact hm i j a b hij ha hb

theorem nonIncr_of_cl_eq {L L' : List Info} (h : ∀ q, cl? L' q = cl? L q) (hm : NonIncr L) : NonIncr L' := by
  intro i j a b hij ha hb; rw [h] at ha hb; exact hm i j a b hij ha hb

theorem valuesSubset_of_cl_eq {L L' : List Info} (h : ∀ q, cl? L' q = cl? L q) : ValuesSubset L' L := by
  intro q v hv; rw [h] at hv; exact ⟨q, hv⟩

theorem isMin_of_cl_eq {L L' : List Info} {μ : Nat} (h : ∀ q, cl? L' q = cl? L q) (hm : IsMinCluster μ L) : IsMinCluster μ L' := by
  obtain ⟨h1, q, h2⟩ := hm
  exact ⟨fun q' v hv => h1 q' v (by rw [← h]; exact hv), q, by rw [h]; exact h2⟩

theorem coarsens_of_cl_eq {L L' : List Info} (h : ∀ q, cl? L' q = cl? L q) : Coarsens L L' := by
  intro i j v hi hj; rw [h, h, hi, hj]

theorem ValuesSubset.refl (L : List Info) : ValuesSubset L L := fun q v h => ⟨q, h⟩
theorem ValuesSubset.trans {A B C : List Info} (h1 : ValuesSubset A B) (h2 : ValuesSubset B C) : ValuesSubset A C := by
  intro q v hv
  obtain ⟨p, hp⟩ := h1 q v hv
  exact h2 p v hp
theorem Coarsens.refl (L : List Info) : Coarsens L L := fun i j v hi hj => by rw [hi, hj]


end RbModel.Buf

namespace RbModel.Buf
open RbModel.Mem

/-! ### the flag loops do not panic inside the Vec -/

theorem flagAllNe_ok (cluster mask : Nat) : ∀ (k i : Nat) (l : List Info) (ch : Bool), i + k ≤ l.length →
    ∃ r, flagAllNe l cluster mask i k ch = .ok r := by
  intro k
  induction k with
  | zero => intro i l ch _; exact ⟨_, rfl⟩
  | succ k ih =>
    intro i l ch h
    have hi : i < l.length := by omega
    simp only [flagAllNe, get_ok hi, ok_bind]
    split
    · exact ih _ _ _ (by simp; omega)
    · exact ih _ _ _ (by omega)

theorem flagFromEnd_ok (cluster cf mask start : Nat) : ∀ (i : Nat) (l : List Info) (ch : Bool), i ≤ l.length →
    ∃ r, flagFromEnd l cluster cf mask start i ch = .ok r := by
  intro i
  induction i with
  | zero => intro l ch _; exact ⟨_, rfl⟩
  | succ i ih =>
    intro l ch h
    have hi : i < l.length := by omega
    simp only [flagFromEnd]
    split
    · simp only [get_ok hi, ok_bind]
      split
      · split
        · exact ih _ _ (by simp; omega)
        · exact ih _ _ (by omega)
      · exact ⟨_, rfl⟩
    · exact ⟨_, rfl⟩

theorem flagFromStart_ok (cluster cl mask : Nat) : ∀ (k i : Nat) (l : List Info) (ch : Bool), i + k ≤ l.length →
    ∃ r, flagFromStart l cluster cl mask i k ch = .ok r := by
  intro k
  induction k with
  | zero => intro i l ch _; exact ⟨_, rfl⟩
  | succ k ih =>
    intro i l ch h
    have hi : i < l.length := by omega
    simp only [flagFromStart, get_ok hi, ok_bind]
    split
    · split
      · exact ih _ _ _ (by simp; omega)
      · exact ih _ _ _ (by omega)
    · exact ⟨_, rfl⟩

theorem infosSetGlyphFlags_ok (level : Nat) (l : List Info) (start stop cluster mask : Nat) (h1 : start ≤ stop)
    (h2 : stop ≤ l.length) : ∃ r, infosSetGlyphFlags level l start stop cluster mask = .ok r := by
  unfold infosSetGlyphFlags
  by_cases he : start = stop
  · subst he; simp only [beq_self_eq_true, if_true]; exact ⟨_, rfl⟩
  · have hs : start < l.length := by omega
    have hz : stop - 1 < l.length := by omega
    have h0 : ¬ stop = 0 := by omega
    have hbe : (start == stop) = false := by simpa using he
    simp only [hbe, Bool.false_eq_true, if_false, get_ok hs, ok_bind, h0, get_ok hz]
    split
    · exact flagAllNe_ok _ _ _ _ _ _ (by omega)
    · split
      · exact flagFromEnd_ok _ _ _ _ _ _ _ h2
      · exact flagFromStart_ok _ _ _ _ _ _ _ (by omega)

theorem findMinCluster_ok (level : Nat) (l : List Info) (start stop c : Nat) (h1 : start ≤ stop) (h2 : stop ≤ l.length) :
    ∃ r, findMinCluster level l start stop c = .ok r := by
  unfold findMinCluster
  by_cases he : start = stop
  · subst he; simp only [beq_self_eq_true, if_true]; exact ⟨_, rfl⟩
  · have hs : start < l.length := by omega
    have hz : stop - 1 < l.length := by omega
    have h0 : ¬ stop = 0 := by omega
    have hbe : (start == stop) = false := by simpa using he
    simp only [hbe, Bool.false_eq_true, if_false]
    by_cases hl : level = 1
    · obtain ⟨m, hm, _⟩ := minClusterLoop_spec l (stop - start) start c (by omega)
      have hc : (decide (stop < start) || decide (stop > l.length)) = false := by
        simp only [Bool.or_eq_false_iff, decide_eq_false_iff_not]; omega
      simp only [hl, beq_self_eq_true, if_true, hc, Bool.false_eq_true, if_false, hm, ok_bind, h0, get_ok hs, get_ok hz]
      exact ⟨_, rfl⟩
    · have hbl : (level == 1) = false := by simpa using hl
      simp only [hbl, Bool.false_eq_true, if_false, pure_bind', h0, get_ok hs, get_ok hz, ok_bind]
      exact ⟨_, rfl⟩

/-- `unsafe_to_break(start, end)` inside the buffer neither panics nor touches a cluster -/
theorem unsafeToBreak_ok (b : Buf) (s e : Nat) (hwf : WF b) (hse : s ≤ e) (he : e ≤ b.len) :
    ∃ b', b.unsafeToBreak s (some e) = .ok b' ∧ FlagsOnly b b' := by
  have hlen := hwf.len_le
  suffices h : ∃ b', b.unsafeToBreak s (some e) = .ok b' by
    obtain ⟨b', hb⟩ := h
    exact ⟨b', hb, unsafeToBreak_flagsOnly hb⟩
  unfold unsafeToBreak setGlyphFlags
  have hmin : min ((some e).getD b.len) b.len = e := by simp; omega
  simp only [hmin]
  by_cases hshort : e - s < 2
  · simp [hse, hshort]; exact ⟨_, rfl⟩
  · simp only [Bool.not_false, Bool.and_true, Bool.true_and, hse, decide_true, hshort, decide_false, Bool.and_false,
      Bool.false_eq_true, if_false, Bool.true_or, if_true, Bool.not_true]
    obtain ⟨c, hc⟩ := findMinCluster_ok b.level b.info s e U32MAX hse (by omega)
    obtain ⟨r, hr⟩ := infosSetGlyphFlags_ok b.level b.info s e c (Flag.UNSAFE_TO_BREAK ||| Flag.UNSAFE_TO_CONCAT) hse (by omega)
    simp only [hc, ok_bind, hr]
    exact ⟨_, rfl⟩


end RbModel.Buf

namespace RbModel.Buf
open RbModel.Mem

/-! ## summary for the two merge primitives -/

/-- what every cluster-merging primitive guarantees about the logical sequence -/
structure MergeProps (L L' : List Info) : Prop where
  len : L'.length = L.length
  subset : ValuesSubset L' L
  nonDecr : NonDecr L → NonDecr L'
  nonIncr : NonIncr L → NonIncr L'
  coarsens : NonDecr L ∨ NonIncr L → Coarsens L L'

theorem MergeProps.refl (L : List Info) : MergeProps L L :=
  ⟨rfl, ValuesSubset.refl L, id, id, fun _ => Coarsens.refl L⟩

theorem MergeProps.of_cl_eq {L L' : List Info} (hl : L'.length = L.length) (h : ∀ q, cl? L' q = cl? L q) : MergeProps L L' :=
  ⟨hl, valuesSubset_of_cl_eq h, nonDecr_of_cl_eq h, nonIncr_of_cl_eq h, fun _ => coarsens_of_cl_eq h⟩

theorem IsMerge.props {L L' : List Info} {S E m : Nat} (h : IsMerge L L' S E m) (hSE : S < E) : MergeProps L L' :=
  ⟨h.len, h.values_subset, fun hm => h.nonDecr hSE (hm.sandwich S E), fun hm => h.nonIncr hSE (hm.sandwich S E),
   fun hm => h.coarsens hSE hm⟩

theorem FlagsOnly.props {b b' : Buf} (h : FlagsOnly b b') : MergeProps (Buf.lview b) (Buf.lview b') :=
  MergeProps.of_cl_eq (FlagsOnly.lview h).length (FlagsOnly.cl h)

/-- `merge_clusters(start, end)` on a range of the unconsumed input, all levels -/
theorem mergeClusters_props (b : Buf) (s e : Nat) (hwf : WF b) (hs : b.idx ≤ s) (he : e ≤ b.len)
    (hg : Gen.Buf.extendStartGuard = 1) :
    ∃ b', b.mergeClusters s e = .ok b' ∧ WF b' ∧ b'.idx = b.idx ∧ b'.len = b.len ∧ b'.outLen = b.outLen ∧
      b'.level = b.level ∧ b'.sepOut = b.sepOut ∧ b'.haveOutput = b.haveOutput ∧
      MergeProps (lview b) (lview b') ∧
      (b.level ≠ 2 → ∀ μ, IsMinCluster μ (lview b) → IsMinCluster μ (lview b')) ∧
      (b.level ≠ 2 → 2 ≤ e - s → SandwichUp (lview b) (b.outLen + (s - b.idx)) (b.outLen + (e - b.idx)) → NonDecr (lview b')) ∧
      (b.level ≠ 2 → 2 ≤ e - s → SandwichDown (lview b) (b.outLen + (s - b.idx)) (b.outLen + (e - b.idx)) → NonIncr (lview b')) := by
  by_cases hshort : e - s < 2
  · refine ⟨b, ?_, hwf, rfl, rfl, rfl, rfl, rfl, rfl, MergeProps.refl _, fun _ μ h => h, fun _ h => by omega, fun _ h => by omega⟩
    unfold mergeClusters; simp [hshort]; rfl
  · by_cases hl : b.level = 2
    · obtain ⟨b', hb, hf⟩ := unsafeToBreak_ok b s e hwf (by omega) he
      have h1 := hf.1
      refine ⟨b', ?_, hf.wf hwf, by rw [h1], by rw [h1], by rw [h1], by rw [h1], by rw [h1], by rw [h1], hf.props,
        fun h => absurd hl h, fun h => absurd hl h, fun h => absurd hl h⟩
      unfold mergeClusters mergeClustersImpl
      simp only [hshort, if_false, hl, beq_self_eq_true, if_true]
      rw [hb]
    · obtain ⟨b', m, hb, hsh, hm⟩ := mergeClusters_isMerge b s e hwf hs (by omega) he hl hg
      have h1 := hsh.1
      have hSE : b.outLen + (s - b.idx) < b.outLen + (e - b.idx) := by omega
      exact ⟨b', hb, hsh.wf hwf, by rw [h1], by rw [h1], by rw [h1], by rw [h1], by rw [h1], by rw [h1], hm.props hSE,
        fun _ μ hμ => hm.min_kept hSE hμ, fun _ _ hsw => hm.nonDecr hSE hsw, fun _ _ hsw => hm.nonIncr hSE hsw⟩

/-- `merge_out_clusters(start, end)` on a range of the out-buffer, all levels -/
theorem mergeOutClusters_props (b : Buf) (s e : Nat) (hwf : WF b) (he : e ≤ b.outLen) :
    ∃ b', b.mergeOutClusters s e = .ok b' ∧ WF b' ∧ b'.idx = b.idx ∧ b'.len = b.len ∧ b'.outLen = b.outLen ∧
      b'.level = b.level ∧ b'.sepOut = b.sepOut ∧ b'.haveOutput = b.haveOutput ∧
      MergeProps (lview b) (lview b') ∧
      (b.level ≠ 2 → ∀ μ, IsMinCluster μ (lview b) → IsMinCluster μ (lview b')) := by
  by_cases hl : b.level = 2
  · refine ⟨b, ?_, hwf, rfl, rfl, rfl, rfl, rfl, rfl, MergeProps.refl _, fun _ μ h => h⟩
    unfold mergeOutClusters; simp [hl]; rfl
  · by_cases hshort : e - s < 2
    · refine ⟨b, ?_, hwf, rfl, rfl, rfl, rfl, rfl, rfl, MergeProps.refl _, fun _ μ h => h⟩
      unfold mergeOutClusters
      have : (b.level == 2) = false := by simpa using hl
      simp [this, hshort]; rfl
    · obtain ⟨b', m, hb, hsh, hm⟩ := mergeOutClusters_isMerge b s e hwf (by omega) he hl
      have h1 := hsh.1
      exact ⟨b', hb, hsh.wf hwf, by rw [h1], by rw [h1], by rw [h1], by rw [h1], by rw [h1], by rw [h1], hm.props (by omega),
        fun _ μ hμ => hm.min_kept (by omega) hμ⟩


end RbModel.Buf

namespace RbModel.Buf
open RbModel.Mem

/-! ## decidable forms, for examples -/

theorem nonDecr_of_pairwise (L : List Info) (h : (L.map (·.cluster)).Pairwise (· ≤ ·)) : NonDecr L := by
  rw [List.pairwise_iff_getElem] at h
  intro i j a b hij ha hb
  have hi := cl?_some_lt ha
  have hj := cl?_some_lt hb
  rw [cl?_lt hi] at ha; rw [cl?_lt hj] at hb
  cases ha; cases hb
  by_cases he : i = j
  · subst he; exact Nat.le_refl _
  · have := h i j (by simpa using hi) (by simpa using hj) (by omega)
    simpa using this

theorem nonIncr_of_pairwise (L : List Info) (h : (L.map (·.cluster)).Pairwise (· ≥ ·)) : NonIncr L := by
  rw [List.pairwise_iff_getElem] at h
  intro i j a b hij ha hb
  have hi := cl?_some_lt ha
  have hj := cl?_some_lt hb
  rw [cl?_lt hi] at ha; rw [cl?_lt hj] at hb
  cases ha; cases hb
  by_cases he : i = j
  · subst he; exact Nat.le_refl _
  · have := h i j (by simpa using hi) (by simpa using hj) (by omega)
    simpa using this

theorem RangePerm.of_take_drop {L0 L : List Info} {S E : Nat} (hlen : L.length = L0.length) (h1 : L.take S = L0.take S)
    (h2 : L.drop E = L0.drop E) (hp : ((L.drop S).take (E - S)).Perm ((L0.drop S).take (E - S))) : RangePerm L0 L S E := by
  refine ⟨hlen, ?_, hp⟩
  intro q hq
  rcases hq with h | h
  · have := congrArg (fun l => l[q]?) h1
    simpa [List.getElem?_take, h] using this
  · have := congrArg (fun l => l[q - E]?) h2
    simp only [List.getElem?_drop] at this
    have e : E + (q - E) = q := by omega
    rwa [e] at this


end RbModel.Buf
