/-
  Lemmas about `NormMarks.lean`: `reorder_marks_arabic` keeps the buffer length and cannot reach either of its two
  panics when `end - start` is within its scratch array; the second round calls the callback only on such runs.
-/
import RbModel.NormMarks

namespace RbModel.Norm

theorem length_mergeClustersAt (K : Consts) (buf : List Info) (s e : Nat) (he : e ≤ buf.length) (hse : s ≤ e) :
    (mergeClustersAt K buf s e).length = buf.length := by
  unfold mergeClustersAt
  split
  · rename_i x y ys heq
    have hm := length_mergeClusters K (buf.take s) x (y :: ys) (buf.drop e)
    have hl := congrArg List.length heq
    simp only [List.length_take, List.length_drop, List.length_cons] at hl
    simp only [List.length_append, hm.1, hm.2.1, hm.2.2, List.length_take, List.length_drop, List.length_cons]
    omega
  · rfl

/-- the invariant of the `for cc in [220, 230]` loop: the buffer keeps its length, `start ≤ i`, and what is left of the
    run from `start` fits the scratch array -/
def PassInv (A : ArabicMarks) (L end_ : Nat) (st : List Info × Nat × Nat) : Prop :=
  st.1.length = L ∧ st.2.1 ≤ st.2.2 ∧ end_ - st.2.1 ≤ A.scratchLen

theorem length_takeWhile_take_le (p : Info → Bool) (l : List Info) (n : Nat) :
    ((l.take n).takeWhile p).length ≤ n := by
  have h1 := length_takeWhile_le p (l.take n)
  have h2 : (l.take n).length ≤ n := by simp [List.length_take]; omega
  omega

theorem arabicPass_ok (K : Consts) (A : ArabicMarks) (L end_ cc newCc : Nat) (st : List Info × Nat × Nat)
    (hend : end_ ≤ L) (h : PassInv A L end_ st) :
    ∃ st', arabicPass K A end_ cc newCc st = .ok st' ∧ PassInv A L end_ st' := by
  obtain ⟨buf, start, i⟩ := st
  obtain ⟨hL, hsi, hfit⟩ := h
  simp only at hL hsi hfit
  simp only [arabicPass]
  -- the first scan
  generalize hsk : (((buf.drop i).take (end_ - i)).takeWhile (fun x => x.mcc < cc)).length = sk
  split
  · exact ⟨_, rfl, hL, by simp only; omega, hfit⟩
  · rename_i hlt
    have hlt : i + sk < end_ := by omega
    split
    · rename_i hnone
      rw [List.getElem?_eq_none_iff] at hnone
      omega
    · rename_i x hx
      split
      · exact ⟨_, rfl, hL, by simp only; omega, hfit⟩
      · generalize hn : (((buf.drop (i + sk)).take (end_ - (i + sk))).takeWhile
            (fun y => y.mcc == cc && A.modifiers.contains y.cp)).length = n
        have hnle : n ≤ end_ - (i + sk) := by
          rw [← hn]; exact length_takeWhile_take_le _ _ _
        split
        · exact ⟨_, rfl, hL, by simp only; omega, hfit⟩
        · split
          · omega
          · refine ⟨_, rfl, ?_, by simp only; omega, by simp only; omega⟩
            have hmc := length_mergeClustersAt K buf start (i + sk + n) (by omega) (by omega)
            simp only [List.length_append, List.length_take, List.length_drop, List.length_map, hmc]
            omega

theorem foldlM_arabicPass_ok (K : Consts) (A : ArabicMarks) (L end_ : Nat) (hend : end_ ≤ L)
    (ps : List (Nat × Nat)) (st : List Info × Nat × Nat) (h : PassInv A L end_ st) :
    ∃ st', ps.foldlM (fun st p => arabicPass K A end_ p.1 p.2 st) st = .ok st' ∧ PassInv A L end_ st' := by
  induction ps generalizing st with
  | nil => exact ⟨st, rfl, h⟩
  | cons p ps ih =>
    obtain ⟨st1, h1, hinv1⟩ := arabicPass_ok K A L end_ p.1 p.2 st hend h
    obtain ⟨st2, h2, hinv2⟩ := ih st1 hinv1
    refine ⟨st2, ?_, hinv2⟩
    simp only [List.foldlM_cons, h1]
    exact h2

/-- within its scratch array `reorder_marks_arabic` returns, and the buffer keeps its length -/
theorem reorderMarksArabic_ok (K : Consts) (A : ArabicMarks) (buf : List Info) (start end_ : Nat)
    (hend : end_ ≤ buf.length) (hfit : end_ - start ≤ A.scratchLen) :
    ∃ b, reorderMarksArabic K A buf start end_ = .ok b ∧ b.length = buf.length := by
  obtain ⟨st', h, hinv⟩ := foldlM_arabicPass_ok K A buf.length end_ hend A.passes (buf, start, start)
    ⟨rfl, Nat.le_refl _, hfit⟩
  refine ⟨st'.1, ?_, hinv.1⟩
  simp only [reorderMarksArabic, h]
  rfl

end RbModel.Norm

namespace RbModel.Norm

/-- the second round consults the callback only on runs of at most `MAX_COMBINING_MARKS` records: two callbacks that
    agree on such runs (whole buffer, `end ≤ len`) give the same round -/
theorem round2With_congr (K : Consts) (f g : ReorderMarks)
    (hfg : ∀ buf s e, e - s ≤ K.maxMarks → e ≤ buf.length → f buf s e = g buf s e) (pre l : List Info) :
    round2With K (some f) pre l = round2With K (some g) pre l := by
  fun_induction round2With K (some f) pre l with
  | case1 pre => simp [round2With]
  | case2 pre x r hx ih => rw [round2With]; simp only [hx, if_true]; exact ih
  | case3 pre x r hx n res e hres =>
    rw [round2With]; simp only [hx, if_false]
    have : (if runLen r ≤ K.maxMarks then g (sortGo K pre [] (runLen r) (x :: r)) pre.length (pre.length + runLen r)
        else Except.ok (pre ++ x :: r)) = res := by
      simp only [res, n]
      split
      · rename_i hle
        symm; apply hfg _ _ _ (by omega)
        rw [length_sortGo K pre [] _ _ (runLen_le x r)]; simp; have := runLen_le x r; simp at this; omega
      · rfl
    simp only [this, hres]
  | case4 pre x r hx n res buf hres hlen ih =>
    rw [round2With]; simp only [hx, if_false]
    have : (if runLen r ≤ K.maxMarks then g (sortGo K pre [] (runLen r) (x :: r)) pre.length (pre.length + runLen r)
        else Except.ok (pre ++ x :: r)) = res := by
      simp only [res, n]
      split
      · rename_i hle
        symm; apply hfg _ _ _ (by omega)
        rw [length_sortGo K pre [] _ _ (runLen_le x r)]; simp; have := runLen_le x r; simp at this; omega
      · rfl
    simp only [this, hres, hlen, dite_true]
    exact ih
  | case5 pre x r hx n res buf hres hlen =>
    rw [round2With]; simp only [hx, if_false]
    have : (if runLen r ≤ K.maxMarks then g (sortGo K pre [] (runLen r) (x :: r)) pre.length (pre.length + runLen r)
        else Except.ok (pre ++ x :: r)) = res := by
      simp only [res, n]
      split
      · rename_i hle
        symm; apply hfg _ _ _ (by omega)
        rw [length_sortGo K pre [] _ _ (runLen_le x r)]; simp; have := runLen_le x r; simp at this; omega
      · rfl
    simp only [this, hres, hlen, dite_false]

end RbModel.Norm

namespace RbModel.Norm

/-- with the guard in place and a scratch array of at least `MAX_COMBINING_MARKS` records, the second round under the
    Arabic callback returns (no panic of `reorder_marks_arabic`, no change of length) -/
theorem round2With_arabic_ok (K : Consts) (A : ArabicMarks) (hKA : K.maxMarks ≤ A.scratchLen) (pre l : List Info) :
    ∃ b, round2With K (some (reorderMarksArabic K A)) pre l = .ok b := by
  fun_induction round2With K (some (reorderMarksArabic K A)) pre l with
  | case1 pre => exact ⟨_, rfl⟩
  | case2 pre x r hx ih => exact ih
  | case3 pre x r hx n res e hres =>
    exfalso
    simp only [res] at hres
    split at hres
    · rename_i hle
      have hlen := length_sortGo K pre [] n (x :: r) (runLen_le x r)
      obtain ⟨b, hb, _⟩ := reorderMarksArabic_ok K A (sortGo K pre [] n (x :: r)) pre.length (pre.length + n)
        (by rw [hlen]; have := runLen_le x r; simp at this ⊢; omega) (by omega)
      rw [hb] at hres; cases hres
    · cases hres
  | case4 pre x r hx n res buf hres hlen ih => exact ih
  | case5 pre x r hx n res buf hres hlen =>
    exfalso
    apply hlen
    simp only [res] at hres
    split at hres
    · rename_i hle
      have hl := length_sortGo K pre [] n (x :: r) (runLen_le x r)
      obtain ⟨b, hb, hbl⟩ := reorderMarksArabic_ok K A (sortGo K pre [] n (x :: r)) pre.length (pre.length + n)
        (by rw [hl]; have := runLen_le x r; simp at this ⊢; omega) (by omega)
      rw [hb] at hres
      cases hres
      rw [hbl, hl]; simp
    · cases hres; simp

end RbModel.Norm

namespace RbModel.Norm

/-- without a callback `round2With` is `round2` (the round the C09 theorems are about) -/
theorem round2With_none (K : Consts) (pre l : List Info) :
    round2With K none pre l = .ok (round2 K pre l) := by
  fun_induction round2 K pre l with
  | case1 pre => simp [round2With]
  | case2 pre x r hx ih => rw [round2With]; simp only [hx, if_true]; exact ih
  | case3 pre x r hx ih =>
    rw [round2With]; simp only [hx, if_false]
    have hres : (if runLen r ≤ K.maxMarks then Except.ok (sortGo K pre [] (runLen r) (x :: r))
        else Except.ok (pre ++ x :: r) : Except String (List Info)) = .ok (sortRun K pre (runLen r) (x :: r)) := by
      unfold sortRun; split <;> rfl
    have hlen := length_sortRun K pre (runLen r) (x :: r) (runLen_le x r)
    simp only [hres, hlen, dite_true]
    exact ih

end RbModel.Norm
