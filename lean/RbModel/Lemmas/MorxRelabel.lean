/- helper definitions for the morx part of Props/C15.lean: relabelling the clusters of a morx buffer -/
import RbModel.Lemmas.Morx

namespace RbModel.Morx

/-- relabel the cluster of one record -/
def relabG (f : Nat → Nat) (g : G) : G := { g with cl := f g.cl }

/-- relabel the cluster of every record of the buffer (dead slots included) -/
def relabel (f : Nat → Nat) (b : Buf) : Buf := { b with info := b.info.map (relabG f) }

theorem ncMap_relabG (f : Nat → Nat) (lk : Lookup) (on : Bool) (g : G) :
    ncMap lk on (relabG f g) = relabG f (ncMap lk on g) := by
  cases on <;> simp [ncMap, relabG]

end RbModel.Morx
