/-
  Multiple substitution with EMPTY sequences: `Sequence::apply` calls `delete_glyph`, which drops the current glyph and
  merges its cluster into a neighbour (rewriting cluster values and glyph flags of other glyphs).  The OpenType text
  forbids empty sequences, and the specification (which just removes the glyph) does not describe the cluster merge.
  What holds for every sequence length: glyph ids and FEATURE bits of the masks (everything outside
  `glyph_flag::DEFINED`) are those of the specification.  Uses the cluster lemmas (`deleteGlyph_props`,
  `deleteGlyph_keepFeat`: deletion is total and changes cluster values and glyph flags only).
-/
import RbModel.Lemmas.GsubMultiSpec
import RbModel.Lemmas.ClusterFeat

namespace RbModel.Gsub
open RbModel RbModel.Buf RbModel.Mem RbModel.Spec.Subst

/-- glyph id and feature bits of a buffer item -/
def piF (x : Info) : Nat × Nat := (x.gid, featBits x.mask)
/-- glyph id and feature bits of a specification glyph -/
def piG (g : G) : Nat × Nat := (g.gid, featBits g.mask)

theorem sameFeat_piF {l l' : List Info} (h : SameFeat l l') : l'.map piF = l.map piF := by
  have e : ∀ m : List Info, m.map piF = (m.map featKey).map (fun k => (k.1, k.2.1)) := by
    intro m; rw [List.map_map]; rfl
  rw [e l', e l, h]

theorem sameFeat_cons {x y : Info} {R S : List Info} (h : SameFeat (x :: R) (y :: S)) :
    featKey y = featKey x ∧ SameFeat R S := by
  unfold SameFeat at h
  simp only [List.map_cons, List.cons.injEq] at h
  exact h

/-- `delete_glyph` on the pair (out-part, in-part): the current glyph leaves; the others keep id, feature bits, var1, var2 -/
theorem deleteGlyph_parts (b : Buf) (hinv : Inv b) (hguard : Gen.Buf.extendStartGuard = 1) (x : Info) (R : List Info)
    (hin : inP b = x :: R) :
    ∃ b', b.deleteGlyph = .ok b' ∧ Inv b' ∧ SameFeat (outP b) (outP b') ∧ SameFeat R (inP b') ∧
      b'.successful = b.successful ∧ b'.maxLen = b.maxLen ∧ b'.outLen = b.outLen := by
  obtain ⟨hcur, hx⟩ := inP_head b hinv x R hin
  obtain ⟨b', hrun, _, _, _, _, _, _, _, _⟩ := deleteGlyph_props b (WF.of_inv hinv) hcur hguard
  obtain ⟨b1, hk, hb'⟩ := deleteGlyph_keepFeat hrun
  have hoA := hk.outArr
  obtain ⟨e, hi, ho⟩ := hk
  have e1 : b1.outLen = b.outLen := by rw [e]
  have e2 : b1.idx = b.idx := by rw [e]
  have e3 : b1.len = b.len := by rw [e]
  have e4 : b1.sepOut = b.sepOut := by rw [e]
  have e5 : b1.haveOutput = b.haveOutput := by rw [e]
  have e6 : b1.successful = b.successful := by rw [e]
  have e7 : b1.maxLen = b.maxLen := by rw [e]
  have hil := hi.length
  have hol := ho.length
  have hinv1 : Inv b1 :=
    ⟨by rw [e2, e3]; exact hinv.idx_le, by rw [e3, hil]; exact hinv.len_le, by rw [hol, hil]; exact hinv.out_len,
      by intro h; rw [e4] at h; rw [e1, hol]; exact hinv.sep_ok h,
      by intro h; rw [e4] at h; rw [e1, e2]; exact hinv.nosep_ok h, by rw [e5]; exact hinv.have_out⟩
  have hso : SameFeat (outP b) (outP b1) := by
    unfold outP; rw [e1]; exact (hoA.take_drop _).1
  have hsi : SameFeat (inP b) (inP b1) := by
    unfold inP; rw [e2, e3]; exact ((hi.take_drop _).2.take_drop _).1
  rw [hin] at hsi
  cases hin1 : inP b1 with
  | nil =>
    rw [hin1] at hsi
    have := hsi.length
    simp at this
  | cons x1 R1 =>
    rw [hin1] at hsi
    obtain ⟨_, hsR⟩ := sameFeat_cons hsi
    obtain ⟨hinv2, ho2, hi2⟩ := skipGlyph_parts b1 hinv1 x1 R1 hin1
    subst hb'
    exact ⟨b1.skipGlyph, hrun, hinv2, by rw [ho2]; exact hso, by rw [hi2]; exact hsR, e6, e7, e1⟩

/-- **One application of a sequence of any length** (0: `delete_glyph`; 1: `replace_glyph`; ≥ 2: `output_glyph` n times,
    `skip_glyph`), seen through glyph ids and feature bits. -/
theorem applySeq_feat_spec (hg : Gen.Buf.ensureGrowOnly = true) (hguard : Gen.Buf.extendStartGuard = 1)
    (c : Ctx) (ss : List Nat) (x : Info) (R : List Info) (hinv : Inv c.buf) (hin : inP c.buf = x :: R)
    (hb : c.buf.outLen + ss.length ≤ c.buf.maxLen) :
    ∃ b', applySeq c x ss = .ok { c with buf := b' } ∧ Inv b' ∧
      (outP b').map piF = (outP c.buf).map piF ++ ss.map (fun s => (s, featBits x.mask)) ∧
      SameFeat R (inP b') ∧ b'.successful = c.buf.successful ∧ b'.maxLen = c.buf.maxLen ∧
      b'.outLen = c.buf.outLen + ss.length := by
  by_cases hne : ss = []
  · subst hne
    obtain ⟨b', hrun, hinv', hso, hsi, hsu, hml, hol⟩ := deleteGlyph_parts c.buf hinv hguard x R hin
    refine ⟨b', ?_, hinv', ?_, hsi, hsu, hml, by simpa using hol⟩
    · simp only [applySeq, bind, Except.bind, hrun, pure, Except.pure]
    · rw [sameFeat_piF hso]; simp
  · obtain ⟨b', outs, hrun, hinv', ho, hi, hm, hsu, hml⟩ := applySeq_spec hg c ss hne x R hinv hin hb
    refine ⟨b', hrun, hinv', ?_, by rw [hi]; exact SameFeat.refl R, hsu, hml, ?_⟩
    · rw [ho, List.map_append]
      congr 1
      have e : outs.map piF = (outs.map projG).map piG := by rw [List.map_map]; rfl
      rw [e, hm, List.map_map]
      rfl
    · have h1 := outP_length b' hinv'
      rw [ho] at h1
      have h2 : outs.length = ss.length := by
        have := congrArg List.length hm
        simpa using this
      simp [outP_length c.buf hinv, h2] at h1
      omega

/-- what a replace-by-list lookup makes of one glyph, seen through glyph ids and feature bits -/
def stepF (f : Font) (lm props : Nat) (sub : Info → Option (List Nat)) (x : Info) : List (Nat × Nat) :=
  if x.mask &&& lm != 0 && checkGlyphProperty f x props then
    match sub x with
    | some ss => ss.map fun s => (s, featBits x.mask)
    | none => [piF x]
  else [piF x]

/-- a lookup mask made of feature bits sees the feature bits only -/
theorem and_featBits (m lm : Nat) (hlm : lm &&& (U32MAX - Flag.DEFINED) = lm) : featBits m &&& lm = m &&& lm := by
  unfold featBits
  rw [Nat.and_assoc, Nat.and_comm (U32MAX - Flag.DEFINED) lm, hlm]

theorem checkGlyphProperty_congr (f : Font) (x y : Info) (props : Nat) (hg : y.gid = x.gid) (hv : y.var1 = x.var1) :
    checkGlyphProperty f y props = checkGlyphProperty f x props := by
  unfold checkGlyphProperty glyphProps
  rw [hg, hv]

theorem stepF_congr (f : Font) (lm props : Nat) (hlm : lm &&& (U32MAX - Flag.DEFINED) = lm) (sub : Info → Option (List Nat))
    (hsub : ∀ x y : Info, y.gid = x.gid → sub y = sub x) (x y : Info) (h : featKey y = featKey x) :
    stepF f lm props sub y = stepF f lm props sub x := by
  unfold featKey at h
  simp only [Prod.mk.injEq] at h
  obtain ⟨h1, h2, h3, _⟩ := h
  unfold stepF piF
  rw [← and_featBits y.mask lm hlm, ← and_featBits x.mask lm hlm, h2, checkGlyphProperty_congr f x y props h1 h3,
    hsub x y h1, h1]

theorem flatMap_stepF_congr (f : Font) (lm props : Nat) (hlm : lm &&& (U32MAX - Flag.DEFINED) = lm)
    (sub : Info → Option (List Nat)) (hsub : ∀ x y : Info, y.gid = x.gid → sub y = sub x) :
    ∀ (R S : List Info), SameFeat R S → S.flatMap (stepF f lm props sub) = R.flatMap (stepF f lm props sub) := by
  intro R
  induction R with
  | nil =>
    intro S h
    have := h.length
    simp at this
    subst this
    rfl
  | cons x R ih =>
    intro S h
    cases S with
    | nil => have := h.length; simp at this
    | cons y S =>
      obtain ⟨h1, h2⟩ := sameFeat_cons h
      simp only [List.flatMap_cons]
      rw [stepF_congr f lm props hlm sub hsub x y h1, ih S h2]

/-- the forward scan of a replace-by-list lookup whose sequences may be empty, through glyph ids and feature bits -/
theorem applyForward_feat (l : Lookup) (lm : Nat) (nr : Bool) (sub : Info → Option (List Nat)) (hact : ActsAsL l lm nr sub)
    (hlmf : lm &&& (U32MAX - Flag.DEFINED) = lm) (hsubg : ∀ x y : Info, y.gid = x.gid → sub y = sub x)
    (hg : Gen.Buf.ensureGrowOnly = true) (hguard : Gen.Buf.extendStartGuard = 1) :
    ∀ (fuel : Nat) (c : Ctx), c.lookupMask = lm → (nr = true → c.random = false) → Inv c.buf → c.buf.successful = true →
      c.lookupProps = l.props → (inP c.buf).length ≤ fuel →
      c.buf.outLen + ((inP c.buf).flatMap (stepF c.font lm l.props sub)).length ≤ c.buf.maxLen →
      ∃ b', applyForward l fuel c = .ok { c with buf := b' } ∧ Inv b' ∧ inP b' = [] ∧ b'.successful = true ∧
        b'.maxLen = c.buf.maxLen ∧
        (outP b').map piF = (outP c.buf).map piF ++ (inP c.buf).flatMap (stepF c.font lm l.props sub) := by
  intro fuel
  induction fuel with
  | zero =>
    intro c _ _ hinv hsu _ hf _
    have hnil : inP c.buf = [] := List.eq_nil_of_length_eq_zero (by omega)
    refine ⟨c.buf, rfl, hinv, hnil, hsu, rfl, ?_⟩
    rw [hnil]; simp
  | succ fuel ih =>
    intro c hlm hrnd hinv hsu hp hf hb
    cases hin : inP c.buf with
    | nil =>
      have hl := inP_length c.buf hinv
      rw [hin] at hl
      simp at hl
      have hc : ¬ (c.buf.idx < c.buf.len) := by omega
      refine ⟨c.buf, ?_, hinv, hin, hsu, rfl, by simp⟩
      simp [applyForward, hc]
      rfl
    | cons x R =>
      rw [hin] at hf hb
      simp only [List.length_cons, List.flatMap_cons, List.length_append] at hf hb
      obtain ⟨hcur, hx⟩ := inP_head c.buf hinv x R hin
      have hget : Mem.get c.buf.info c.buf.idx = .ok x := by unfold Mem.get; rw [hx]; rfl
      have hc2 : (decide (c.buf.idx < c.buf.len) && c.buf.successful) = true := by simp [hcur, hsu]
      have hol := outP_length c.buf hinv
      have hstep : ∃ b1, (∀ (rest : Ctx → M Ctx),
            (do
              let cur ← Mem.get c.buf.info c.buf.idx
              if cur.mask &&& c.lookupMask != 0 && checkGlyphProperty c.font cur c.lookupProps then
                let (c1, ok) ← applyTop c l
                if ok then rest c1
                else do let b ← c1.buf.nextGlyph; rest { c1 with buf := b }
              else do let b ← c.buf.nextGlyph; rest { c with buf := b }) = rest { c with buf := b1 }) ∧
          Inv b1 ∧ (outP b1).map piF = (outP c.buf).map piF ++ stepF c.font lm l.props sub x ∧ SameFeat R (inP b1) ∧
          b1.successful = true ∧ b1.maxLen = c.buf.maxLen ∧
          b1.outLen = c.buf.outLen + (stepF c.font lm l.props sub x).length := by
        have hnext : stepF c.font lm l.props sub x = [piF x] →
            ∃ b1, c.buf.nextGlyph = .ok b1 ∧ Inv b1 ∧
              (outP b1).map piF = (outP c.buf).map piF ++ stepF c.font lm l.props sub x ∧ SameFeat R (inP b1) ∧
              b1.successful = true ∧ b1.maxLen = c.buf.maxLen ∧
              b1.outLen = c.buf.outLen + (stepF c.font lm l.props sub x).length := by
          intro hst
          rw [hst] at hb ⊢
          obtain ⟨b1, hrun, hinv1, ho1, hi1, hsu1, hml1⟩ := nextGlyph_parts c.buf hinv hg x R hin (by simp at hb; omega)
          refine ⟨b1, hrun, hinv1, by rw [ho1]; simp, by rw [hi1]; exact SameFeat.refl R, by rw [hsu1]; exact hsu, hml1, ?_⟩
          have h1 := outP_length b1 hinv1
          rw [ho1] at h1
          simp [hol] at h1
          simp; omega
        by_cases hen : (x.mask &&& c.lookupMask != 0 && checkGlyphProperty c.font x c.lookupProps) = true
        · have happ := hact c x hlm hrnd hx
          cases hss : sub x with
          | some ss =>
            rw [hss] at happ
            have hst : stepF c.font lm l.props sub x = ss.map fun s => (s, featBits x.mask) := by
              unfold stepF
              rw [hlm, hp] at hen
              simp only [hen, if_true, hss]
            obtain ⟨b1, hrun, hinv1, ho1, hi1, hsu1, hml1, hol1⟩ :=
              applySeq_feat_spec hg hguard c ss x R hinv hin (by rw [hst] at hb; simp at hb; omega)
            refine ⟨b1, ?_, hinv1, by rw [hst]; exact ho1, hi1, by rw [hsu1]; exact hsu, hml1, by rw [hst]; simpa using hol1⟩
            intro rest
            simp only [bind, Except.bind, hget, hen, if_true, applyTop, happ, hrun, Except.map]
          | none =>
            rw [hss] at happ
            have hst : stepF c.font lm l.props sub x = [piF x] := by
              unfold stepF
              rw [hlm, hp] at hen
              simp only [hen, if_true, hss]
            obtain ⟨b1, hrun, rest'⟩ := hnext hst
            refine ⟨b1, ?_, rest'⟩
            intro rest
            simp only [bind, Except.bind, hget, hen, if_true, applyTop, happ, Bool.false_eq_true, if_false, hrun]
        · have hen' : (x.mask &&& c.lookupMask != 0 && checkGlyphProperty c.font x c.lookupProps) = false := by
            simpa using hen
          have hst : stepF c.font lm l.props sub x = [piF x] := by
            unfold stepF
            rw [hlm, hp] at hen'
            simp only [hen', Bool.false_eq_true, if_false]
          obtain ⟨b1, hrun, rest'⟩ := hnext hst
          refine ⟨b1, ?_, rest'⟩
          intro rest
          simp only [bind, Except.bind, hget, hen', Bool.false_eq_true, if_false, hrun]
      obtain ⟨b1, hrun, hinv1, ho1, hi1, hsu1, hml1, hol1⟩ := hstep
      have hfm := flatMap_stepF_congr c.font lm l.props hlmf sub hsubg R (inP b1) hi1
      obtain ⟨b', hres, hinv', hi', hsu', hml', hout'⟩ := ih { c with buf := b1 } hlm hrnd hinv1 hsu1 hp
        (by show (inP b1).length ≤ fuel; rw [hi1.length]; omega)
        (by show b1.outLen + ((inP b1).flatMap (stepF c.font lm l.props sub)).length ≤ b1.maxLen
            rw [hfm, hol1, hml1]; omega)
      refine ⟨b', ?_, hinv', hi', hsu', by rw [hml']; exact hml1, ?_⟩
      · have hrun' := hrun (applyForward l fuel)
        simp only [applyForward, hc2, if_true]
        rw [hrun']
        exact hres
      · rw [hout']
        show (outP b1).map piF ++ (inP b1).flatMap (stepF c.font lm l.props sub) = _
        rw [ho1, hfm, List.flatMap_cons, List.append_assoc]

/-- `apply_string` of a replace-by-list lookup whose sequences may be empty: glyph ids and feature bits -/
theorem applyString_feat (l : Lookup) (sub : Info → Option (List Nat)) (hrev : l.reverse = false) (c : Ctx)
    (nr : Bool) (hact : ActsAsL l c.lookupMask nr sub)
    (hlmf : c.lookupMask &&& (U32MAX - Flag.DEFINED) = c.lookupMask) (hsubg : ∀ x y : Info, y.gid = x.gid → sub y = sub x)
    (hg : Gen.Buf.ensureGrowOnly = true) (hguard : Gen.Buf.extendStartGuard = 1)
    (hrnd : nr = true → c.random = false) (fuel : Nat)
    (hsu : c.buf.successful = true) (hlen : c.buf.len ≤ c.buf.info.length) (hout : c.buf.out.length = c.buf.info.length)
    (hf : c.buf.len ≤ fuel)
    (hb : ((c.buf.info.take c.buf.len).flatMap (stepF c.font c.lookupMask l.props sub)).length ≤ c.buf.maxLen) :
    ∃ c', applyString c l fuel = .ok c' ∧ c'.buf.successful = true ∧ c'.buf.len ≤ c'.buf.info.length ∧
      (c'.buf.info.take c'.buf.len).map piF
        = (c.buf.info.take c.buf.len).flatMap (stepF c.font c.lookupMask l.props sub) := by
  unfold applyString
  by_cases h0 : (c.buf.len == 0 || c.lookupMask == 0) = true
  · simp only [h0, if_true, pure, Except.pure]
    have h0' : c.buf.len = 0 ∨ c.lookupMask = 0 := by simpa using h0
    refine ⟨c, rfl, hsu, hlen, ?_⟩
    symm
    apply flatMap_single
    intro x hx
    rcases h0' with h | h
    · rw [h] at hx; simp at hx
    · unfold stepF; simp [h]
  · simp only [h0, Bool.false_eq_true, if_false, hrev, Bool.not_false, if_true]
    have hinv0 : Inv ({ c.buf.clearOutput with idx := 0 } : Buf) :=
      ⟨Nat.zero_le _, by simpa [clearOutput] using hlen, by simpa [clearOutput] using hout,
        by simp [clearOutput], by simp [clearOutput], by simp [clearOutput]⟩
    have hin0 : inP ({ c.buf.clearOutput with idx := 0 } : Buf) = c.buf.info.take c.buf.len := by
      simp [inP, clearOutput]
    have hout0 : outP ({ c.buf.clearOutput with idx := 0 } : Buf) = [] := by
      simp [outP, clearOutput]
    obtain ⟨b', hres, hinv', hi', hsu', hml', hout'⟩ := applyForward_feat l c.lookupMask nr sub hact hlmf hsubg hg hguard fuel
      { c with lookupProps := l.props, buf := { c.buf.clearOutput with idx := 0 } }
      rfl hrnd hinv0 (by simpa [clearOutput] using hsu) rfl
      (by show (inP ({ c.buf.clearOutput with idx := 0 } : Buf)).length ≤ fuel
          rw [hin0]; simp; omega)
      (by show ({ c.buf.clearOutput with idx := 0 } : Buf).outLen
              + ((inP ({ c.buf.clearOutput with idx := 0 } : Buf)).flatMap (stepF c.font c.lookupMask l.props sub)).length
              ≤ ({ c.buf.clearOutput with idx := 0 } : Buf).maxLen
          rw [hin0]; simpa [clearOutput] using hb)
    have hml'' : b'.maxLen = c.buf.maxLen := by rw [hml']; rfl
    have hout'' : (outP b').map piF = (c.buf.info.take c.buf.len).flatMap (stepF c.font c.lookupMask l.props sub) := by
      rw [hout']
      show (outP ({ c.buf.clearOutput with idx := 0 } : Buf)).map piF
          ++ (inP ({ c.buf.clearOutput with idx := 0 } : Buf)).flatMap (stepF c.font c.lookupMask l.props sub) = _
      rw [hout0, hin0]; rfl
    have htot : total b' ≤ b'.maxLen := by
      have h1 := outP_length b' hinv'
      have h2 := inP_length b' hinv'
      rw [hi'] at h2
      simp at h2
      have h3 : (outP b').length = ((c.buf.info.take c.buf.len).flatMap (stepF c.font c.lookupMask l.props sub)).length := by
        rw [← hout'']; simp
      unfold total
      rw [hml'']
      omega
    obtain ⟨b'', hsync, hsu'', _, hle'', htake⟩ := sync_parts b' hinv' hg hsu' htot
    simp only [bind, Except.bind, hres, hsync, pure, Except.pure]
    refine ⟨_, rfl, hsu'', hle'', ?_⟩
    show (b''.info.take b''.len).map piF = _
    rw [htake, hi', List.append_nil, hout'']

/-- the specification's per-glyph step, through ids and feature bits, is `stepF` -/
theorem stepF_eq_specStepL (f : Font) (l : Lookup) (lm : Nat) (sub : Info → Option (List Nat)) (subG : G → Option (List Nat))
    (x : Info) (hsub : sub x = subG (projG x))
    (hsync : checkGlyphProperty f x l.props = !ignored f l.props (projG x)) :
    stepF f lm l.props sub x = (specStepL f l lm subG (projG x)).map piG := by
  unfold stepF specStepL
  rw [hsync, hsub]
  have hm : (projG x).mask = x.mask := rfl
  rw [hm]
  by_cases hc : (x.mask &&& lm != 0 && !ignored f l.props (projG x)) = true
  · simp only [hc, if_true]
    cases subG (projG x) with
    | none => rfl
    | some ss => simp only [List.map_map]; rfl
  · simp only [hc, Bool.false_eq_true, if_false]; rfl

end RbModel.Gsub
