/-
  The streaming buffer refines a list zipper: helper definitions and lemmas.
  `seq b q` is the q-th element of the logical glyph sequence (out-prefix followed by the unconsumed
  input); `Inv` is the representation invariant every reachable in/out state satisfies.
-/
import RbModel.Buf
import RbModel.Lemmas.Mem

namespace RbModel.Buf
open RbModel.Mem

/-- q-th element of the logical sequence `out[0..outLen) ++ info[idx..len)` -/
def seq (b : Buf) (q : Nat) : Option Info :=
  if q < b.outLen then b.outArr[q]?
  else if q - b.outLen < b.len - b.idx then b.info[b.idx + (q - b.outLen)]? else none

/-- number of glyphs in the logical sequence -/
def total (b : Buf) : Nat := b.outLen + (b.len - b.idx)

structure Inv (b : Buf) : Prop where
  idx_le : b.idx ≤ b.len
  len_le : b.len ≤ b.info.length
  out_len : b.out.length = b.info.length
  sep_ok : b.sepOut = true → b.outLen ≤ b.out.length
  nosep_ok : b.sepOut = false → b.outLen ≤ b.idx
  have_out : b.haveOutput = true

theorem resize_grow_getElem? (l : List Info) (size q : Nat) (h : l.length < size) (hq : q < l.length) :
    (resize l size)[q]? = l[q]? := by
  unfold resize
  have : ¬ size ≤ l.length := by omega
  simp only [this, if_false]
  rw [List.getElem?_append_left hq]

theorem resize_grow_length (l : List Info) (size : Nat) (h : l.length < size) :
    (resize l size).length = size := by
  unfold resize
  have : ¬ size ≤ l.length := by omega
  simp only [this, if_false, List.length_append, List.length_replicate]
  omega

/-- What a successful `ensure` guarantees (with the grow-only variant the source now has). -/
theorem ensure_spec (b : Buf) (size : Nat) (hlen : b.len ≤ b.info.length) (hout : b.out.length = b.info.length)
    (hg : Gen.Buf.ensureGrowOnly = true) :
    ((b.ensure size).2 = false ∧ (b.ensure size).1 = { b with successful := false }) ∨
    ((b.ensure size).2 = true ∧ ∃ I O, (b.ensure size).1 = { b with info := I, out := O } ∧
        size ≤ I.length ∧ O.length = I.length ∧ b.info.length ≤ I.length ∧
        (∀ q, q < b.info.length → I[q]? = b.info[q]?) ∧ (∀ q, q < b.out.length → O[q]? = b.out[q]?)) := by
  unfold ensure
  by_cases h1 : size < b.len
  · right
    simp only [h1, if_true]
    exact ⟨trivial, b.info, b.out, rfl, by omega, hout, Nat.le_refl _, fun _ _ => rfl, fun _ _ => rfl⟩
  · simp only [h1, if_false]
    by_cases h2 : size > b.maxLen
    · left; simp [h2]
    · right
      simp only [h2, if_false, hg, if_true]
      refine ⟨trivial, _, _, rfl, ?_, ?_, ?_, ?_, ?_⟩
      · by_cases h3 : size > b.info.length
        · simp only [h3, if_true]; rw [resize_grow_length _ _ h3]; exact Nat.le_refl _
        · simp only [h3, if_false]; omega
      · by_cases h3 : size > b.info.length
        · have h4 : size > b.out.length := by omega
          simp only [h3, h4, if_true]
          rw [resize_grow_length _ _ h3, resize_grow_length _ _ h4]
        · have h4 : ¬ size > b.out.length := by omega
          simp only [h3, h4, if_false]; exact hout
      · by_cases h3 : size > b.info.length
        · simp only [h3, if_true]; rw [resize_grow_length _ _ h3]; omega
        · simp only [h3, if_false]; exact Nat.le_refl _
      · intro q hq
        by_cases h3 : size > b.info.length
        · simp only [h3, if_true]; exact resize_grow_getElem? _ _ _ h3 hq
        · simp only [h3, if_false]
      · intro q hq
        by_cases h3 : size > b.out.length
        · simp only [h3, if_true]; exact resize_grow_getElem? _ _ _ h3 hq
        · simp only [h3, if_false]

end RbModel.Buf

namespace RbModel.Buf
open RbModel.Mem

theorem makeRoomFor_spec (b : Buf) (numIn numOut : Nat) (hinv : Inv b)
    (hg : Gen.Buf.ensureGrowOnly = true) :
    b.makeRoomFor numIn numOut = .ok ({ b with successful := false }, false) ∨
    ∃ I O s, b.makeRoomFor numIn numOut = .ok ({ b with info := I, out := O, sepOut := s }, true) ∧
      Inv { b with info := I, out := O, sepOut := s } ∧
      b.outLen + numOut ≤ (outArr { b with info := I, out := O, sepOut := s }).length ∧
      (s = false → b.outLen + numOut ≤ b.idx + numIn) ∧
      (b.sepOut = true → s = true) ∧
      (∀ q, q < b.outLen → (outArr { b with info := I, out := O, sepOut := s })[q]? = b.outArr[q]?) ∧
      (∀ q, q < b.info.length → I[q]? = b.info[q]?) ∧ b.info.length ≤ I.length := by
  unfold makeRoomFor
  rcases ensure_spec b (b.outLen + numOut) hinv.len_le hinv.out_len hg with ⟨h2, h1⟩ | ⟨h2, I, O, h1, hsz, hOI, hle, hI, hO⟩
  · left
    rcases he : b.ensure (b.outLen + numOut) with ⟨b1, ok⟩
    rw [he] at h1 h2
    simp at h1 h2
    subst h1 h2
    rfl
  · right
    rcases he : b.ensure (b.outLen + numOut) with ⟨b1, ok⟩
    rw [he] at h1 h2
    simp at h1 h2
    subst h1 h2
    simp only [Bool.not_true, Bool.false_eq_true, if_false]
    have hidx := hinv.idx_le
    have hlen := hinv.len_le
    have hol := hinv.out_len
    by_cases hs : b.sepOut = true
    · -- already separate
      have hso := hinv.sep_ok hs
      refine ⟨I, O, true, ?_, ?_, ?_, ?_, ?_, ?_, hI, hle⟩
      · simp [hs]; rfl
      · exact ⟨hidx, by simp; omega, by simp; exact hOI, by simp; omega, by simp, hinv.have_out⟩
      · simp [outArr]; omega
      · intro h; cases h
      · intro _; rfl
      · intro q hq
        simp only [outArr, hs, if_true]
        exact hO q (by omega)
    · have hs' : b.sepOut = false := by simpa using hs
      have hns := hinv.nosep_ok hs'
      by_cases hc : b.outLen + numOut > b.idx + numIn
      · -- the out-buffer has to be separated now
        have hho := hinv.have_out
        obtain ⟨O', hcp, hO'len, hO'q⟩ := copyAcross_spec I O 0 0 b.outLen 0 (by omega) (by omega)
        refine ⟨I, O', true, ?_, ?_, ?_, ?_, ?_, ?_, hI, hle⟩
        · simp only [hs', hc, hho, Bool.not_false, Bool.true_and, decide_true, if_true, Bool.not_true,
            Bool.false_eq_true, if_false]
          simp only [bind, Except.bind, hcp]
          rfl
        · exact ⟨hidx, by simp; omega, by simp; omega, by simp; omega, by simp, hinv.have_out⟩
        · simp [outArr]; omega
        · intro h; cases h
        · intro h; rw [hs'] at h
        · intro q hq
          simp only [outArr, hs', if_true]
          rw [hO'q q]
          have : 0 + 0 ≤ q ∧ q < 0 + 0 + b.outLen := by omega
          simp only [this, and_self, if_true]
          have : q - 0 + 0 = q := by omega
          rw [this]
          exact hI q (by omega)
      · refine ⟨I, O, false, ?_, ?_, ?_, ?_, ?_, ?_, hI, hle⟩
        · simp only [hs', hc, Bool.not_false, Bool.true_and, decide_false, Bool.false_eq_true, if_false]
          rfl
        · exact ⟨hidx, by simp; omega, by simp; exact hOI, by simp, by simp; omega, hinv.have_out⟩
        · simp [outArr]; omega
        · intro _; omega
        · intro h; rw [hs'] at h; exact h
        · intro q hq
          simp only [outArr, hs']
          exact hI q (by omega)

end RbModel.Buf

namespace RbModel.Buf
open RbModel.Mem

theorem zeroRange_spec : ∀ (k i : Nat) (l : List Info), i + k ≤ l.length →
    ∃ r, zeroRange l i k = .ok r ∧ r.length = l.length ∧
      ∀ q, r[q]? = if i ≤ q ∧ q < i + k then some ({} : Info) else l[q]? := by
  intro k
  induction k with
  | zero =>
    intro i l _
    refine ⟨l, rfl, rfl, ?_⟩
    intro q; simp; intro h1 h2; omega
  | succ k ih =>
    intro i l h
    have h2 : i < l.length := by omega
    obtain ⟨r, hr, hlen, hq⟩ := ih (i + 1) (l.set i {}) (by simp; omega)
    refine ⟨r, ?_, by simpa using hlen, ?_⟩
    · simp only [zeroRange, put_ok _ h2, bind, Except.bind]; exact hr
    · intro q
      rw [hq q]
      by_cases hq1 : q = i
      · subst hq1
        have : ¬ (q + 1 ≤ q ∧ q < q + 1 + k) := by omega
        simp only [this, if_false]
        have : q ≤ q ∧ q < q + (k + 1) := by omega
        simp only [this, and_self, if_true]
        rw [List.getElem?_set_self h2]
      · rw [List.getElem?_set_ne (by omega)]
        by_cases hr1 : i + 1 ≤ q ∧ q < i + 1 + k
        · have : i ≤ q ∧ q < i + (k + 1) := by omega
          simp [hr1, this]
        · have : ¬ (i ≤ q ∧ q < i + (k + 1)) := by omega
          simp [hr1, this]

/-- `copyToOut` followed by advancing both cursors by `n` keeps the logical sequence. -/
theorem copyToOut_advance (b : Buf) (n : Nat) (hinv : Inv b) (hn : b.idx + n ≤ b.len)
    (hcap : b.outLen + n ≤ b.outArr.length) :
    ∃ I O, b.copyToOut n = .ok { b with info := I, out := O } ∧
      Inv { b with info := I, out := O, idx := b.idx + n, outLen := b.outLen + n } ∧
      I.length = b.info.length ∧
      ∀ q, seq { b with info := I, out := O, idx := b.idx + n, outLen := b.outLen + n } q = seq b q := by
  have hidx := hinv.idx_le
  have hlen := hinv.len_le
  have hol := hinv.out_len
  unfold copyToOut
  by_cases hs : b.sepOut = true
  · have hcap' : b.outLen + n ≤ b.out.length := by simpa [outArr, hs] using hcap
    obtain ⟨O, hcp, hOlen, hOq⟩ := copyAcross_spec b.info b.out b.idx b.outLen n 0 (by omega) (by omega)
    refine ⟨b.info, O, ?_, ?_, rfl, ?_⟩
    · simp only [hs, if_true, bind, Except.bind, hcp]; rfl
    · exact ⟨by simp; omega, by simpa using hlen, by simp; omega, by simp; omega,
        by intro h; simp [hs] at h, hinv.have_out⟩
    · intro q
      simp only [seq, outArr, hs, if_true]
      by_cases h1 : q < b.outLen
      · have h2 : q < b.outLen + n := by omega
        simp only [h1, h2, if_true]
        rw [hOq q]
        have : ¬ (b.outLen + 0 ≤ q ∧ q < b.outLen + 0 + n) := by omega
        simp only [this, if_false]
      · simp only [h1, if_false]
        by_cases h2 : q < b.outLen + n
        · simp only [h2, if_true]
          rw [hOq q]
          have : b.outLen + 0 ≤ q ∧ q < b.outLen + 0 + n := by omega
          simp only [this, and_self, if_true]
          have h3 : q - b.outLen < b.len - b.idx := by omega
          simp only [h3, if_true]
          congr 1; omega
        · simp only [h2, if_false]
          by_cases h3 : q - b.outLen < b.len - b.idx
          · have h4 : q - (b.outLen + n) < b.len - (b.idx + n) := by omega
            simp only [h3, h4, if_true]
            congr 1; omega
          · have h4 : ¬ q - (b.outLen + n) < b.len - (b.idx + n) := by omega
            simp only [h3, h4, if_false]
  · have hs' : b.sepOut = false := by simpa using hs
    have hns := hinv.nosep_ok hs'
    have hcap' : b.outLen + n ≤ b.info.length := by simpa [outArr, hs'] using hcap
    obtain ⟨I, hcp, hIlen, hIq⟩ := copyWithinFwd_spec b.idx b.outLen hns n 0 b.info (by omega)
    refine ⟨I, b.out, ?_, ?_, hIlen, ?_⟩
    · simp only [hs', Bool.false_eq_true, if_false, bind, Except.bind, hcp]; rfl
    · exact ⟨by simp; omega, by simp; omega, by simp; omega, by intro h; simp [hs'] at h,
        by intro _; simp; omega, hinv.have_out⟩
    · intro q
      simp only [seq, outArr, hs', Bool.false_eq_true, if_false]
      by_cases h1 : q < b.outLen
      · have h2 : q < b.outLen + n := by omega
        simp only [h1, h2, if_true]
        rw [hIq q]
        have : ¬ (b.outLen + 0 ≤ q ∧ q < b.outLen + 0 + n) := by omega
        simp only [this, if_false]
      · simp only [h1, if_false]
        by_cases h2 : q < b.outLen + n
        · simp only [h2, if_true]
          rw [hIq q]
          have : b.outLen + 0 ≤ q ∧ q < b.outLen + 0 + n := by omega
          simp only [this, and_self, if_true]
          have h3 : q - b.outLen < b.len - b.idx := by omega
          simp only [h3, if_true]
          congr 1; omega
        · simp only [h2, if_false]
          by_cases h3 : q - b.outLen < b.len - b.idx
          · have h4 : q - (b.outLen + n) < b.len - (b.idx + n) := by omega
            simp only [h3, h4, if_true]
            rw [hIq]
            have : ¬ (b.outLen + 0 ≤ b.idx + n + (q - (b.outLen + n)) ∧
                b.idx + n + (q - (b.outLen + n)) < b.outLen + 0 + n) := by omega
            simp only [this, if_false]
            congr 1; omega
          · have h4 : ¬ q - (b.outLen + n) < b.len - (b.idx + n) := by omega
            simp only [h3, h4, if_false]

end RbModel.Buf

namespace RbModel.Buf
open RbModel.Mem

/-- `shift_forward` (only ever needed in separate-output mode) moves the unconsumed input up by `count`
    and keeps the logical sequence; or the length budget refuses and nothing but `successful` changes. -/
theorem shiftForward_spec (b : Buf) (count : Nat) (hinv : Inv b) (hs : b.sepOut = true)
    (hg : Gen.Buf.ensureGrowOnly = true) :
    b.shiftForward count = .ok ({ b with successful := false }, false) ∨
    ∃ I O, b.shiftForward count = .ok ({ b with info := I, out := O, len := b.len + count, idx := b.idx + count }, true) ∧
      Inv { b with info := I, out := O, len := b.len + count, idx := b.idx + count } ∧
      ∀ q, seq { b with info := I, out := O, len := b.len + count, idx := b.idx + count } q = seq b q := by
  have hidx := hinv.idx_le
  have hlen := hinv.len_le
  have hol := hinv.out_len
  have hso := hinv.sep_ok hs
  have hho := hinv.have_out
  unfold shiftForward
  have hnho : (!b.haveOutput) = false := by simp [hho]
  simp only [hnho, Bool.false_eq_true, if_false]
  rcases ensure_spec b (b.len + count) hlen hol hg with ⟨h2, h1⟩ | ⟨h2, I, O, h1, hsz, hOI, hle, hI, hO⟩
  · left
    rcases he : b.ensure (b.len + count) with ⟨b1, ok⟩
    rw [he] at h1 h2
    simp at h1 h2
    subst h1 h2
    dsimp only
    simp only [Bool.not_false, if_true]
    rfl
  · right
    rcases he : b.ensure (b.len + count) with ⟨b1, ok⟩
    rw [he] at h1 h2
    simp at h1 h2
    subst h1 h2
    dsimp only
    simp only [Bool.not_true, Bool.false_eq_true, if_false]
    obtain ⟨I1, hcp, hI1len, hI1q⟩ :=
      copyWithinBwd_spec b.idx (b.idx + count) (by omega) (b.len - b.idx) I (by omega)
    by_cases hz : b.idx + count > b.len
    · obtain ⟨I2, hzr, hI2len, hI2q⟩ := zeroRange_spec (b.idx + count - b.len) b.len I1 (by omega)
      refine ⟨I2, O, ?_, ?_, ?_⟩
      · simp only [bind, Except.bind, hcp, hz, if_true]
        have : ¬ b.idx + count > I1.length := by omega
        simp only [this, if_false, hzr]
        rfl
      · exact ⟨by simp; omega, by simp; omega, by simp; omega, by simp; omega,
          by intro h; simp [hs] at h, hho⟩
      · intro q
        simp only [seq, outArr, hs, if_true]
        by_cases h1 : q < b.outLen
        · simp only [h1, if_true]; exact hO q (by omega)
        · simp only [h1, if_false]
          by_cases h3 : q - b.outLen < b.len - b.idx
          · have h4 : q - b.outLen < b.len + count - (b.idx + count) := by omega
            simp only [h3, h4, if_true]
            rw [hI2q]
            have : ¬ (b.len ≤ b.idx + count + (q - b.outLen) ∧
                b.idx + count + (q - b.outLen) < b.len + (b.idx + count - b.len)) := by omega
            simp only [this, if_false]
            rw [hI1q]
            have : b.idx + count ≤ b.idx + count + (q - b.outLen) ∧
                b.idx + count + (q - b.outLen) < b.idx + count + (b.len - b.idx) := by omega
            simp only [this, and_self, if_true]
            have : b.idx + count + (q - b.outLen) - (b.idx + count) + b.idx = b.idx + (q - b.outLen) := by omega
            rw [this]
            exact hI _ (by omega)
          · have h4 : ¬ q - b.outLen < b.len + count - (b.idx + count) := by omega
            simp only [h3, h4, if_false]
    · refine ⟨I1, O, ?_, ?_, ?_⟩
      · simp only [bind, Except.bind, hcp, hz, if_false]
        rfl
      · exact ⟨by simp; omega, by simp; omega, by simp; omega, by simp; omega,
          by intro h; simp [hs] at h, hho⟩
      · intro q
        simp only [seq, outArr, hs, if_true]
        by_cases h1 : q < b.outLen
        · simp only [h1, if_true]; exact hO q (by omega)
        · simp only [h1, if_false]
          by_cases h3 : q - b.outLen < b.len - b.idx
          · have h4 : q - b.outLen < b.len + count - (b.idx + count) := by omega
            simp only [h3, h4, if_true]
            rw [hI1q]
            have : b.idx + count ≤ b.idx + count + (q - b.outLen) ∧
                b.idx + count + (q - b.outLen) < b.idx + count + (b.len - b.idx) := by omega
            simp only [this, and_self, if_true]
            have : b.idx + count + (q - b.outLen) - (b.idx + count) + b.idx = b.idx + (q - b.outLen) := by omega
            rw [this]
            exact hI _ (by omega)
          · have h4 : ¬ q - b.outLen < b.len + count - (b.idx + count) := by omega
            simp only [h3, h4, if_false]

end RbModel.Buf

namespace RbModel.Buf
open RbModel.Mem

/-- The rewind step of `move_to`: step both cursors back by `count`, then copy the `count` glyphs that
    leave the out-buffer back in front of the unconsumed input.  Needs the memmove-safe loop order. -/
theorem copyFromOut_rewind (b : Buf) (count : Nat) (hinv : Inv b) (hc1 : count ≤ b.idx)
    (hc2 : count ≤ b.outLen) (hr : Gen.Buf.moveToRewindReversed = true) :
    ∃ I, copyFromOut { b with idx := b.idx - count, outLen := b.outLen - count } count =
        .ok { b with info := I, idx := b.idx - count, outLen := b.outLen - count } ∧
      Inv { b with info := I, idx := b.idx - count, outLen := b.outLen - count } ∧
      ∀ q, seq { b with info := I, idx := b.idx - count, outLen := b.outLen - count } q = seq b q := by
  have hidx := hinv.idx_le
  have hlen := hinv.len_le
  have hol := hinv.out_len
  unfold copyFromOut
  by_cases hs : b.sepOut = true
  · have hso := hinv.sep_ok hs
    obtain ⟨I, hcp, hIlen, hIq⟩ :=
      copyAcross_spec b.out b.info (b.outLen - count) (b.idx - count) count 0 (by omega) (by omega)
    refine ⟨I, ?_, ?_, ?_⟩
    · simp only [hs, if_true, bind, Except.bind, hcp]; rfl
    · exact ⟨by simp; omega, by simp; omega, by simp; omega, by simp; omega,
        by intro h; simp [hs] at h, hinv.have_out⟩
    · intro q
      simp only [seq, outArr, hs, if_true]
      by_cases h1 : q < b.outLen - count
      · have h2 : q < b.outLen := by omega
        simp only [h1, h2, if_true]
      · simp only [h1, if_false]
        by_cases h2 : q < b.outLen
        · -- a glyph that moved back from the out-buffer
          have h3 : q - (b.outLen - count) < b.len - (b.idx - count) := by omega
          simp only [h2, h3, if_true]
          rw [hIq]
          have : b.idx - count + 0 ≤ b.idx - count + (q - (b.outLen - count)) ∧
              b.idx - count + (q - (b.outLen - count)) < b.idx - count + 0 + count := by omega
          simp only [this, and_self, if_true]
          congr 1; omega
        · simp only [h2, if_false]
          by_cases h3 : q - b.outLen < b.len - b.idx
          · have h4 : q - (b.outLen - count) < b.len - (b.idx - count) := by omega
            simp only [h3, h4, if_true]
            rw [hIq]
            have : ¬ (b.idx - count + 0 ≤ b.idx - count + (q - (b.outLen - count)) ∧
                b.idx - count + (q - (b.outLen - count)) < b.idx - count + 0 + count) := by omega
            simp only [this, if_false]
            congr 1; omega
          · have h4 : ¬ q - (b.outLen - count) < b.len - (b.idx - count) := by omega
            simp only [h3, h4, if_false]
  · have hs' : b.sepOut = false := by simpa using hs
    have hns := hinv.nosep_ok hs'
    obtain ⟨I, hcp, hIlen, hIq⟩ :=
      copyWithinBwd_spec (b.outLen - count) (b.idx - count) (by omega) count b.info (by omega)
    refine ⟨I, ?_, ?_, ?_⟩
    · simp only [hs', Bool.false_eq_true, if_false, hr, if_true, bind, Except.bind, hcp]; rfl
    · exact ⟨by simp; omega, by simp; omega, by simp; omega, by intro h; simp [hs'] at h,
        by intro _; simp; omega, hinv.have_out⟩
    · intro q
      simp only [seq, outArr, hs', Bool.false_eq_true, if_false]
      by_cases h1 : q < b.outLen - count
      · have h2 : q < b.outLen := by omega
        simp only [h1, h2, if_true]
        rw [hIq]
        have : ¬ (b.idx - count ≤ q ∧ q < b.idx - count + count) := by omega
        simp only [this, if_false]
      · simp only [h1, if_false]
        by_cases h2 : q < b.outLen
        · have h3 : q - (b.outLen - count) < b.len - (b.idx - count) := by omega
          simp only [h2, h3, if_true]
          rw [hIq]
          have : b.idx - count ≤ b.idx - count + (q - (b.outLen - count)) ∧
              b.idx - count + (q - (b.outLen - count)) < b.idx - count + count := by omega
          simp only [this, and_self, if_true]
          congr 1; omega
        · simp only [h2, if_false]
          by_cases h3 : q - b.outLen < b.len - b.idx
          · have h4 : q - (b.outLen - count) < b.len - (b.idx - count) := by omega
            simp only [h3, h4, if_true]
            rw [hIq]
            have : ¬ (b.idx - count ≤ b.idx - count + (q - (b.outLen - count)) ∧
                b.idx - count + (q - (b.outLen - count)) < b.idx - count + count) := by omega
            simp only [this, if_false]
            congr 1; omega
          · have h4 : ¬ q - (b.outLen - count) < b.len - (b.idx - count) := by omega
            simp only [h3, h4, if_false]

end RbModel.Buf

namespace RbModel.Buf
open RbModel.Mem

theorem seq_congr (b b' : Buf) (h1 : b'.outLen = b.outLen) (h2 : b'.idx = b.idx) (h3 : b'.len = b.len)
    (hlen : b.len ≤ b.info.length)
    (ho : ∀ q, q < b.outLen → b'.outArr[q]? = b.outArr[q]?)
    (hi : ∀ q, q < b.info.length → b'.info[q]? = b.info[q]?) :
    ∀ q, seq b' q = seq b q := by
  intro q
  simp only [seq, h1, h2, h3]
  by_cases hq : q < b.outLen
  · simp only [hq, if_true]; exact ho q hq
  · simp only [hq, if_false]
    by_cases hq2 : q - b.outLen < b.len - b.idx
    · simp only [hq2, if_true]; exact hi _ (by omega)
    · simp only [hq2, if_false]

/-- `move_to(i)` on the in/out buffer: either the length budget refuses (result `false`, buffer marked
    unsuccessful), or the logical glyph sequence is unchanged and exactly `i` glyphs are on the output side. -/
theorem moveTo_spec (b : Buf) (i : Nat) (hinv : Inv b) (hi : i ≤ total b)
    (hg : Gen.Buf.ensureGrowOnly = true) (hr : Gen.Buf.moveToRewindReversed = true) :
    ∃ b' r, b.moveTo i = .ok (b', r) ∧
      (r = false → b'.successful = false) ∧
      (r = true → Inv b' ∧ b'.outLen = i ∧ total b' = total b ∧ (∀ q, seq b' q = seq b q) ∧
        b'.successful = b.successful ∧ b'.level = b.level ∧ b'.flags = b.flags ∧
        b'.maxLen = b.maxLen ∧ b'.scratch = b.scratch) := by
  have hidx := hinv.idx_le
  have hlen := hinv.len_le
  have hol := hinv.out_len
  have hho := hinv.have_out
  unfold total at hi
  unfold moveTo
  have hnho : (!b.haveOutput) = false := by simp [hho]
  simp only [hnho, Bool.false_eq_true, if_false]
  by_cases hsucc : b.successful = true
  case neg =>
    -- already unsuccessful: returns false
    have : (!b.successful) = true := by simpa using hsucc
    simp only [this, if_true]
    refine ⟨b, false, rfl, ?_, ?_⟩
    · intro _; simpa using hsucc
    · intro h; cases h
  have hns : (!b.successful) = false := by simp [hsucc]
  simp only [hns, Bool.false_eq_true, if_false]
  have hassert : ¬ i > b.outLen + (b.len - b.idx) := by omega
  simp only [hassert, if_false]
  by_cases hfw : b.outLen < i
  · -- forward
    simp only [hfw, if_true]
    rcases makeRoomFor_spec b (i - b.outLen) (i - b.outLen) hinv hg with hfail | ⟨I, O, s, hok, hinv1, hcap, hs1, hs2, hout1, hinf1, hle1⟩
    · simp only [bind, Except.bind, hfail, Bool.not_false, if_true, pure, Except.pure]
      refine ⟨_, false, rfl, ?_, ?_⟩
      · intro _; rfl
      · intro h; cases h
    · obtain ⟨I', O', hcp, hinv2, hI'len, hseq2⟩ :=
        copyToOut_advance { b with info := I, out := O, sepOut := s } (i - b.outLen) hinv1
          (by simp; omega) (by simpa using hcap)
      simp only [bind, Except.bind, hok, Bool.not_true, Bool.false_eq_true, if_false, hcp, pure, Except.pure]
      refine ⟨_, true, rfl, ?_, ?_⟩
      · intro h; cases h
      · intro _
        refine ⟨hinv2, by simp; omega, by simp [total]; omega, ?_, rfl, rfl, rfl, rfl, rfl⟩
        intro q
        rw [hseq2 q]
        exact seq_congr b { b with info := I, out := O, sepOut := s } rfl rfl rfl hlen hout1 hinf1 q
  · simp only [hfw, if_false]
    by_cases hbw : b.outLen > i
    · -- rewind
      simp only [hbw, if_true]
      by_cases hsh : b.idx < b.outLen - i
      · -- the input has to be shifted up first; only possible in separate-output mode
        have hs : b.sepOut = true := by
          cases hsb : b.sepOut with
          | true => rfl
          | false => have := hinv.nosep_ok hsb; omega
        simp only [hsh, if_true]
        rcases shiftForward_spec b (b.outLen - i - b.idx) hinv hs hg with hfail | ⟨I, O, hok, hinv1, hseq1⟩
        · simp only [bind, Except.bind, hfail, Bool.not_false, if_true, pure, Except.pure]
          refine ⟨_, false, rfl, ?_, ?_⟩
          · intro _; rfl
          · intro h; cases h
        · have hrew := copyFromOut_rewind _ (b.outLen - i) hinv1 (by simp; omega) (by simp) hr
          obtain ⟨I', hcp, hinv2, hseq2⟩ := hrew
          have hna : ¬ b.idx + (b.outLen - i - b.idx) < b.outLen - i := by omega
          simp only [bind, Except.bind, hok, Bool.not_true, Bool.false_eq_true, if_false, hna, pure, Except.pure]
          simp only [] at hcp
          rw [hcp]
          refine ⟨_, true, rfl, ?_, ?_⟩
          · intro h; cases h
          · intro _
            refine ⟨hinv2, by simp; omega, by simp [total]; omega, ?_, rfl, rfl, rfl, rfl, rfl⟩
            intro q
            rw [hseq2 q, hseq1 q]
      · simp only [hsh, if_false]
        obtain ⟨I', hcp, hinv2, hseq2⟩ := copyFromOut_rewind b (b.outLen - i) hinv (by omega) (by omega) hr
        simp only [bind, Except.bind, pure, Except.pure, Bool.not_true, Bool.false_eq_true, if_false, hsh]
        rw [hcp]
        refine ⟨_, true, rfl, ?_, ?_⟩
        · intro h; cases h
        · intro _
          exact ⟨hinv2, by simp; omega, by simp [total]; omega, hseq2, rfl, rfl, rfl, rfl, rfl⟩
    · simp only [hbw, if_false]
      refine ⟨b, true, rfl, ?_, ?_⟩
      · intro h; cases h
      · intro _
        exact ⟨hinv, by omega, rfl, fun _ => rfl, rfl, rfl, rfl, rfl, rfl⟩

end RbModel.Buf

namespace RbModel.Buf
open RbModel.Mem

/-- Writing one glyph at the output cursor and advancing the input cursor by `adv`:
    the logical sequence becomes `O ++ [x] ++ R.drop adv`. -/
theorem emit_spec (b : Buf) (x : Info) (adv : Nat) (hinv : Inv b) (hcap : b.outLen + 1 ≤ b.outArr.length)
    (hadv : b.idx + adv ≤ b.len) (hns : b.sepOut = false → b.outLen + 1 ≤ b.idx + adv) :
    ∃ I O, b.setOut b.outLen x = .ok { b with info := I, out := O } ∧
      Inv { b with info := I, out := O, outLen := b.outLen + 1, idx := b.idx + adv } ∧
      ∀ q, seq { b with info := I, out := O, outLen := b.outLen + 1, idx := b.idx + adv } q =
        if q < b.outLen then seq b q else if q = b.outLen then some x else seq b (q - 1 + adv) := by
  have hidx := hinv.idx_le
  have hlen := hinv.len_le
  have hol := hinv.out_len
  unfold setOut
  by_cases hs : b.sepOut = true
  · have hcap' : b.outLen < b.out.length := by simp [outArr, hs] at hcap; omega
    refine ⟨b.info, b.out.set b.outLen x, ?_, ?_, ?_⟩
    · simp only [outArr, hs, if_true, put_ok _ hcap', bind, Except.bind, setOutArr]; rfl
    · exact ⟨by simp; omega, by simpa using hlen, by simp; omega, by simp; omega,
        by intro h; simp [hs] at h, hinv.have_out⟩
    · intro q
      simp only [seq, outArr, hs, if_true]
      by_cases h1 : q < b.outLen
      · have h2 : q < b.outLen + 1 := by omega
        simp only [h1, h2, if_true]
        rw [List.getElem?_set_ne (by omega)]
      · simp only [h1, if_false]
        by_cases h2 : q = b.outLen
        · subst h2
          simp only [Nat.lt_succ_self, if_true]
          rw [List.getElem?_set_self hcap']
        · have h3 : ¬ q < b.outLen + 1 := by omega
          have h4 : ¬ q - 1 + adv < b.outLen := by omega
          simp only [h2, h3, h4, if_false]
          by_cases h5 : q - (b.outLen + 1) < b.len - (b.idx + adv)
          · have h6 : q - 1 + adv - b.outLen < b.len - b.idx := by omega
            simp only [h5, h6, if_true]
            congr 1; omega
          · have h6 : ¬ q - 1 + adv - b.outLen < b.len - b.idx := by omega
            simp only [h5, h6, if_false]
  · have hs' : b.sepOut = false := by simpa using hs
    have hns' := hns hs'
    have hcap' : b.outLen < b.info.length := by simp [outArr, hs'] at hcap; omega
    refine ⟨b.info.set b.outLen x, b.out, ?_, ?_, ?_⟩
    · simp only [outArr, hs', Bool.false_eq_true, if_false, put_ok _ hcap', bind, Except.bind, setOutArr]; rfl
    · exact ⟨by simp; omega, by simp; omega, by simp; omega, by intro h; simp [hs'] at h,
        by intro _; simp; omega, hinv.have_out⟩
    · intro q
      simp only [seq, outArr, hs', Bool.false_eq_true, if_false]
      by_cases h1 : q < b.outLen
      · have h2 : q < b.outLen + 1 := by omega
        simp only [h1, h2, if_true]
        rw [List.getElem?_set_ne (by omega)]
      · simp only [h1, if_false]
        by_cases h2 : q = b.outLen
        · subst h2
          simp only [Nat.lt_succ_self, if_true]
          rw [List.getElem?_set_self hcap']
        · have h3 : ¬ q < b.outLen + 1 := by omega
          have h4 : ¬ q - 1 + adv < b.outLen := by omega
          simp only [h2, h3, h4, if_false]
          by_cases h5 : q - (b.outLen + 1) < b.len - (b.idx + adv)
          · have h6 : q - 1 + adv - b.outLen < b.len - b.idx := by omega
            simp only [h5, h6, if_true]
            rw [List.getElem?_set_ne (by omega)]
            congr 1; omega
          · have h6 : ¬ q - 1 + adv - b.outLen < b.len - b.idx := by omega
            simp only [h5, h6, if_false]

end RbModel.Buf

namespace RbModel.Buf
open RbModel.Mem

theorem seq_at_outLen (b : Buf) (h : b.idx < b.len) : seq b b.outLen = b.info[b.idx]? := by
  simp only [seq, Nat.lt_irrefl, if_false, Nat.sub_self]
  have : 0 < b.len - b.idx := by omega
  simp only [this, if_true, Nat.add_zero]

/-- `next_glyph`: one glyph moves from the input side to the output side, nothing else changes. -/
theorem nextGlyph_spec (b : Buf) (hinv : Inv b) (hcur : b.idx < b.len)
    (hg : Gen.Buf.ensureGrowOnly = true) :
    ∃ b', b.nextGlyph = .ok b' ∧
      (b' = { b with successful := false } ∨
       (Inv b' ∧ b'.outLen = b.outLen + 1 ∧ b'.idx = b.idx + 1 ∧ b'.len = b.len ∧
        b'.successful = b.successful ∧ ∀ q, seq b' q = seq b q)) := by
  have hidx := hinv.idx_le
  have hlen := hinv.len_le
  have hho := hinv.have_out
  unfold nextGlyph
  rw [if_pos hho]
  by_cases hc : (b.sepOut || b.outLen != b.idx) = true
  · simp only [hc, if_true]
    rcases makeRoomFor_spec b 1 1 hinv hg with hfail | ⟨I, O, s, hok, hinv1, hcap, hs1, hs2, hout1, hinf1, hle1⟩
    · simp only [bind, Except.bind, hfail, Bool.not_false, if_true, pure, Except.pure]
      exact ⟨_, rfl, Or.inl rfl⟩
    · have hx : I[b.idx]? = some b.info[b.idx] := by
        rw [hinf1 b.idx (by omega)]; exact List.getElem?_eq_getElem (by omega)
      have hget : get I b.idx = .ok b.info[b.idx] := by unfold get; rw [hx]; rfl
      obtain ⟨I', O', hset, hinv2, hseq2⟩ :=
        emit_spec { b with info := I, out := O, sepOut := s } b.info[b.idx] 1 hinv1 (by simpa using hcap)
          (by simp; omega) (by intro h; simp at h; have := hs1 h; simp; omega)
      simp only [bind, Except.bind, hok, Bool.not_true, Bool.false_eq_true, if_false, hget, pure, Except.pure]
      simp only [] at hset
      rw [hset]
      refine ⟨_, rfl, Or.inr ⟨hinv2, rfl, rfl, rfl, rfl, ?_⟩⟩
      intro q
      rw [hseq2 q]
      have hb1 : ∀ q, seq { b with info := I, out := O, sepOut := s } q = seq b q :=
        seq_congr b { b with info := I, out := O, sepOut := s } rfl rfl rfl hlen hout1 hinf1
      by_cases h1 : q < b.outLen
      · simp only [h1, if_true]; exact hb1 q
      · by_cases h2 : q = b.outLen
        · subst h2
          simp only [Nat.lt_irrefl, if_false, if_true]
          rw [seq_at_outLen b hcur]; exact (List.getElem?_eq_getElem (by omega)).symm
        · simp only [h1, h2, if_false]
          have : q - 1 + 1 = q := by omega
          rw [this]; exact hb1 q
  · have hc' : b.sepOut = false ∧ b.outLen = b.idx := by
      simp at hc; exact hc
    simp only [hc, Bool.false_eq_true, if_false, pure, Except.pure]
    refine ⟨_, rfl, Or.inr ⟨?_, rfl, rfl, rfl, rfl, ?_⟩⟩
    · exact ⟨by simp; omega, by simpa using hlen, hinv.out_len, by intro h; simp [hc'.1] at h,
        by intro _; simp; omega, hho⟩
    · intro q
      simp only [seq, outArr, hc'.1, Bool.false_eq_true, if_false]
      by_cases h1 : q < b.outLen
      · have h2 : q < b.outLen + 1 := by omega
        simp only [h1, h2, if_true]
      · simp only [h1, if_false]
        by_cases h2 : q = b.outLen
        · subst h2
          simp only [Nat.lt_succ_self, if_true, Nat.sub_self, Nat.add_zero]
          have : 0 < b.len - b.idx := by omega
          simp only [this, if_true]
          rw [hc'.2]
        · have h3 : ¬ q < b.outLen + 1 := by omega
          simp only [h3, if_false]
          by_cases h5 : q - (b.outLen + 1) < b.len - (b.idx + 1)
          · have h6 : q - b.outLen < b.len - b.idx := by omega
            simp only [h5, h6, if_true]
            congr 1; omega
          · have h6 : ¬ q - b.outLen < b.len - b.idx := by omega
            simp only [h5, h6, if_false]

end RbModel.Buf

namespace RbModel.Buf
open RbModel.Mem

theorem setOut_twice (b : Buf) (i : Nat) (x y : Info) (b1 : Buf) (h : b.setOut i x = .ok b1) :
    b1.setOut i y = b.setOut i y ∧ b1.outArr[i]? = some x := by
  unfold setOut at *
  by_cases hs : b.sepOut = true
  · simp only [outArr, hs, if_true, setOutArr, bind, Except.bind] at *
    cases hp : put b.out i x with
    | error e => rw [hp] at h; cases h
    | ok l =>
      rw [hp] at h
      obtain ⟨hi, hl⟩ := put_eq_ok hp
      cases h
      simp only [hs, if_true]
      subst hl
      constructor
      · rw [put_ok _ (by simpa using hi), put_ok _ hi]; simp [pure, Except.pure, List.set_set]
      · exact List.getElem?_set_self hi
  · have hs' : b.sepOut = false := by simpa using hs
    simp only [outArr, hs', Bool.false_eq_true, if_false, setOutArr, bind, Except.bind] at *
    cases hp : put b.info i x with
    | error e => rw [hp] at h; cases h
    | ok l =>
      rw [hp] at h
      obtain ⟨hi, hl⟩ := put_eq_ok hp
      cases h
      simp only [hs', Bool.false_eq_true, if_false]
      subst hl
      constructor
      · rw [put_ok _ (by simpa using hi), put_ok _ hi]; simp [pure, Except.pure, List.set_set]
      · exact List.getElem?_set_self hi

end RbModel.Buf

namespace RbModel.Buf
open RbModel.Mem

/-- `replace_glyph g`: the current glyph moves to the output side with its glyph id replaced by `g`
    (cluster, mask and payload kept). -/
theorem replaceGlyph_spec (b : Buf) (g : Nat) (hinv : Inv b) (hcur : b.idx < b.len)
    (hg : Gen.Buf.ensureGrowOnly = true) :
    ∃ b', b.replaceGlyph g = .ok b' ∧
      (b' = { b with successful := false } ∨
       (Inv b' ∧ b'.outLen = b.outLen + 1 ∧ b'.idx = b.idx + 1 ∧ b'.len = b.len ∧
        b'.successful = b.successful ∧
        ∃ x, b.info[b.idx]? = some x ∧
          ∀ q, seq b' q = if q = b.outLen then some { x with gid := g } else seq b q)) := by
  have hidx := hinv.idx_le
  have hlen := hinv.len_le
  have hxx : b.info[b.idx]? = some b.info[b.idx] := List.getElem?_eq_getElem (by omega)
  unfold replaceGlyph
  by_cases hc : (b.sepOut || b.outLen != b.idx) = true
  · simp only [hc, if_true]
    rcases makeRoomFor_spec b 1 1 hinv hg with hfail | ⟨I, O, s, hok, hinv1, hcap, hs1, hs2, hout1, hinf1, hle1⟩
    · simp only [bind, Except.bind, hfail, Bool.not_false, if_true, pure, Except.pure]
      exact ⟨_, rfl, Or.inl rfl⟩
    · have hx : I[b.idx]? = some b.info[b.idx] := by
        rw [hinf1 b.idx (by omega)]; exact List.getElem?_eq_getElem (by omega)
      have hget : get I b.idx = .ok b.info[b.idx] := by unfold get; rw [hx]; rfl
      obtain ⟨I1, O1, hset1, _, _⟩ :=
        emit_spec { b with info := I, out := O, sepOut := s } b.info[b.idx] 1 hinv1 (by simpa using hcap)
          (by simp; omega) (by intro h; simp at h; have := hs1 h; simp; omega)
      obtain ⟨I', O', hset, hinv2, hseq2⟩ :=
        emit_spec { b with info := I, out := O, sepOut := s } { b.info[b.idx] with gid := g } 1 hinv1
          (by simpa using hcap) (by simp; omega) (by intro h; simp at h; have := hs1 h; simp; omega)
      simp only [] at hset1 hset
      obtain ⟨htw, hback⟩ := setOut_twice _ b.outLen _ { b.info[b.idx] with gid := g } _ hset1
      have hget2 : get (outArr { b with info := I1, out := O1, sepOut := s }) b.outLen = .ok b.info[b.idx] := by
        unfold get; rw [hback]; rfl
      simp only [bind, Except.bind, hok, Bool.not_true, Bool.false_eq_true, if_false, hget, pure, Except.pure, hset1]
      simp only [] at htw hget2
      simp only [hget2, htw, hset]
      refine ⟨_, rfl, Or.inr ⟨hinv2, rfl, rfl, rfl, rfl, _, hxx, ?_⟩⟩
      intro q
      rw [hseq2 q]
      have hb1 : ∀ q, seq { b with info := I, out := O, sepOut := s } q = seq b q :=
        seq_congr b { b with info := I, out := O, sepOut := s } rfl rfl rfl hlen hout1 hinf1
      by_cases h1 : q < b.outLen
      · have : q ≠ b.outLen := by omega
        simp only [h1, if_true, this, if_false]; exact hb1 q
      · by_cases h2 : q = b.outLen
        · subst h2; simp only [Nat.lt_irrefl, if_false, if_true]
        · simp only [h1, h2, if_false]
          have : q - 1 + 1 = q := by omega
          rw [this]; exact hb1 q
  · have hc' : b.sepOut = false ∧ b.outLen = b.idx := by
      simp at hc; exact hc
    have hget : get b.outArr b.outLen = .ok b.info[b.idx] := by
      simp only [outArr, hc'.1, Bool.false_eq_true, if_false, hc'.2]; exact get_ok (by omega)
    obtain ⟨I', O', hset, hinv2, hseq2⟩ :=
      emit_spec b { b.info[b.idx] with gid := g } 1 hinv
        (by simp only [outArr, hc'.1, Bool.false_eq_true, if_false]; omega) (by omega) (by intro _; omega)
    simp only [hc, Bool.false_eq_true, if_false, bind, Except.bind, pure, Except.pure, hget, hset]
    refine ⟨_, rfl, Or.inr ⟨hinv2, rfl, rfl, rfl, rfl, _, hxx, ?_⟩⟩
    intro q
    rw [hseq2 q]
    by_cases h1 : q < b.outLen
    · have : q ≠ b.outLen := by omega
      simp only [h1, if_true, this, if_false]
    · by_cases h2 : q = b.outLen
      · subst h2; simp only [Nat.lt_irrefl, if_false, if_true]
      · simp only [h1, h2, if_false]
        have : q - 1 + 1 = q := by omega
        rw [this]

end RbModel.Buf

namespace RbModel.Buf
open RbModel.Mem

/-- common core of `output_info`, `copy_glyph`, `output_glyph`: make room for one more output glyph,
    write `x` at the output cursor, advance only the output cursor. -/
theorem insert_spec (b : Buf) (hinv : Inv b) (hg : Gen.Buf.ensureGrowOnly = true) :
    b.makeRoomFor 0 1 = .ok ({ b with successful := false }, false) ∨
    ∃ b1, b.makeRoomFor 0 1 = .ok (b1, true) ∧ b1.outLen = b.outLen ∧ b1.idx = b.idx ∧ b1.len = b.len ∧
      b1.successful = b.successful ∧ (∀ q, seq b1 q = seq b q) ∧
      (∀ q, q < b.info.length → b1.info[q]? = b.info[q]?) ∧
      (∀ q, q < b.outLen → b1.outArr[q]? = b.outArr[q]?) ∧
      ∀ x, ∃ I O, b1.setOut b1.outLen x = .ok { b1 with info := I, out := O } ∧
        Inv { b1 with info := I, out := O, outLen := b.outLen + 1 } ∧
        ∀ q, seq { b1 with info := I, out := O, outLen := b.outLen + 1 } q =
          if q < b.outLen then seq b q else if q = b.outLen then some x else seq b (q - 1) := by
  have hlen := hinv.len_le
  rcases makeRoomFor_spec b 0 1 hinv hg with hfail | ⟨I, O, s, hok, hinv1, hcap, hs1, hs2, hout1, hinf1, hle1⟩
  · exact Or.inl hfail
  · right
    refine ⟨_, hok, rfl, rfl, rfl, rfl, ?_, hinf1, hout1, ?_⟩
    · exact seq_congr b { b with info := I, out := O, sepOut := s } rfl rfl rfl hlen hout1 hinf1
    · intro x
      obtain ⟨I', O', hset, hinv2, hseq2⟩ :=
        emit_spec { b with info := I, out := O, sepOut := s } x 0 hinv1 (by simpa using hcap)
          (by simp; exact hinv.idx_le) (by intro h; simp at h; have := hs1 h; simp; omega)
      refine ⟨I', O', hset, by simpa using hinv2, ?_⟩
      intro q
      have := hseq2 q
      simp only [Nat.add_zero] at this ⊢
      rw [this]
      have hb1 : ∀ q, seq { b with info := I, out := O, sepOut := s } q = seq b q :=
        seq_congr b { b with info := I, out := O, sepOut := s } rfl rfl rfl hlen hout1 hinf1
      by_cases h1 : q < b.outLen
      · simp only [h1, if_true]; exact hb1 q
      · by_cases h2 : q = b.outLen
        · subst h2; simp only [Nat.lt_irrefl, if_false, if_true]
        · simp only [h1, h2, if_false]; exact hb1 _

/-- `output_info x`: `x` is inserted at the output cursor; the input side is untouched. -/
theorem outputInfo_spec (b : Buf) (x : Info) (hinv : Inv b) (hg : Gen.Buf.ensureGrowOnly = true) :
    ∃ b', b.outputInfo x = .ok b' ∧
      (b' = { b with successful := false } ∨
       (Inv b' ∧ b'.outLen = b.outLen + 1 ∧ b'.idx = b.idx ∧ b'.len = b.len ∧ b'.successful = b.successful ∧
        ∀ q, seq b' q = if q < b.outLen then seq b q else if q = b.outLen then some x else seq b (q - 1))) := by
  unfold outputInfo
  rcases insert_spec b hinv hg with hfail | ⟨b1, hok, ho, hi, hl, hsu, _, _, _, hx⟩
  · simp only [bind, Except.bind, hfail, Bool.not_false, if_true, pure, Except.pure]
    exact ⟨_, rfl, Or.inl rfl⟩
  · obtain ⟨I, O, hset, hinv2, hseq2⟩ := hx x
    simp only [bind, Except.bind, hok, Bool.not_true, Bool.false_eq_true, if_false, hset, pure, Except.pure]
    rw [ho]
    exact ⟨_, rfl, Or.inr ⟨hinv2, rfl, hi, hl, hsu, hseq2⟩⟩

/-- `copy_glyph`: the current glyph is duplicated onto the output side; the input cursor stays. -/
theorem copyGlyph_spec (b : Buf) (hinv : Inv b) (hcur : b.idx < b.len) (hg : Gen.Buf.ensureGrowOnly = true) :
    ∃ b', b.copyGlyph = .ok b' ∧
      (b' = { b with successful := false } ∨
       (Inv b' ∧ b'.outLen = b.outLen + 1 ∧ b'.idx = b.idx ∧ b'.len = b.len ∧ b'.successful = b.successful ∧
        ∀ q, seq b' q = if q < b.outLen then seq b q else if q = b.outLen then b.info[b.idx]? else seq b (q - 1))) := by
  have hlen := hinv.len_le
  unfold copyGlyph
  rcases insert_spec b hinv hg with hfail | ⟨b1, hok, ho, hi, hl, hsu, _, hinf, _, hx⟩
  · simp only [bind, Except.bind, hfail, Bool.not_false, if_true, pure, Except.pure]
    exact ⟨_, rfl, Or.inl rfl⟩
  · have hxx : b.info[b.idx]? = some b.info[b.idx] := List.getElem?_eq_getElem (by omega)
    have hget : get b1.info b1.idx = .ok b.info[b.idx] := by
      unfold get; rw [hi, hinf b.idx (by omega), hxx]; rfl
    obtain ⟨I, O, hset, hinv2, hseq2⟩ := hx b.info[b.idx]
    simp only [bind, Except.bind, hok, Bool.not_true, Bool.false_eq_true, if_false, hget, hset, pure, Except.pure]
    rw [ho]
    refine ⟨_, rfl, Or.inr ⟨hinv2, rfl, hi, hl, hsu, ?_⟩⟩
    intro q; rw [hseq2 q, hxx]

/-- `skip_glyph`: the current glyph is dropped from the logical sequence. -/
theorem skipGlyph_spec (b : Buf) (hinv : Inv b) (hcur : b.idx < b.len) (hns : b.sepOut = false → b.outLen ≤ b.idx) :
    Inv b.skipGlyph ∧ ∀ q, seq b.skipGlyph q = if q < b.outLen then seq b q else seq b (q + 1) := by
  have hidx := hinv.idx_le
  unfold skipGlyph
  constructor
  · exact ⟨by simp; omega, by simpa using hinv.len_le, hinv.out_len, hinv.sep_ok,
      by intro h; have := hinv.nosep_ok h; simp; omega, hinv.have_out⟩
  · intro q
    simp only [seq, outArr]
    by_cases h1 : q < b.outLen
    · simp only [h1, if_true]
    · have h2 : ¬ q + 1 < b.outLen := by omega
      simp only [h1, h2, if_false]
      by_cases h3 : q - b.outLen < b.len - (b.idx + 1)
      · have h4 : q + 1 - b.outLen < b.len - b.idx := by omega
        simp only [h3, h4, if_true]
        congr 1; omega
      · have h4 : ¬ q + 1 - b.outLen < b.len - b.idx := by omega
        simp only [h3, h4, if_false]

/-- `next_glyphs n` -/
theorem nextGlyphs_spec (b : Buf) (n : Nat) (hinv : Inv b) (hn : b.idx + n ≤ b.len)
    (hg : Gen.Buf.ensureGrowOnly = true) :
    ∃ b', b.nextGlyphs n = .ok b' ∧
      (b' = { b with successful := false } ∨
       (Inv b' ∧ b'.outLen = b.outLen + n ∧ b'.idx = b.idx + n ∧ b'.len = b.len ∧
        b'.successful = b.successful ∧ ∀ q, seq b' q = seq b q)) := by
  have hidx := hinv.idx_le
  have hlen := hinv.len_le
  have hho := hinv.have_out
  unfold nextGlyphs
  rw [if_pos hho]
  by_cases hc : (b.sepOut || b.outLen != b.idx) = true
  · simp only [hc, if_true]
    rcases makeRoomFor_spec b n n hinv hg with hfail | ⟨I, O, s, hok, hinv1, hcap, hs1, hs2, hout1, hinf1, hle1⟩
    · simp only [bind, Except.bind, hfail, Bool.not_false, if_true, pure, Except.pure]
      exact ⟨_, rfl, Or.inl rfl⟩
    · obtain ⟨I', O', hcp, hinv2, _, hseq2⟩ :=
        copyToOut_advance { b with info := I, out := O, sepOut := s } n hinv1 (by simp; omega) (by simpa using hcap)
      simp only [bind, Except.bind, hok, Bool.not_true, Bool.false_eq_true, if_false, hcp, pure, Except.pure]
      refine ⟨_, rfl, Or.inr ⟨hinv2, rfl, rfl, rfl, rfl, ?_⟩⟩
      intro q
      rw [hseq2 q]
      exact seq_congr b { b with info := I, out := O, sepOut := s } rfl rfl rfl hlen hout1 hinf1 q
  · have hc' : b.sepOut = false ∧ b.outLen = b.idx := by
      simp at hc; exact hc
    simp only [hc, Bool.false_eq_true, if_false, pure, Except.pure]
    refine ⟨_, rfl, Or.inr ⟨?_, rfl, rfl, rfl, rfl, ?_⟩⟩
    · exact ⟨by simp; omega, by simpa using hlen, hinv.out_len, by intro h; simp [hc'.1] at h,
        by intro _; simp; omega, hho⟩
    · intro q
      simp only [seq, outArr, hc'.1, Bool.false_eq_true, if_false]
      by_cases h1 : q < b.outLen
      · have h2 : q < b.outLen + n := by omega
        simp only [h1, h2, if_true]
      · simp only [h1, if_false]
        by_cases h2 : q < b.outLen + n
        · have h3 : q - b.outLen < b.len - b.idx := by omega
          simp only [h2, h3, if_true]
          congr 1; omega
        · simp only [h2, if_false]
          by_cases h5 : q - (b.outLen + n) < b.len - (b.idx + n)
          · have h6 : q - b.outLen < b.len - b.idx := by omega
            simp only [h5, h6, if_true]
            congr 1; omega
          · have h6 : ¬ q - b.outLen < b.len - b.idx := by omega
            simp only [h5, h6, if_false]

end RbModel.Buf

namespace RbModel.Buf
open RbModel.Mem

/-- `output_glyph g`: a copy of the current glyph (or, at the end of input, of the last output glyph)
    with glyph id `g` is inserted at the output cursor; on an entirely empty buffer nothing happens. -/
theorem outputGlyph_spec (b : Buf) (g : Nat) (hinv : Inv b) (hg : Gen.Buf.ensureGrowOnly = true) :
    ∃ b', b.outputGlyph g = .ok b' ∧
      (b'.successful = false ∨
       (b.idx = b.len ∧ b.outLen = 0 ∧ (∀ q, seq b' q = seq b q) ∧ b'.outLen = 0 ∧ b'.idx = b.idx ∧ b'.len = b.len) ∨
       (Inv b' ∧ b'.outLen = b.outLen + 1 ∧ b'.idx = b.idx ∧ b'.len = b.len ∧ b'.successful = b.successful ∧
        ∃ x, (if b.idx < b.len then b.info[b.idx]? else b.outArr[b.outLen - 1]?) = some x ∧
          ∀ q, seq b' q = if q < b.outLen then seq b q else if q = b.outLen then some { x with gid := g }
                          else seq b (q - 1))) := by
  have hlen := hinv.len_le
  have hidx := hinv.idx_le
  unfold outputGlyph
  rcases insert_spec b hinv hg with hfail | ⟨b1, hok, ho, hi, hl, hsu, hsq, hinf, hout, hx⟩
  · simp only [bind, Except.bind, hfail, Bool.not_false, if_true, pure, Except.pure]
    exact ⟨_, rfl, Or.inl rfl⟩
  · simp only [bind, Except.bind, hok, Bool.not_true, Bool.false_eq_true, if_false, pure, Except.pure]
    by_cases hempty : (b1.idx == b1.len && b1.outLen == 0) = true
    · simp only [hempty, if_true]
      have : b.idx = b.len ∧ b.outLen = 0 := by
        simp at hempty; rw [hi, hl, ho] at hempty; exact hempty
      exact ⟨_, rfl, Or.inr (Or.inl ⟨this.1, this.2, hsq, by rw [ho]; exact this.2, hi, hl⟩)⟩
    · simp only [hempty, Bool.false_eq_true, if_false]
      by_cases hcur : b1.idx < b1.len
      · have hcur' : b.idx < b.len := by rw [hi, hl] at hcur; exact hcur
        have hxx : b.info[b.idx]? = some b.info[b.idx] := List.getElem?_eq_getElem (by omega)
        have hget : get b1.info b1.idx = .ok b.info[b.idx] := by
          unfold get; rw [hi, hinf b.idx (by omega), hxx]; rfl
        obtain ⟨I, O, hset, hinv2, hseq2⟩ := hx { b.info[b.idx] with gid := g }
        simp only [hcur, if_true, hget, hset]
        rw [ho]
        refine ⟨_, rfl, Or.inr (Or.inr ⟨hinv2, rfl, hi, hl, hsu, b.info[b.idx], ?_, hseq2⟩)⟩
        simp only [hcur', if_true]; exact hxx
      · have hcur' : ¬ b.idx < b.len := by rw [hi, hl] at hcur; exact hcur
        have hne : b.outLen ≠ 0 := by
          intro h0
          apply hempty
          simp; rw [hi, hl, ho]; exact ⟨by omega, h0⟩
        have hne1 : ¬ b1.outLen = 0 := by rw [ho]; exact hne
        -- the last output glyph exists
        have hpos : b.outLen - 1 < b.outArr.length := by
          cases hsb : b.sepOut with
          | true => have := hinv.sep_ok hsb; simp [outArr, hsb]; omega
          | false => have := hinv.nosep_ok hsb; simp [outArr, hsb]; omega
        have hxx : b.outArr[b.outLen - 1]? = some b.outArr[b.outLen - 1] := List.getElem?_eq_getElem hpos
        have hget : get b1.outArr (b1.outLen - 1) = .ok b.outArr[b.outLen - 1] := by
          unfold get; rw [ho, hout (b.outLen - 1) (by omega), hxx]; rfl
        obtain ⟨I, O, hset, hinv2, hseq2⟩ := hx { b.outArr[b.outLen - 1] with gid := g }
        simp only [hcur, if_false, hne1, hget, hset]
        rw [ho]
        refine ⟨_, rfl, Or.inr (Or.inr ⟨hinv2, rfl, hi, hl, hsu, b.outArr[b.outLen - 1], ?_, hseq2⟩)⟩
        simp only [hcur', if_false]; exact hxx

end RbModel.Buf

namespace RbModel.Buf
open RbModel.Mem

/-- `sync`: the logical sequence becomes the buffer content (`info[0..len)`), output mode ends. -/
theorem sync_spec (b : Buf) (hinv : Inv b) (hg : Gen.Buf.ensureGrowOnly = true) :
    ∃ b' r, b.sync = .ok (b', r) ∧
      (b'.successful = false ∨
       (r = true ∧ b'.len = total b ∧ b'.idx = 0 ∧ b'.outLen = 0 ∧ b'.haveOutput = false ∧ b'.sepOut = false ∧
        b'.len ≤ b'.info.length ∧ b'.out.length = b'.info.length ∧
        ∀ q, q < b'.len → b'.info[q]? = seq b q)) := by
  have hidx := hinv.idx_le
  have hho := hinv.have_out
  unfold sync
  have hnho : (!b.haveOutput) = false := by simp [hho]
  have hnidx : ¬ b.idx > b.len := by omega
  simp only [hnho, Bool.false_eq_true, if_false, hnidx]
  by_cases hsucc : b.successful = true
  case neg =>
    have : (!b.successful) = true := by simpa using hsucc
    simp only [this, if_true, pure, Except.pure]
    exact ⟨_, _, rfl, Or.inl (by simpa using hsucc)⟩
  have hns : (!b.successful) = false := by simp [hsucc]
  simp only [hns, Bool.false_eq_true, if_false]
  obtain ⟨b1, hng, hcase⟩ := nextGlyphs_spec b (b.len - b.idx) hinv (by omega) hg
  simp only [bind, Except.bind, hng, pure, Except.pure]
  rcases hcase with hfail | ⟨hinv1, ho1, hi1, hl1, hsu1, hseq1⟩
  · refine ⟨_, _, rfl, Or.inl ?_⟩
    subst hfail
    by_cases hs : b.sepOut = true <;> simp [hs]
  · have hfull : b1.idx = b1.len := by omega
    refine ⟨_, _, rfl, Or.inr ⟨rfl, ?_, rfl, rfl, rfl, ?_, ?_, ?_, ?_⟩⟩
    · by_cases hs : b1.sepOut = true <;> simp [hs, total] <;> omega
    · by_cases hs : b1.sepOut = true <;> simp [hs]
    · by_cases hs : b1.sepOut = true
      · have := hinv1.sep_ok hs; simp [hs]; omega
      · have hs' : b1.sepOut = false := by simpa using hs
        have := hinv1.nosep_ok hs'; have := hinv1.len_le; simp [hs']; omega
    · by_cases hs : b1.sepOut = true
      · simp [hs]; exact hinv1.out_len.symm
      · have hs' : b1.sepOut = false := by simpa using hs
        simp [hs']; exact hinv1.out_len
    · intro q hq
      rw [← hseq1 q]
      by_cases hs : b1.sepOut = true
      · simp only [hs, if_true] at hq ⊢
        simp only [seq, outArr, hs, if_true]
        have : q < b1.outLen := by simpa using hq
        simp only [this, if_true]
      · have hs' : b1.sepOut = false := by simpa using hs
        simp only [hs', Bool.false_eq_true, if_false] at hq ⊢
        simp only [seq, outArr, hs', Bool.false_eq_true, if_false]
        have : q < b1.outLen := by simpa using hq
        simp only [this, if_true]

end RbModel.Buf
