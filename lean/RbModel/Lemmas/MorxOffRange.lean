import RbModel.Lemmas.Morx

/-
  Lemmas/MorxOffRange — the loop of `drive` over a stretch of glyphs for which the subtable is switched off by
  a ranged user feature (`range_flags[range].flags & subtable_flags == 0`): the glyphs are copied through, the
  machine is in START_OF_TEXT behind the stretch whatever state it was in before it.
  Used by Props/C17.lean (`C17_drive_restarts_after_off_range*`).
-/
namespace RbModel.Morx
open RbModel RbModel.Gen.Morx

/-- what `psi` reads of a shared-model buffer after a step: `len` and `max_ops` as before, and either the
    allocation failed (`successful = false`) or `successful` is as before and `idx` moved by `k`. -/
def StepS (k : Nat) (s s' : RbModel.Buf) : Prop :=
  s'.len = s.len ∧ s'.maxOps = s.maxOps ∧
    (s'.successful = false ∨ (s'.successful = s.successful ∧ s'.idx = s.idx + k))

theorem ensure_psi (s : RbModel.Buf) (n : Nat) :
    (s.ensure n).1.len = s.len ∧ (s.ensure n).1.maxOps = s.maxOps ∧ (s.ensure n).1.idx = s.idx ∧
    (((s.ensure n).2 = true ∧ (s.ensure n).1.successful = s.successful) ∨
     ((s.ensure n).2 = false ∧ (s.ensure n).1.successful = false)) := by
  unfold RbModel.Buf.ensure
  split
  · simp
  · split
    · simp
    · split <;> simp

theorem makeRoomFor_psi {s : RbModel.Buf} {a o : Nat} {r : RbModel.Buf × Bool}
    (h : s.makeRoomFor a o = .ok r) :
    r.1.len = s.len ∧ r.1.maxOps = s.maxOps ∧ r.1.idx = s.idx ∧
    ((r.2 = true ∧ r.1.successful = s.successful) ∨ (r.2 = false ∧ r.1.successful = false)) := by
  have he := ensure_psi s (s.outLen + o)
  unfold RbModel.Buf.makeRoomFor at h
  generalize s.ensure (s.outLen + o) = p at h he
  obtain ⟨b1, ok⟩ := p
  simp only [] at h he
  obtain ⟨e1, e2, e3, e4⟩ := he
  split at h
  · cases h
    rename_i hok
    simp only [Bool.not_eq_true'] at hok
    subst hok
    simp at e4
    exact ⟨e1, e2, e3, Or.inr ⟨rfl, e4⟩⟩
  · rename_i hok
    simp only [Bool.not_eq_true', Bool.not_eq_false] at hok
    subst hok
    simp at e4
    split at h
    · split at h
      · cases h
      · simp only [bind, Except.bind] at h
        split at h
        · cases h
        · cases h
          exact ⟨e1, e2, e3, Or.inl ⟨rfl, e4⟩⟩
    · cases h
      exact ⟨e1, e2, e3, Or.inl ⟨rfl, e4⟩⟩

theorem setOut_psi {s s' : RbModel.Buf} {i : Nat} {x : RbModel.Info} (h : s.setOut i x = .ok s') :
    s'.len = s.len ∧ s'.maxOps = s.maxOps ∧ s'.idx = s.idx ∧ s'.successful = s.successful := by
  unfold RbModel.Buf.setOut at h
  simp only [bind, Except.bind] at h
  split at h
  · cases h
  · cases h
    unfold RbModel.Buf.setOutArr
    split <;> exact ⟨rfl, rfl, rfl, rfl⟩

theorem nextGlyphS_psi {s s' : RbModel.Buf} (h : s.nextGlyph = .ok s') : StepS 1 s s' := by
  unfold RbModel.Buf.nextGlyph at h
  split at h
  · split at h
    · simp only [bind, Except.bind] at h
      split at h
      · cases h
      · rename_i r hr
        obtain ⟨e1, e2, e3, e4⟩ := makeRoomFor_psi hr
        obtain ⟨b1, ok⟩ := r
        simp only [] at h e1 e2 e3 e4
        split at h
        · cases h
          rename_i hok
          simp only [Bool.not_eq_true'] at hok
          subst hok
          simp at e4
          exact ⟨e1, e2, Or.inl e4⟩
        · rename_i hok
          simp only [Bool.not_eq_true', Bool.not_eq_false] at hok
          subst hok
          simp at e4
          split at h
          · cases h
          · split at h
            · cases h
            · rename_i b2 hb2
              cases h
              obtain ⟨f1, f2, f3, f4⟩ := setOut_psi hb2
              exact ⟨by simp [f1, e1], by simp [f2, e2], Or.inr ⟨by simp [f4, e4], by simp [f3, e3]⟩⟩
    · cases h
      exact ⟨rfl, rfl, Or.inr ⟨rfl, rfl⟩⟩
  · cases h
    exact ⟨rfl, rfl, Or.inr ⟨rfl, rfl⟩⟩

/-- `next_glyph` on this file's buffer record: what the driver's budget `psi` reads of it. -/
theorem nextGlyph_fields {b b' : Buf} (h : nextGlyph b = .ok b') :
    b'.len = b.len ∧ b'.maxOps = b.maxOps ∧
      (b'.successful = false ∨ (b'.successful = b.successful ∧ b'.idx = b.idx + 1)) := by
  unfold nextGlyph viaS at h
  split at h
  · rename_i s hs
    cases h
    have : (toS b).nextGlyph = .ok s := by
      revert hs
      cases (toS b).nextGlyph with
      | ok a => intro hs; simp [liftS] at hs; rw [hs]
      | error e => intro hs; cases e <;> simp [liftS] at hs
    exact nextGlyphS_psi this
  · cases h

theorem nextGlyph_psi {b b' : Buf} (h : nextGlyph b = .ok b') (hlt : b.idx < b.len) (hs : b.successful = true) :
    lexLt (psi b') (psi b) = true := by
  obtain ⟨e1, e2, e3⟩ := nextGlyph_fields h
  rcases e3 with e3 | ⟨e3, e4⟩
  · simp [lexLt, psi, hs, e3]
  · simp [lexLt, psi, hs, e3, e1, e2, e4]; omega


/-! ### a switched-off stretch -/

/-- one iteration of the loop at a glyph whose range switches the subtable off: the glyph is copied through and the
    machine is put into the start-of-text state — whatever state it was in. -/
theorem driveStep_off (m : Machine) (c : Ctx) {rf : Array Range} {sf : Nat} {b : Buf} (cs : CS) (st : Nat)
    {lr lr' : Option Nat} (h : rangeBlock rf sf b lr = .ok (true, lr')) :
    driveStep m c rf sf b cs st lr =
      if b.idx == b.len || !b.successful then .ok (.done b)
      else (nextGlyph b >>= fun b' => pure (.next b' cs START_OF_TEXT lr')) := by
  unfold driveStep
  rw [h]
  simp only [bind, Except.bind, if_true, pure, Except.pure]

/-- `k` iterations over switched-off glyphs, as a function: each of them finds its position switched off by its range
    (`rangeBlock`), is not at the end of a buffer that is still `successful`, and copies its glyph through with
    `next_glyph`. `some (b', lr')` = the buffer behind the stretch and the `last_range` the loop carries there. -/
def skipOff (rf : Array Range) (sf : Nat) : Nat → Buf → Option Nat → Option (Buf × Option Nat)
  | 0, b, lr => some (b, lr)
  | k + 1, b, lr =>
    match rangeBlock rf sf b lr with
    | .ok (true, lr') =>
      if b.idx < b.len ∧ b.successful = true then
        match nextGlyph b with
        | .ok b' => skipOff rf sf k b' lr'
        | .error _ => none
      else none
    | _ => none

theorem skipOff_succ {rf : Array Range} {sf k : Nat} {b b' : Buf} {lr lr' : Option Nat}
    (h : skipOff rf sf (k + 1) b lr = some (b', lr')) :
    ∃ lr1 b1, rangeBlock rf sf b lr = .ok (true, lr1) ∧ b.idx < b.len ∧ b.successful = true ∧
      nextGlyph b = .ok b1 ∧ skipOff rf sf k b1 lr1 = some (b', lr') := by
  unfold skipOff at h
  split at h
  · rename_i lr1 hrb
    split at h
    · rename_i hc
      split at h
      · rename_i b1 hb1
        exact ⟨lr1, b1, hrb, hc.1, hc.2, hb1, h⟩
      · cases h
    · cases h
  · cases h

theorem driveLoopO_off (m : Machine) (c : Ctx) (rf : Array Range) (sf : Nat) (cs : CS) :
    ∀ (k : Nat) (b b' : Buf) (st : Nat) (lr lr' : Option Nat) (steps : Nat),
      skipOff rf sf (k + 1) b lr = some (b', lr') →
      driveLoopO m c rf sf b cs st lr steps = driveLoopO m c rf sf b' cs START_OF_TEXT lr' (steps + (k + 1)) := by
  intro k
  induction k with
  | zero =>
    intro b b' st lr lr' steps h
    obtain ⟨lr1, b1, hrb, hlt, hs, hn, hrest⟩ := skipOff_succ h
    simp only [skipOff, Option.some.injEq, Prod.mk.injEq] at hrest
    obtain ⟨rfl, rfl⟩ := hrest
    rw [driveLoopO, driveStep_off m c cs st hrb]
    have hc : (b.idx == b.len || !b.successful) = false := by
      simp [hs]; omega
    simp only [hc, Bool.false_eq_true, if_false, hn, bind, Except.bind, pure, Except.pure]
    rw [dif_pos (nextGlyph_psi hn hlt hs)]
  | succ k ih =>
    intro b b' st lr lr' steps h
    obtain ⟨lr1, b1, hrb, hlt, hs, hn, hrest⟩ := skipOff_succ h
    rw [driveLoopO, driveStep_off m c cs st hrb]
    have hc : (b.idx == b.len || !b.successful) = false := by
      simp [hs]; omega
    simp only [hc, Bool.false_eq_true, if_false, hn, bind, Except.bind, pure, Except.pure]
    rw [dif_pos (nextGlyph_psi hn hlt hs), ih b1 b' START_OF_TEXT lr1 lr' (steps + 1) hrest]
    congr 1; omega

/-- in the in-place mode (rearrangement, contextual) the glyphs of a switched-off stretch are not touched at all:
    the buffer behind the stretch is the buffer before it with the cursor moved. -/
theorem skipOff_inplace {rf : Array Range} {sf : Nat} :
    ∀ (k : Nat) (b b' : Buf) (lr lr' : Option Nat), b.haveOutput = false →
      skipOff rf sf k b lr = some (b', lr') → b' = { b with idx := b.idx + k } := by
  intro k
  induction k with
  | zero => intro b b' lr lr' _ h; simp only [skipOff, Option.some.injEq, Prod.mk.injEq] at h; rw [← h.1]; cases b; rfl
  | succ k ih =>
    intro b b' lr lr' ho h
    obtain ⟨lr1, b1, _, _, _, hn, hrest⟩ := skipOff_succ h
    rw [nextGlyph_inplace ho] at hn
    cases hn
    have := ih _ b' lr1 lr' (by exact ho) hrest
    rw [this]; simp; omega

/-- a glyph whose cluster lies in a range that switches the subtable off is recognised as such by the range block of
    the loop, from whatever range the loop remembers. -/
theorem rangeBlock_off {rf : Array Range} {hi : Nat} (ht : Tiles rf hi) (sf : Nat) (b : Buf) (lr0 : Nat)
    (hlr : lr0 < rf.size) (hlt : b.idx < b.len) (hsz : b.len ≤ b.info.size)
    (hc : (b.info[b.idx]'(by omega)).cl ≤ hi) :
    ∃ k, k < rf.size ∧
      rangeBlock rf sf b (some lr0) = .ok (!enabledAt rf sf (b.info[b.idx]'(by omega)).cl, some k) := by
  have hi' : b.idx < b.info.size := by omega
  obtain ⟨k, ek, hk, hkc⟩ := findRange_spec ht (b.info[b.idx]'hi').cl hc lr0 hlr
  have hen := enabledAt_eq ht sf (b.info[b.idx]'hi').cl k rf[k] (by simp [hk]) (hkc rf[k] (by simp [hk]))
  refine ⟨k, hk, ?_⟩
  simp only [rangeBlock, hlt, if_true, rd_ok hi', bind, Except.bind, ek, rdR_ok hk, pure, Except.pure, hen]
  congr 2
  cases h : (rf[k].flags &&& sf == 0) <;> simp [bne, h]


/-- in the in-place mode, a stretch of `k` glyphs whose clusters all lie in ranges that switch the subtable off is
    skipped as a whole: `skipOff` succeeds and only moves the cursor. -/
theorem skipOff_of_disabled {rf : Array Range} {hi : Nat} (ht : Tiles rf hi) (sf : Nat) :
    ∀ (k : Nat) (b : Buf) (lr0 : Nat), b.haveOutput = false → b.successful = true → b.idx + k ≤ b.len →
      b.len ≤ b.info.size → lr0 < rf.size →
      (∀ (j : Nat) (g : G), j < k → b.info[b.idx + j]? = some g → g.cl ≤ hi ∧ enabledAt rf sf g.cl = false) →
      ∃ lr', lr' < rf.size ∧ skipOff rf sf k b (some lr0) = some ({ b with idx := b.idx + k }, some lr') := by
  intro k
  induction k with
  | zero => intro b lr0 _ _ _ _ hlr _; exact ⟨lr0, hlr, by cases b; rfl⟩
  | succ k ih =>
    intro b lr0 ho hs hk hsz hlr hoff
    have hlt : b.idx < b.len := by omega
    have hi' : b.idx < b.info.size := by omega
    obtain ⟨hc, hen⟩ := hoff 0 (b.info[b.idx]'hi') (by omega) (by simp)
    obtain ⟨k1, hk1, erb⟩ := rangeBlock_off ht sf b lr0 hlr hlt hsz hc
    rw [hen] at erb
    obtain ⟨lr', hlr', e⟩ := ih { b with idx := b.idx + 1 } k1 ho hs (by simp; omega) hsz hk1 (by
      intro j g hj hg
      exact hoff (j + 1) g (by omega) (by rw [← hg]; simp; congr 1; omega))
    refine ⟨lr', hlr', ?_⟩
    rw [skipOff, erb]
    simp only [Bool.not_false]
    rw [if_pos ⟨hlt, hs⟩, nextGlyph_inplace ho]
    simp only [] at e ⊢
    rw [e]
    congr 3; omega

end RbModel.Morx
