/-
  Single substitution (GSUB type 1) through the streaming interpreter is a filtered map over the glyph string.
-/
import RbModel.Gsub
import RbModel.Lemmas.Mem

namespace RbModel.Gsub
open RbModel RbModel.Buf RbModel.Mem

/-- the substitute the first applicable single-substitution subtable gives for glyph `g` -/
def singleSubst? : List Subtable → Nat → Option Nat
  | [], _ => none
  | .single1 cov d :: rest, g =>
      match cov.index g with
      | some _ => some (((g : Int) + d) % 65536).toNat
      | none => singleSubst? rest g
  | .single2 cov s :: rest, g =>
      match cov.index g with
      | some i => match s[i]? with
        | some x => some x
        | none => singleSubst? rest g
      | none => singleSubst? rest g
  | _ :: rest, g => singleSubst? rest g

def Subtable.isSingle : Subtable → Bool
  | .single1 .. => true
  | .single2 .. => true
  | _ => false

/-- glyph props after `set_glyph_class(new_gid, class_guess = ∅, ligature = false, component = false)` -/
def substProps (f : Font) (x : Info) (s : Nat) : Nat :=
  let props := glyphProps x ||| GP.SUBSTITUTED
  if f.hasGlyphClasses then (props &&& GP.PRESERVE) ||| f.props s else props

/-- what a single-substitution lookup does to one glyph -/
def substInfo (f : Font) (lookupMask props : Nat) (sts : List Subtable) (x : Info) : Info :=
  if x.mask &&& lookupMask != 0 && checkGlyphProperty f x props then
    match singleSubst? sts (x.gid % 65536) with
    | some s => { setGlyphProps x (substProps f x s) with gid := s }
    | none => x
  else x

/-- fast path of `ctx.replace_glyph` while the out-buffer still aliases `info` and is level with the input cursor -/
theorem ctxReplaceGlyph_inplace (c : Ctx) (s : Nat) (cur : Info) (hs : c.buf.sepOut = false)
    (ho : c.buf.outLen = c.buf.idx) (hcur : c.buf.info[c.buf.idx]? = some cur) :
    ctxReplaceGlyph c s = .ok { c with buf := { c.buf with
        info := c.buf.info.set c.buf.idx { setGlyphProps cur (substProps c.font cur s) with gid := s },
        idx := c.buf.idx + 1, outLen := c.buf.outLen + 1 } } := by
  have hlt : c.buf.idx < c.buf.info.length := by
    by_cases h : c.buf.idx < c.buf.info.length
    · exact h
    · rw [List.getElem?_eq_none (by omega)] at hcur; cases hcur
  have hget : Mem.get c.buf.info c.buf.idx = .ok cur := by unfold Mem.get; rw [hcur]; rfl
  unfold ctxReplaceGlyph setGlyphClass
  simp only [bind, Except.bind, hget, put_ok _ hlt, pure, Except.pure]
  unfold replaceGlyph
  have hcond : (c.buf.sepOut || c.buf.outLen != c.buf.idx) = false := by simp [hs, ho]
  simp only [hcond, Bool.false_eq_true, if_false, pure, Except.pure, bind, Except.bind]
  have hnew : ∀ np, Mem.get (outArr { c.buf with info := c.buf.info.set c.buf.idx (setGlyphProps cur np) }) c.buf.outLen
      = .ok (setGlyphProps cur np) := by
    intro np
    simp only [outArr, hs, Bool.false_eq_true, if_false, ho]
    unfold Mem.get
    rw [List.getElem?_set_self hlt]; rfl
  have hnp : (if c.font.hasGlyphClasses = true then
                      (glyphProps cur ||| GP.SUBSTITUTED) &&& GP.PRESERVE ||| c.font.props s
                    else
                      if (0 != 0) = true then (glyphProps cur ||| GP.SUBSTITUTED) &&& GP.PRESERVE ||| 0
                      else glyphProps cur ||| GP.SUBSTITUTED) = substProps c.font cur s := by
    unfold substProps; simp
  rw [hnp, hnew (substProps c.font cur s)]
  simp only [setOut, outArr, hs, Bool.false_eq_true, if_false, ho, setOutArr, bind, Except.bind]
  rw [put_ok _ (by simpa using hlt)]
  simp only [List.set_set]
  rfl

end RbModel.Gsub

namespace RbModel.Gsub
open RbModel RbModel.Buf RbModel.Mem

/-- `SubstLookup::apply` of a lookup made of single-substitution subtables -/
theorem applySubtables_single (recurse : Ctx → Nat → M (Ctx × Bool)) (full : Bool) (c : Ctx)
    (sts : List Subtable) (hall : sts.all Subtable.isSingle = true) (cur : Info)
    (hcur : c.buf.info[c.buf.idx]? = some cur) :
    applySubtables recurse full c sts =
      match singleSubst? sts (cur.gid % 65536) with
      | some s => (ctxReplaceGlyph c s).map (fun c' => (c', true))
      | none => .ok (c, false) := by
  have hget : Mem.get c.buf.info c.buf.idx = .ok cur := by unfold Mem.get; rw [hcur]; rfl
  induction sts with
  | nil => rfl
  | cons st rest ih =>
    simp only [List.all_cons, Bool.and_eq_true] at hall
    have ih' := ih hall.2
    cases st with
    | single1 cov d =>
      simp only [applySubtables, applySubtable, bind, Except.bind, hget, singleSubst?]
      cases hi : cov.index (cur.gid % 65536) with
      | none => simp only [pure, Except.pure]; exact ih'
      | some i =>
        simp only
        generalize ctxReplaceGlyph c ((↑(cur.gid % 65536) + d) % 65536).toNat = res
        cases res with
        | error e => rfl
        | ok c' => rfl
    | single2 cov s =>
      simp only [applySubtables, applySubtable, bind, Except.bind, hget, singleSubst?]
      cases hi : cov.index (cur.gid % 65536) with
      | none => simp only [pure, Except.pure]; exact ih'
      | some i =>
        simp only
        cases hs : s[i]? with
        | none => simp only [pure, Except.pure]; exact ih'
        | some x =>
          simp only
          generalize ctxReplaceGlyph c x = res
          cases res with
          | error e => rfl
          | ok c' => rfl
    | multiple _ _ => simp [Subtable.isSingle] at hall
    | alternate _ _ => simp [Subtable.isSingle] at hall
    | ligature _ _ => simp [Subtable.isSingle] at hall
    | context1 _ _ => simp [Subtable.isSingle] at hall
    | context2 _ _ _ => simp [Subtable.isSingle] at hall
    | context3 _ _ => simp [Subtable.isSingle] at hall
    | chain1 _ _ => simp [Subtable.isSingle] at hall
    | chain2 _ _ _ _ _ => simp [Subtable.isSingle] at hall
    | chain3 _ _ _ _ => simp [Subtable.isSingle] at hall
    | reverse _ _ _ _ => simp [Subtable.isSingle] at hall

/-- fast path of `next_glyph` while the out-buffer aliases `info` and is level with the input cursor -/
theorem nextGlyph_inplace (b : Buf) (hh : b.haveOutput = true) (hs : b.sepOut = false) (ho : b.outLen = b.idx) :
    b.nextGlyph = .ok { b with outLen := b.outLen + 1, idx := b.idx + 1 } := by
  unfold nextGlyph
  have hcond : (b.sepOut || b.outLen != b.idx) = false := by simp [hs, ho]
  simp only [hh, if_true, hcond, Bool.false_eq_true, if_false, pure, Except.pure]

end RbModel.Gsub

namespace RbModel.Gsub
open RbModel RbModel.Buf RbModel.Mem

/-- The forward scan of a single-substitution lookup, from position `k` on: every remaining glyph is replaced by
    `substInfo` of itself, nothing else changes, and the buffer stays in the in-place (non-separate) mode. -/
theorem applyForward_single (l : Lookup) (hall : l.subtables.all Subtable.isSingle = true) :
    ∀ (fuel : Nat) (c : Ctx) (k : Nat),
      c.buf.haveOutput = true → c.buf.sepOut = false → c.buf.successful = true →
      c.buf.outLen = k → c.buf.idx = k → k ≤ c.buf.len → c.buf.len ≤ c.buf.info.length →
      c.lookupProps = l.props → c.buf.len - k ≤ fuel →
      ∃ I, applyForward l fuel c = .ok { c with buf := { c.buf with info := I, idx := c.buf.len, outLen := c.buf.len } } ∧
        I.length = c.buf.info.length ∧
        ∀ q, I[q]? = if k ≤ q ∧ q < c.buf.len
                     then (c.buf.info[q]?).map (substInfo c.font c.lookupMask l.props l.subtables)
                     else c.buf.info[q]? := by
  intro fuel
  induction fuel with
  | zero =>
    intro c k hh hs hsu ho hi hk hlen hp hf
    have hkl : k = c.buf.len := by omega
    refine ⟨c.buf.info, ?_, rfl, ?_⟩
    · simp only [applyForward, pure, Except.pure]
      have : c.buf = { c.buf with info := c.buf.info, idx := c.buf.len, outLen := c.buf.len } := by
        rw [← hkl]; cases hb : c.buf; simp_all
      rw [← this]
    · intro q
      have : ¬ (k ≤ q ∧ q < c.buf.len) := by omega
      simp only [this, if_false]
  | succ fuel ih =>
    intro c k hh hs hsu ho hi hk hlen hp hf
    by_cases hend : k = c.buf.len
    · refine ⟨c.buf.info, ?_, rfl, ?_⟩
      · have hc : ¬ (c.buf.idx < c.buf.len) := by omega
        have hb : c.buf = { c.buf with info := c.buf.info, idx := c.buf.len, outLen := c.buf.len } := by
          rw [← hend]; cases hb : c.buf; simp_all
        rw [← hb]
        simp [applyForward, hc]
        rfl
      · intro q
        have : ¬ (k ≤ q ∧ q < c.buf.len) := by omega
        simp only [this, if_false]
    · have hklt : k < c.buf.len := by omega
      have hkinfo : k < c.buf.info.length := by omega
      have hcur : c.buf.info[c.buf.idx]? = some c.buf.info[k] := by rw [hi]; exact List.getElem?_eq_getElem hkinfo
      have hget : Mem.get c.buf.info c.buf.idx = .ok c.buf.info[k] := by unfold Mem.get; rw [hcur]; rfl
      have hcond : (c.buf.idx < c.buf.len ∧ c.buf.successful = true) := ⟨by omega, hsu⟩
      -- one step: the buffer after it
      have hstep : ∃ I1, (∀ (rest : Ctx → M Ctx),
            (do
              let cur ← Mem.get c.buf.info c.buf.idx
              if cur.mask &&& c.lookupMask != 0 && checkGlyphProperty c.font cur c.lookupProps then
                let (c1, ok) ← applyTop c l
                if ok then rest c1
                else do let b ← c1.buf.nextGlyph; rest { c1 with buf := b }
              else do let b ← c.buf.nextGlyph; rest { c with buf := b }) =
            rest { c with buf := { c.buf with info := I1, idx := k + 1, outLen := k + 1 } }) ∧
          I1.length = c.buf.info.length ∧
          ∀ q, I1[q]? = if q = k then some (substInfo c.font c.lookupMask l.props l.subtables c.buf.info[k])
                        else c.buf.info[q]? := by
        by_cases hen : (c.buf.info[k].mask &&& c.lookupMask != 0 && checkGlyphProperty c.font c.buf.info[k] c.lookupProps) = true
        · -- enabled
          have happ := applySubtables_single (recurseAt MAX_NESTING_LEVEL) true c l.subtables hall _ hcur
          cases hss : singleSubst? l.subtables (c.buf.info[k].gid % 65536) with
          | some s =>
            rw [hss] at happ
            have hrep := ctxReplaceGlyph_inplace c s _ hs (by omega) hcur
            refine ⟨c.buf.info.set c.buf.idx { setGlyphProps c.buf.info[k] (substProps c.font c.buf.info[k] s) with gid := s },
              ?_, by simp, ?_⟩
            · intro rest
              simp only [bind, Except.bind, hget, hen, if_true, applyTop, happ, hrep, Except.map]
              simp only [ho, hi]
            · intro q
              rw [hi]
              by_cases hq : q = k
              · subst hq
                simp only [if_true]
                rw [List.getElem?_set_self hkinfo]
                congr 1
                unfold substInfo
                rw [hp] at hen
                simp only [hen, if_true, hss]
              · simp only [hq, if_false]
                rw [List.getElem?_set_ne (by omega)]
          | none =>
            rw [hss] at happ
            have hnext := nextGlyph_inplace c.buf hh hs (by omega)
            refine ⟨c.buf.info, ?_, rfl, ?_⟩
            · intro rest
              simp only [bind, Except.bind, hget, hen, if_true, applyTop, happ, Bool.false_eq_true, if_false, hnext]
              simp only [ho, hi]
            · intro q
              by_cases hq : q = k
              · subst hq
                simp only [if_true]
                rw [List.getElem?_eq_getElem hkinfo]
                congr 1
                unfold substInfo
                rw [hp] at hen
                simp only [hen, if_true, hss]
              · simp only [hq, if_false]
        · -- not enabled
          have hen' : (c.buf.info[k].mask &&& c.lookupMask != 0 && checkGlyphProperty c.font c.buf.info[k] c.lookupProps) = false := by
            simpa using hen
          have hnext := nextGlyph_inplace c.buf hh hs (by omega)
          refine ⟨c.buf.info, ?_, rfl, ?_⟩
          · intro rest
            simp only [bind, Except.bind, hget, hen', Bool.false_eq_true, if_false, hnext]
            simp only [ho, hi]
          · intro q
            by_cases hq : q = k
            · subst hq
              simp only [if_true]
              rw [List.getElem?_eq_getElem hkinfo]
              congr 1
              unfold substInfo
              rw [hp] at hen'
              simp only [hen', Bool.false_eq_true, if_false]
            · simp only [hq, if_false]
      obtain ⟨I1, hrun, hI1len, hI1q⟩ := hstep
      obtain ⟨I, hres, hIlen, hIq⟩ := ih { c with buf := { c.buf with info := I1, idx := k + 1, outLen := k + 1 } } (k + 1)
        hh hs hsu rfl rfl (by simp; omega) (by simp; omega) hp (by simp; omega)
      refine ⟨I, ?_, by rw [hIlen]; exact hI1len, ?_⟩
      · have hrun' := hrun (applyForward l fuel)
        have hc2 : (decide (c.buf.idx < c.buf.len) && c.buf.successful) = true := by simp [hcond.1, hcond.2]
        simp only [applyForward, hc2, if_true]
        rw [hrun', hres]
      · intro q
        have := hIq q
        simp only at this
        rw [this]
        by_cases h1 : k + 1 ≤ q ∧ q < c.buf.len
        · have h2 : k ≤ q ∧ q < c.buf.len := by omega
          have h3 : q ≠ k := by omega
          simp only [h1, h2, and_self, if_true, hI1q q, h3, if_false]
        · simp only [h1, if_false]
          by_cases h2 : q = k
          · subst h2
            have h3 : q ≤ q ∧ q < c.buf.len := by omega
            simp only [hI1q q, if_true, h3, and_self]
            rw [List.getElem?_eq_getElem hkinfo]; rfl
          · have h3 : ¬ (k ≤ q ∧ q < c.buf.len) := by omega
            simp only [hI1q q, h2, if_false, h3]

end RbModel.Gsub

namespace RbModel.Gsub
open RbModel RbModel.Buf RbModel.Mem

theorem single_not_reverse (l : Lookup) (hall : l.subtables.all Subtable.isSingle = true) : l.reverse = false := by
  unfold Lookup.reverse
  cases hs : l.subtables with
  | nil => simp
  | cons st rest =>
    rw [hs] at hall
    simp only [List.all_cons, Bool.and_eq_true] at hall
    have : st.isReverse = false := by
      cases st <;> simp [Subtable.isSingle] at hall <;> rfl
    simp [this]

/-- `apply_string` of a single-substitution lookup: the glyph string is mapped glyph by glyph. -/
theorem applyString_single (l : Lookup) (hall : l.subtables.all Subtable.isSingle = true) (c : Ctx) (fuel : Nat)
    (hsu : c.buf.successful = true) (hlen : c.buf.len ≤ c.buf.info.length) (hf : c.buf.len ≤ fuel) :
    ∃ c', applyString c l fuel = .ok c' ∧ c'.buf.len = c.buf.len ∧ c'.buf.info.length = c.buf.info.length ∧
      c'.buf.successful = true ∧ c'.buf.haveOutput = (if c.buf.len = 0 ∨ c.lookupMask = 0 then c.buf.haveOutput else false) ∧
      ∀ q, c'.buf.info[q]? = if q < c.buf.len
                             then (c.buf.info[q]?).map (substInfo c.font c.lookupMask l.props l.subtables)
                             else c.buf.info[q]? := by
  unfold applyString
  by_cases h0 : (c.buf.len == 0 || c.lookupMask == 0) = true
  · simp only [h0, if_true, pure, Except.pure]
    have h0' : c.buf.len = 0 ∨ c.lookupMask = 0 := by simpa using h0
    refine ⟨c, rfl, rfl, rfl, hsu, by simp [h0'], ?_⟩
    intro q
    by_cases hq : q < c.buf.len
    · simp only [hq, if_true]
      rcases h0' with h | h
      · omega
      · -- lookup mask 0: nothing is enabled
        cases hx : c.buf.info[q]? with
        | none => rfl
        | some x =>
          simp only [Option.map_some]
          congr 1
          unfold substInfo
          simp [h]
    · simp only [hq, if_false]
  · have h0' : ¬ (c.buf.len = 0 ∨ c.lookupMask = 0) := by simpa using h0
    simp only [h0, Bool.false_eq_true, if_false, single_not_reverse l hall, Bool.not_false, if_true]
    obtain ⟨I, hres, hIlen, hIq⟩ := applyForward_single l hall fuel
      { c with lookupProps := l.props, buf := { c.buf.clearOutput with idx := 0 } } 0
      rfl rfl hsu rfl rfl (Nat.zero_le _) hlen rfl (by simpa [clearOutput] using hf)
    simp only [bind, Except.bind, hres]
    -- sync on the finished in-place pass
    unfold sync
    simp only [clearOutput, Bool.not_true, Bool.false_eq_true, if_false, Nat.lt_irrefl, gt_iff_lt, hsu,
      bind, Except.bind, pure, Except.pure]
    unfold nextGlyphs
    simp only [if_true, Bool.false_or, bne_self_eq_false, Bool.false_eq_true, if_false, Nat.sub_self,
      Nat.add_zero, pure, Except.pure]
    refine ⟨_, rfl, rfl, by simpa [clearOutput] using hIlen, by simpa using hsu, by simp [h0'], ?_⟩
    intro q
    have := hIq q
    simp only [clearOutput, Nat.zero_le, true_and] at this
    simpa using this

end RbModel.Gsub
