/-
  Hangul: what the shaper is supposed to do, written from the Unicode Standard (ch. 3.12 "Conjoining Jamo
  Behavior": syllable arithmetic; HangulSyllableType.txt: L / V / T classes) and from the contract in the
  comment block of the OpenType Hangul shaper (compose when the font has the syllable, otherwise decompose and
  tag with ljmo / vjmo / tjmo; a tone mark after a syllable goes in front of it unless it is zero-width; a
  tone mark without a syllable gets a dotted circle). Nothing here is read from the crate.
  A glyph is a pair (code point, feature) with feature 0 none / 1 ljmo / 2 vjmo / 3 tjmo. No clusters here.
-/
namespace RbModel.Spec.Hangul

abbrev LBase : Nat := 0x1100
abbrev VBase : Nat := 0x1161
abbrev TBase : Nat := 0x11A7
abbrev SBase : Nat := 0xAC00
abbrev LCount : Nat := 19
abbrev VCount : Nat := 21
abbrev TCount : Nat := 28
abbrev NCount : Nat := 588     -- VCount * TCount
abbrev SCount : Nat := 11172   -- LCount * NCount
abbrev DOTTED_CIRCLE : Nat := 0x25CC

/-- Hangul_Syllable_Type = L -/
def isL (u : Nat) : Bool := (decide (0x1100 ≤ u) && decide (u ≤ 0x115F)) || (decide (0xA960 ≤ u) && decide (u ≤ 0xA97C))
/-- Hangul_Syllable_Type = V -/
def isV (u : Nat) : Bool := (decide (0x1160 ≤ u) && decide (u ≤ 0x11A7)) || (decide (0xD7B0 ≤ u) && decide (u ≤ 0xD7C6))
/-- Hangul_Syllable_Type = T -/
def isT (u : Nat) : Bool := (decide (0x11A8 ≤ u) && decide (u ≤ 0x11FF)) || (decide (0xD7CB ≤ u) && decide (u ≤ 0xD7FB))
/-- the jamo that take part in the syllable arithmetic -/
def isCombiningL (u : Nat) : Bool := decide (LBase ≤ u) && decide (u < LBase + LCount)
def isCombiningV (u : Nat) : Bool := decide (VBase ≤ u) && decide (u < VBase + VCount)
def isCombiningT (u : Nat) : Bool := decide (TBase < u) && decide (u < TBase + TCount)
/-- precomposed syllables -/
def isS (u : Nat) : Bool := decide (SBase ≤ u) && decide (u < SBase + SCount)
/-- U+302E, U+302F Hangul single / double dot tone mark -/
def isTone (u : Nat) : Bool := u == 0x302E || u == 0x302F

/-- SIndex arithmetic of ch. 3.12; `t = TBase` stands for "no trailing consonant" -/
def compose (l v t : Nat) : Nat := SBase + ((l - LBase) * VCount + (v - VBase)) * TCount + (t - TBase)
def decompL (s : Nat) : Nat := LBase + (s - SBase) / NCount
def decompV (s : Nat) : Nat := VBase + ((s - SBase) % NCount) / TCount
def decompT (s : Nat) : Nat := TBase + (s - SBase) % TCount
/-- an LV syllable (no trailing consonant) -/
def isLV (s : Nat) : Bool := (s - SBase) % TCount == 0

abbrev K := Nat × Nat
def LJMO : Nat := 1
def VJMO : Nat := 2
def TJMO : Nat := 3

structure Support where
  /-- the font maps the code point -/
  has : Nat → Bool
  /-- the font maps the code point to a glyph of advance 0 -/
  zeroW : Nat → Bool
  /-- a dotted circle may be inserted: the font has U+25CC and the client did not forbid it -/
  dotted : Bool

/-- Recognise a syllable starting at `x` (followed by `rest`): the glyphs it is rendered with and how many
    *following* glyphs it takes in. No glyphs = `x` does not start a syllable (it is passed through). -/
def parse (f : Support) (x : K) (rest : List K) : List K × Nat :=
  let u := x.1
  if isL u then
    match rest with
    | (v, _) :: rest2 =>
      if isV v then
        match rest2 with
        | (t, _) :: _ =>
          if isT t then
            -- <L,V,T>
            if isCombiningL u && isCombiningV v && isCombiningT t && f.has (compose u v t)
            then ([(compose u v t, x.2)], 2)
            else ([(u, LJMO), (v, VJMO), (t, TJMO)], 2)
          else
            if isCombiningL u && isCombiningV v && f.has (compose u v TBase)
            then ([(compose u v TBase, x.2)], 1)
            else ([(u, LJMO), (v, VJMO)], 1)
        | [] =>
          if isCombiningL u && isCombiningV v && f.has (compose u v TBase)
          then ([(compose u v TBase, x.2)], 1)
          else ([(u, LJMO), (v, VJMO)], 1)
      else ([], 0)
    | [] => ([], 0)
  else if isS u then
    let jamo : List K := [(decompL u, LJMO), (decompV u, VJMO)] ++ (if isLV u then [] else [(decompT u, TJMO)])
    let jamoOK : Bool := f.has (decompL u) && f.has (decompV u) && (isLV u || f.has (decompT u))
    match rest with
    | (t, _) :: _ =>
      if isLV u && isCombiningT t && f.has (u + (t - TBase)) then ([(u + (t - TBase), x.2)], 1)   -- <LV,T> composes
      else if isLV u && isT t && f.has u && jamoOK then (jamo ++ [(t, TJMO)], 1)                  -- <LV,T> as three jamo
      else if !f.has u && jamoOK then (jamo, 0)
      else if f.has u then ([x], 0)
      else ([], 0)
    | [] =>
      if !f.has u && jamoOK then (jamo, 0)
      else if f.has u then ([x], 0)
      else ([], 0)
  else ([], 0)

/-- result of one iteration: glyphs that are final, the syllable still open for a tone mark, remaining input -/
structure R where
  emit : List K
  pend : List K
  rest : List K

/-- one iteration: `pend` is the most recent syllable when the previous iteration recognised one, else `[]` -/
def stepK (f : Support) (pend : List K) (x : K) (rest : List K) : R :=
  if isTone x.1 then
    if pend.isEmpty then
      -- no syllable to attach to: dotted circle if possible
      { emit := if f.dotted then (if f.zeroW x.1 then [(DOTTED_CIRCLE, x.2), x] else [x, (DOTTED_CIRCLE, x.2)]) else [x],
        pend := [], rest := rest }
    else
      -- after a syllable: in front of it, unless zero-width (then it overstrikes and stays)
      { emit := if f.zeroW x.1 then pend ++ [x] else x :: pend, pend := [], rest := rest }
  else
    let p := parse f x rest
    if p.1.isEmpty then { emit := pend ++ [x], pend := [], rest := rest }
    else { emit := pend, pend := p.1, rest := rest.drop p.2 }

/-- the whole text -/
def render (f : Support) (pend inp : List K) : List K :=
  match inp with
  | [] => pend
  | x :: rest =>
    let r := stepK f pend x rest
    r.emit ++ render f r.pend r.rest
termination_by inp.length
decreasing_by
  simp only [stepK]
  split
  · split <;> simp
  · split <;> simp [List.length_drop] <;> omega

end RbModel.Spec.Hangul
