/-
  Declarative spec of the feature-string syntax, written from the documentation of
  `hb_feature_from_string` (HarfBuzz manual, "The format for specifying feature strings"), not from the code:

      Syntax        Value  Start  End
      kern          1      0      ∞      Turn feature on
      +kern         1      0      ∞      Turn feature on
      -kern         0      0      ∞      Turn feature off
      kern=0        0      0      ∞      Turn feature off
      kern=1        1      0      ∞      Turn feature on
      aalt=2        2      0      ∞      Choose 2nd alternate
      kern[]        1      0      ∞      Turn feature on
      kern[:]       1      0      ∞      Turn feature on
      kern[5:]      1      5      ∞      Turn feature on, partial
      kern[:5]      1      0      5      Turn feature on, partial
      kern[3:5]     1      3      5      Turn feature on, range
      kern[3]       1      3      3+1    Turn feature on, single char
      aalt[3:5]=2   2      3      5      Turn 2nd alternate on for range

  "The range indices refer to the positions between Unicode characters" — `End` is exclusive; ∞ is
  HB_FEATURE_GLOBAL_END = (unsigned) -1.  CSS `on`/`off` are aliases of 1/0.  A tag shorter than four
  characters is padded with spaces (hb_tag_from_string).
  This file is about the abstract syntax (tokens); numbers are natural numbers, not digit strings.
-/
namespace RbModel.Spec.FeatureSyntax

inductive Prefix where
  | none | plus | minus
  deriving DecidableEq, Repr

inductive Index where
  | absent                          -- no brackets
  | empty                           -- []
  | single (i : Nat)                -- [i]
  | range (a b : Option Nat)        -- [a:b], either end may be omitted
  deriving DecidableEq, Repr

inductive Value where
  | absent | num (n : Nat) | on | off
  deriving DecidableEq, Repr

structure Form where
  pre : Prefix
  tag : List Nat                    -- 1..4 tag bytes
  index : Index
  value : Value
  deriving Repr

/-- ∞ -/
def INF : Nat := 4294967295

structure Meaning where
  tag : Nat
  value : Nat
  start : Nat
  stop : Nat                        -- exclusive
  deriving DecidableEq, Repr

/-- four bytes, big-endian, padded with spaces -/
def tagValue (t : List Nat) : Nat :=
  match t ++ [32, 32, 32, 32] with
  | a :: b :: c :: d :: _ => ((a * 256 + b) * 256 + c) * 256 + d
  | _ => 0

def meaning (f : Form) : Meaning :=
  { tag := tagValue f.tag
    value := match f.value with
      | .absent => (match f.pre with | .minus => 0 | _ => 1)
      | .num n => n
      | .on => 1
      | .off => 0
    start := match f.index with
      | .absent | .empty => 0
      | .single i => i
      | .range a _ => a.getD 0
    stop := match f.index with
      | .absent | .empty => INF
      | .single i => i + 1
      | .range _ b => b.getD INF }

end RbModel.Spec.FeatureSyntax
