/-
  Cursive joining, written from the standards and *not* from the automaton of the crate:

  * The Unicode Standard, ch. 9.2 "Arabic", section "Arabic Cursive Joining", rules R1–R7, over the
    Joining_Type property (U non-joining, L left-joining, R right-joining, D dual-joining,
    C join-causing, T transparent).
      R1  Transparent characters do not affect the joining behaviour of base characters.
      R2  A right-joining character X that has a right join-causing character on the right adopts Xr.
      R3  A left-joining character X that has a left join-causing character on the left adopts Xl.
      R4  A dual-joining character X with a right join-causing character on the right and a left
          join-causing character on the left adopts Xm.
      R5  … right join-causing on the right, no left join-causing on the left: Xr.
      R6  … left join-causing on the left, no right join-causing on the right: Xl.
      R7  Otherwise Xn.
    "Right join-causing" = {D, L, C}, "left join-causing" = {D, R, C}.  In logical order the character
    "on the right" of an Arabic letter is the *preceding* one.
    OpenType names: Xn = isol, Xr = fina, Xm = medi, Xl = init.
  * Microsoft, "Developing OpenType Fonts for Syriac Script": Alaph (a right-joining letter) has three
    more forms:
      med2  "in the middle of words when the preceding base character can be joined to";
      fin2  "at the end of words when the preceding base character cannot be joined to, and that
             preceding base character is not a Dalath, Rish, or dotless Dalath-Rish";
      fin3  "at the end of words when the preceding base character is a Dalath, Rish, or dotless
             Dalath-Rish".
    Reading used here (see DESIGN §5 C11 "scope"): "in the middle of a word" = the next
    non-transparent character is one that can join backwards (left join-causing); "at the end of a
    word" = it is not; "preceding base character" = a preceding *letter of the word* that cannot be
    joined to, i.e. a right-joining one (R, Alaph, Dalath/Rish) — after a non-joining character or at
    the start of the text Alaph is a word of its own and keeps its isolated form.

  Join-causing characters (TATWEEL, ZWJ, …) have no positional forms in Unicode; OpenType shapers
  (HarfBuzz and its ports) tag them like dual-joining letters so that a font *may* substitute them.
  `form` follows that convention for `C` (a font without such substitutions is unaffected).

  Core Lean only.
-/
namespace RbModel.Spec.Joining

/-- Joining_Type, with the two Syriac joining groups that OpenType Syriac shaping distinguishes among
    the right-joining letters. -/
inductive JT where
  | U | L | R | D | C | T | Alaph | DalathRish
  deriving DecidableEq, Repr, Inhabited

def JT.all : List JT := [.U, .L, .R, .D, .C, .T, .Alaph, .DalathRish]

/-- the positional forms, named after their OpenType features; `none` = no feature -/
inductive Form where
  | isol | fina | fin2 | fin3 | medi | med2 | init | none
  deriving DecidableEq, Repr, Inhabited

/-- the OpenType feature that realises a form -/
def Form.tag : Form → Option String
  | .isol => some "isol" | .fina => some "fina" | .fin2 => some "fin2" | .fin3 => some "fin3"
  | .medi => some "medi" | .med2 => some "med2" | .init => some "init" | .none => Option.none

/-- "right join-causing": can connect to the character that follows it in logical order -/
def JT.joinsForward : JT → Bool
  | .D | .L | .C => true
  | _ => false

/-- "left join-causing": can connect to the character that precedes it in logical order
    (Alaph and Dalath/Rish are right-joining letters) -/
def JT.joinsBackward : JT → Bool
  | .D | .R | .C | .Alaph | .DalathRish => true
  | _ => false

/-- X is connected to its predecessor: X can join backwards and the predecessor forwards -/
def joinsPrev (p : Option JT) (t : JT) : Bool := t.joinsBackward && p.any JT.joinsForward

/-- X is connected to its successor -/
def joinsNext (t : JT) (n : Option JT) : Bool := t.joinsForward && n.any JT.joinsBackward

/-- The form of a character of type `t` whose nearest non-transparent neighbours have types `p`
    (before, `none` at the start of the text) and `n` (after, `none` at the end of the text). -/
def form (p : Option JT) (t : JT) (n : Option JT) : Form :=
  match t with
  | .U | .T => .none
  | .Alaph =>
    let midWord := n.any JT.joinsBackward
    if joinsPrev p t then (if midWord then .med2 else .fina)
    else if midWord then .isol
    else match p with
      | some .DalathRish => .fin3
      | some .R | some .Alaph => .fin2
      | _ => .isol
  | _ =>
    match joinsPrev p t, joinsNext t n with
    | true, true => .medi      -- R4
    | true, false => .fina     -- R2, R5
    | false, true => .init     -- R3, R6
    | false, false => .isol    -- R7

/-- nearest non-transparent character of a stretch of text read forwards (R1) -/
def firstNonT (l : List JT) : Option JT := l.find? (· ≠ .T)

/-- nearest non-transparent character before a position: read the preceding text backwards -/
def lastNonT (l : List JT) : Option JT := firstNonT l.reverse

/-- the form of the `i`-th character of a text -/
def formAt (text : List JT) (i : Nat) : Form :=
  match text[i]? with
  | Option.none => .none
  | some t => form (lastNonT (text.take i)) t (firstNonT (text.drop (i + 1)))

/-- the forms of all characters of a text -/
def formsOfText (text : List JT) : List Form := (List.range text.length).map (formAt text)

/-- the forms of the characters of `ws` when `pre` precedes and `post` follows: by definition what
    they would be if the contexts were part of the text -/
def forms (pre ws post : List JT) : List Form :=
  (List.range ws.length).map (fun i => formAt (pre ++ ws ++ post) (pre.length + i))

end RbModel.Spec.Joining
