/-
  The OpenType substitution model over plain glyph lists — written from the OpenType specification
  (chapter "GSUB", "Lookup processing": a lookup is applied at each glyph position of the string in
  logical order; glyphs excluded by the lookup flags are invisible to matching; the first subtable that
  matches is applied and processing resumes after the matched input; contextual lookups apply their
  nested lookups at the matched positions in record order), NOT from the Rust code: there is no in/out
  buffer, no `move_to`, no ligature-id bookkeeping here.

  Domain where this model is unambiguous (the streams compare only inside it, see DESIGN.md C06):
  no default-ignorable glyphs; ligature lookups carry no ignore flags; lookups nested in contextual
  lookups are single / alternate / multiple-with-at-least-one-glyph substitutions (each acts at one
  position and may only grow the string; the glyphs it adds become sequence positions of their own for later records).
  Feature ranges: a lookup acts at a position only if its feature is on for the glyph there, and every glyph of its
  input sequence must have the feature on as well (see `matchSeq`).
-/
import RbModel.Gsub

namespace RbModel.Spec.Subst
open RbModel RbModel.Gsub

/-- a glyph of the model: what the specification talks about -/
structure G where
  gid : Nat
  cluster : Nat
  mask : Nat          -- which features are active on this glyph (bit set computed by the feature map)
  deriving DecidableEq, Repr

/-- is this glyph invisible to a lookup with the given flags? (GDEF class of the glyph's *current* id) -/
def ignored (f : Font) (props : Nat) (g : G) : Bool :=
  !checkGlyphProperty f { gid := g.gid, var1 := f.props g.gid } props

/-- positions (indices into `gs`) of the glyphs visible to the lookup, from index `from` on -/
def visibleFrom (f : Font) (props : Nat) (gs : List G) (start : Nat) : List Nat :=
  (List.range gs.length).filter (fun i => start ≤ i && match gs[i]? with | some g => !ignored f props g | none => false)

/-- positions of visible glyphs strictly before `i`, nearest first -/
def visibleBefore (f : Font) (props : Nat) (gs : List G) (i : Nat) : List Nat :=
  ((List.range i).filter (fun j => match gs[j]? with | some g => !ignored f props g | none => false)).reverse

/-- does the sequence of visible glyphs at `positions` satisfy the predicates `preds` one by one?
    `inputMask = some m`: the glyphs are the lookup's INPUT sequence and each of them must have the lookup's feature on
    (`mask & m ≠ 0`).  The OpenType text leaves open what happens when a feature's range ends inside a would-be match;
    this model takes the reading of the implementations: no match (the disabled glyph is not skipped either).
    Backtrack and lookahead glyphs are context only and need not carry the feature (`none`). -/
def matchSeq (gs : List G) (positions : List Nat) (preds : List (Nat → Bool)) (inputMask : Option Nat := none) :
    Option (List Nat) :=
  if positions.length < preds.length then none
  else
    let ps := positions.take preds.length
    let on (g : G) : Bool := match inputMask with | some m => g.mask &&& m != 0 | none => true
    if (ps.zip preds).all (fun (p, pr) => match gs[p]? with | some g => pr g.gid && on g | none => false) then some ps else none

/-- all glyphs whose cluster occurs in the closed index range [i, j] get the smallest of those clusters
    (cluster levels 0 and 1: clusters are merged as whole groups) -/
def mergeClusters (level : Nat) (gs : List G) (i j : Nat) : List G :=
  if level == 2 then gs else
  let seg := (gs.drop i).take (j + 1 - i)
  let cls := seg.map (·.cluster)
  match cls.min? with
  | none => gs
  | some m => gs.map (fun g => if cls.contains g.cluster then { g with cluster := m } else g)

/-- result of applying one subtable at position `i`: new string and the index to resume at -/
abbrev Step := Option (List G × Nat)

def replaceAt (gs : List G) (i : Nat) (new : List G) (consumed : Nat) : List G :=
  gs.take i ++ new ++ gs.drop (i + consumed)

/-- single-position substitutions (types 1, 2, 3) at position `i`; `altIndex` is the feature value -/
def applySimple (st : Subtable) (gs : List G) (i : Nat) (altIndex : Nat) : Step :=
  match gs[i]? with
  | none => none
  | some g =>
    match st with
    | .single1 cov delta => (cov.index g.gid).map fun _ =>
        (replaceAt gs i [{ g with gid := (((g.gid : Int) + delta) % 65536).toNat }] 1, i + 1)
    | .single2 cov subst => do
        let k ← cov.index g.gid
        let s ← subst[k]?
        pure (replaceAt gs i [{ g with gid := s }] 1, i + 1)
    | .multiple cov seqs => do
        let k ← cov.index g.gid
        let ss ← seqs[k]?
        pure (replaceAt gs i (ss.map fun s => { g with gid := s }) 1, i + ss.length)
    | .alternate cov alts => do
        let k ← cov.index g.gid
        let set ← alts[k]?
        if altIndex == 0 then none else
        let s ← set[altIndex - 1]?
        pure (replaceAt gs i [{ g with gid := s }] 1, i + 1)
    | _ => none

/-- the feature value carried by the glyph's mask for a lookup mask (alternate index) -/
def altValue (lookupMask gmask : Nat) : Nat :=
  let rec tz (m : Nat) : Nat → Nat
    | 0 => 0
    | k + 1 => if m % 2 == 1 then 0 else 1 + tz (m / 2) k
  (lookupMask &&& gmask) >>> (tz lookupMask 32)

/-- nested lookup application at one position: first matching subtable of a single-position lookup -/
def applyNested (f : Font) (lookupIdx : Nat) (gs : List G) (p : Nat) (lookupMask : Nat) : List G × Nat :=
  match f.lookups[lookupIdx]?, gs[p]? with
  | some l, some g =>
    let rec go : List Subtable → List G × Nat
      | [] => (gs, 0)
      | st :: rest =>
        match applySimple st gs p (altValue lookupMask g.mask) with
        | some (gs', nxt) => (gs', nxt - p - 1)     -- growth
        | none => go rest
    go l.subtables
  | _, _ => (gs, 0)

/-- apply the nested-lookup records of a contextual rule at the matched input positions -/
def applyRecords (f : Font) (lookupMask : Nat) : List Rec → List G → List Nat → List G × List Nat
  | [], gs, ps => (gs, ps)
  | (seqIdx, lookupIdx) :: rest, gs, ps =>
    match ps[seqIdx]? with
    | none => applyRecords f lookupMask rest gs ps
    | some p =>
      let (gs', growth) := applyNested f lookupIdx gs p lookupMask
      -- "sequenceIndex" of a later record refers to the sequence AS MODIFIED by the earlier records: the glyphs a
      -- growing nested lookup produced take their own places right after the current position, the positions
      -- behind them move up by the growth
      let ps' := ps.take (seqIdx + 1) ++ (List.range growth).map (fun j => p + 1 + j)
                   ++ (ps.drop (seqIdx + 1)).map (· + growth)
      applyRecords f lookupMask rest gs' ps'

/-- one subtable at position `i` (the glyph at `i` is visible and enabled) -/
def applySubtableAt (f : Font) (level : Nat) (props lookupMask : Nat) (st : Subtable) (gs : List G) (i : Nat) : Step :=
  match gs[i]? with
  | none => none
  | some g =>
    let after := (visibleFrom f props gs (i + 1))
    let before := visibleBefore f props gs i
    let ctxRule (input : List (Nat → Bool)) (back ahead : List (Nat → Bool)) (recs : List Rec) : Step := do
      let ins ← matchSeq gs after input (some lookupMask)
      let lastIn := (ins.getLast?).getD i
      let afterIn := visibleFrom f props gs (lastIn + 1)
      let _ ← matchSeq gs afterIn ahead
      let _ ← matchSeq gs before back
      let (gs', ps') := applyRecords f lookupMask recs gs (i :: ins)
      pure (gs', (ps'.getLast?).getD i + 1 + ((gs'.length - gs.length) - ((ps'.getLast?).getD i - lastIn)))
    match st with
    | .single1 .. | .single2 .. | .multiple .. | .alternate .. => applySimple st gs i (altValue lookupMask g.mask)
    | .ligature cov sets => do
        let k ← cov.index g.gid
        let ligs ← sets[k]?
        let rec first : List (List Nat × Nat) → Step
          | [] => none
          | (comps, lig) :: rest =>
            match matchSeq gs after (comps.map fun c => fun x => x == c) (some lookupMask) with
            | some ins =>
              let lastIn := (ins.getLast?).getD i
              let gs1 := mergeClusters level gs i lastIn
              let g1 := (gs1[i]?).getD g
              -- the ligature replaces the first component; the other components are removed
              let removed := ins
              let gs2 := (gs1.mapIdx fun j x => (j, x)).filterMap fun (j, x) =>
                if j == i then some { g1 with gid := lig } else if removed.contains j then none else some x
              some (gs2, lastIn + 1 - ins.length)
            | none => first rest
        first ligs
    | .context1 cov sets => do
        let k ← cov.index g.gid
        let rules ← sets[k]?
        rules.firstM fun r => ctxRule (r.input.map fun v => fun x => x == v) [] [] r.lookups
    | .context2 cov classes sets => do
        let _ ← cov.index g.gid
        let rules ← (sets[classes.get g.gid]?).join
        rules.firstM fun r => ctxRule (r.input.map fun v => fun x => classes.get x == v) [] [] r.lookups
    | .context3 covs recs =>
        match covs with
        | [] => none
        | c0 :: rest => do
          let _ ← c0.index g.gid
          ctxRule (rest.map fun c => fun x => c.contains x) [] [] recs
    | .chain1 cov sets => do
        let k ← cov.index g.gid
        let rules ← sets[k]?
        rules.firstM fun r => ctxRule (r.input.map fun v => fun x => x == v) (r.backtrack.map fun v => fun x => x == v)
          (r.lookahead.map fun v => fun x => x == v) r.lookups
    | .chain2 cov bc ic lc sets => do
        let _ ← cov.index g.gid
        let rules ← (sets[ic.get g.gid]?).join
        rules.firstM fun r => ctxRule (r.input.map fun v => fun x => ic.get x == v)
          (r.backtrack.map fun v => fun x => bc.get x == v) (r.lookahead.map fun v => fun x => lc.get x == v) r.lookups
    | .chain3 back input ahead recs =>
        match input with
        | [] => none
        | c0 :: rest => do
          let _ ← c0.index g.gid
          ctxRule (rest.map fun c => fun x => c.contains x) (back.map fun c => fun x => c.contains x)
            (ahead.map fun c => fun x => c.contains x) recs
    | .reverse .. => none

def firstSubtable (f : Font) (level props lookupMask : Nat) (gs : List G) (i : Nat) : List Subtable → Step
  | [] => none
  | st :: rest =>
    match applySubtableAt f level props lookupMask st gs i with
    | some r => some r
    | none => firstSubtable f level props lookupMask gs i rest

/-- one forward lookup over the whole string: scan once in logical order -/
def applyLookupFwd (f : Font) (level : Nat) (l : Lookup) (lookupMask : Nat) : Nat → List G → Nat → List G
  | 0, gs, _ => gs
  | fuel + 1, gs, i =>
    match gs[i]? with
    | none => gs
    | some g =>
      if g.mask &&& lookupMask != 0 && !ignored f l.props g then
        match firstSubtable f level l.props lookupMask gs i l.subtables with
        | some (gs', nxt) => applyLookupFwd f level l lookupMask fuel gs' (max nxt i)
        | none => applyLookupFwd f level l lookupMask fuel gs (i + 1)
      else applyLookupFwd f level l lookupMask fuel gs (i + 1)

/-- reverse-chaining single substitution: scan backwards, one glyph at a time, context on both sides -/
def applyLookupRev (f : Font) (l : Lookup) (lookupMask : Nat) : Nat → List G → List G
  | 0, gs => gs
  | i + 1, gs =>
    match gs[i]? with
    | none => applyLookupRev f l lookupMask i gs
    | some g =>
      if g.mask &&& lookupMask != 0 && !ignored f l.props g then
        let rec first : List Subtable → Option (List G)
          | [] => none
          | .reverse cov back ahead subst :: rest =>
            match cov.index g.gid with
            | some k =>
              match subst[k]? with
              | some s =>
                let after := visibleFrom f l.props gs (i + 1)
                let before := visibleBefore f l.props gs i
                if (matchSeq gs before (back.map fun c => fun x => c.contains x)).isSome
                    && (matchSeq gs after (ahead.map fun c => fun x => c.contains x)).isSome
                then some (gs.set i { g with gid := s }) else first rest
              | none => first rest
            | none => first rest
          | _ :: rest => first rest
        match first l.subtables with
        | some gs' => applyLookupRev f l lookupMask i gs'
        | none => applyLookupRev f l lookupMask i gs
      else applyLookupRev f l lookupMask i gs

/-- the planned lookups in order -/
def applyAll (f : Font) (level : Nat) : List LookupMap → List G → List G
  | [], gs => gs
  | m :: rest, gs =>
    match f.lookups[m.index]? with
    | none => applyAll f level rest gs
    | some l =>
      if gs.isEmpty || m.mask == 0 then applyAll f level rest gs
      else if l.reverse then applyAll f level rest (applyLookupRev f l m.mask gs.length gs)
      else applyAll f level rest (applyLookupFwd f level l m.mask (64 * gs.length + 16384) gs 0)

end RbModel.Spec.Subst
