/-
  Canonical equivalence of short character sequences, written from the Unicode Standard (ch. 3.7 D68 "canonical
  decomposition": recursive application of the canonical decomposition mappings; ch. 3.11 D108/D109 "Canonical
  Ordering Algorithm": a pair of adjacent characters <A, B> with ccc(A) > ccc(B) > 0 is exchanged until no such
  pair is left) and UAX #15 (two strings are canonically equivalent iff their NFDs are equal; NFD = canonical
  ordering of the full canonical decomposition).  Nothing here is read from the crate: the mapping data and the
  combining classes are parameters (instantiated with the reference of Gen/NormRef.lean by the property files).
  Hangul syllables (algorithmic decomposition) are outside the mapping table; the users of this file never apply
  it to them.  The algorithms take the data as functions (`…F`); `mapping` / `ccc` read them from tables.
  (`Nat.beq` / `Nat.ble` rather than `==` / `≤`: the kernel evaluates them on literals directly.)
-/
namespace RbModel.Spec.CanonEquiv

/-- canonical decomposition mappings, rows `(c, a, b)`: `c ↦ <a, b>`, `b = 0` for a singleton mapping `c ↦ <a>` -/
abbrev Mappings := List (Nat × Nat × Nat)
/-- Canonical_Combining_Class ≠ 0 as ranges `(lo, hi, ccc)` -/
abbrev Classes := List (Nat × Nat × Nat)

/-- the canonical decomposition mapping of `c`, if it has one (first row with that character) -/
def mapping : Mappings → Nat → Option (Nat × Nat)
  | [], _ => none
  | r :: rs, c => if Nat.beq r.1 c then some r.2 else mapping rs c

/-- Canonical_Combining_Class of `c` (first range containing it; 0 if none) -/
def ccc : Classes → Nat → Nat
  | [], _ => 0
  | r :: rs, c => if Nat.ble r.1 c && Nat.ble c r.2.1 then r.2.2 else ccc rs c

/-- D68: full canonical decomposition, by recursive application of the mappings (`fuel` bounds the depth of the
    recursion; the longest chain of the Unicode data has depth 4) -/
def fullDecompF (m : Nat → Option (Nat × Nat)) : Nat → Nat → List Nat
  | 0, c => [c]
  | fuel + 1, c =>
    match m c with
    | none => [c]
    | some (a, b) => fullDecompF m fuel a ++ (if b = 0 then [] else fullDecompF m fuel b)

/-- `acc` is the text so far, REVERSED and canonically ordered; `c` (class `n > 0`) is moved to the left past every
    character of a greater class (D108: `<A, c>` with `ccc(A) > ccc(c) > 0` is a reorderable pair) -/
def placeF (cc : Nat → Nat) (n c : Nat) : List Nat → List Nat
  | [] => [c]
  | x :: xs => if Nat.blt n (cc x) then x :: placeF cc n c xs else c :: x :: xs

/-- D109: the Canonical Ordering Algorithm -/
def canonOrderF (cc : Nat → Nat) (l : List Nat) : List Nat :=
  (l.foldl (fun acc c => if Nat.beq (cc c) 0 then c :: acc else placeF cc (cc c) c acc) []).reverse

/-- NFD of a sequence -/
def nfdF (m : Nat → Option (Nat × Nat)) (cc : Nat → Nat) (l : List Nat) : List Nat :=
  canonOrderF cc (l.flatMap (fullDecompF m 8))

/-- `<a, b>` and `<ab>` are canonically equivalent (`b = 0`: `<a>` and `<ab>`) -/
def pairEquivF (m : Nat → Option (Nat × Nat)) (cc : Nat → Nat) (a b ab : Nat) : Bool :=
  nfdF m cc [ab] == nfdF m cc (if b = 0 then [a] else [a, b])

/-- … by the data of the tables `t` (mappings) and `k` (classes) -/
def pairEquiv (t : Mappings) (k : Classes) (a b ab : Nat) : Bool :=
  pairEquivF (mapping t) (ccc k) a b ab

/-- a table restricted to the characters of a set has the same mappings on that set -/
theorem mapping_filter (t : Mappings) (dom : Nat → Bool) (c : Nat) (h : dom c = true) :
    mapping (t.filter fun r => dom r.1) c = mapping t c := by
  induction t with
  | nil => rfl
  | cons r rs ih =>
    by_cases hr : dom r.1 = true
    · simp only [List.filter_cons, hr, if_true, mapping, ih]
    · by_cases he : Nat.beq r.1 c = true
      · have : r.1 = c := Nat.eq_of_beq_eq_true he
        rw [this] at hr; exact absurd h hr
      · have hr' : dom r.1 = false := by simpa using hr
        have he' : Nat.beq r.1 c = false := Bool.eq_false_iff.mpr he
        rw [List.filter_cons]
        simp only [hr', mapping, he', Bool.false_eq_true, if_false]
        exact ih

/-- class ranges restricted to those that satisfy `keep` give the same class to every character all of whose
    containing ranges satisfy `keep` -/
theorem ccc_filter (k : Classes) (keep : Nat × Nat × Nat → Bool) (c : Nat)
    (h : ∀ r ∈ k, (Nat.ble r.1 c && Nat.ble c r.2.1) = true → keep r = true) :
    ccc (k.filter keep) c = ccc k c := by
  induction k with
  | nil => rfl
  | cons r rs ih =>
    have ih' := ih (fun r' hr' => h r' (List.mem_cons_of_mem _ hr'))
    by_cases hk : keep r = true
    · simp only [List.filter_cons, hk, if_true, ccc, ih']
    · by_cases hc : (Nat.ble r.1 c && Nat.ble c r.2.1) = true
      · exact absurd (h r (List.mem_cons_self ..) hc) hk
      · have hk' : keep r = false := Bool.eq_false_iff.mpr hk
        have hc' : (Nat.ble r.1 c && Nat.ble c r.2.1) = false := Bool.eq_false_iff.mpr hc
        rw [List.filter_cons]
        simp only [hk', ccc, hc', Bool.false_eq_true, if_false]
        exact ih'

end RbModel.Spec.CanonEquiv
