/-
  Spec/Aat — declarative semantics of the AAT `morx` subtables, written from Apple's TrueType Reference
  Manual (chapter "The 'morx' table", and "Font Tables: state tables / lookup tables"), NOT from the
  Rust code. Glyph sequences are plain lists/arrays of glyph ids in one vector with a cursor: there is
  no in/out buffer, no cluster, no flag. `none` = outside the domain where the manual is unambiguous
  (malformed indices, a don't-advance loop that outlives the operation budget, …).

  Conventions that the manual leaves open and that HarfBuzz/CoreText practice fixes are marked [conv].
-/
namespace RbModel.Spec.Aat

/-! ## Rearrangement verbs (manual: "Rearrangement subtable", table of the 16 verbs) -/

/-- the letters of Apple's verb table: A B are the first two glyphs of the marked range, C D the last
    two, x is everything in between (any length, possibly empty). -/
inductive Sym where
  | A | B | C | D | x
  deriving DecidableEq, Repr

open Sym in
/-- verb ↦ (pattern before, pattern after), copied from the manual. -/
def verbTable : Nat → List Sym × List Sym
  | 0  => ([x], [x])                                -- no change
  | 1  => ([A, x], [x, A])                          -- Ax ⇒ xA
  | 2  => ([x, D], [D, x])                          -- xD ⇒ Dx
  | 3  => ([A, x, D], [D, x, A])                    -- AxD ⇒ DxA
  | 4  => ([A, B, x], [x, A, B])                    -- ABx ⇒ xAB
  | 5  => ([A, B, x], [x, B, A])                    -- ABx ⇒ xBA
  | 6  => ([x, C, D], [C, D, x])                    -- xCD ⇒ CDx
  | 7  => ([x, C, D], [D, C, x])                    -- xCD ⇒ DCx
  | 8  => ([A, x, C, D], [C, D, x, A])              -- AxCD ⇒ CDxA
  | 9  => ([A, x, C, D], [D, C, x, A])              -- AxCD ⇒ DCxA
  | 10 => ([A, B, x, D], [D, x, A, B])              -- ABxD ⇒ DxAB
  | 11 => ([A, B, x, D], [D, x, B, A])              -- ABxD ⇒ DxBA
  | 12 => ([A, B, x, C, D], [C, D, x, A, B])        -- ABxCD ⇒ CDxAB
  | 13 => ([A, B, x, C, D], [C, D, x, B, A])        -- ABxCD ⇒ CDxBA
  | 14 => ([A, B, x, C, D], [D, C, x, A, B])        -- ABxCD ⇒ DCxAB
  | 15 => ([A, B, x, C, D], [D, C, x, B, A])        -- ABxCD ⇒ DCxBA
  | _  => ([x], [x])

/-- an assignment of the letters: four single glyphs and the middle run. -/
structure Asg (α : Type) where
  a : α
  b : α
  c : α
  d : α
  x : List α

/-- a pattern instantiated with an assignment -/
def inst {α : Type} (σ : Asg α) : List Sym → List α
  | [] => []
  | .A :: r => σ.a :: inst σ r
  | .B :: r => σ.b :: inst σ r
  | .C :: r => σ.c :: inst σ r
  | .D :: r => σ.d :: inst σ r
  | .x :: r => σ.x ++ inst σ r

/-- number of single letters before / after `x` in a pattern -/
def nLead (p : List Sym) : Nat := (p.takeWhile (· != Sym.x)).length
def nTrail (p : List Sym) : Nat := ((p.dropWhile (· != Sym.x)).drop 1).length

/-- executable form: apply verb `v` to a marked range (`none` if the range is too short for the verb). -/
def applyVerb {α : Type} (v : Nat) (xs : List α) : Option (List α) :=
  let (lhs, rhs) := verbTable v
  let nl := nLead lhs
  let nr := nTrail lhs
  if xs.length < nl + nr then none
  else
    let lead := xs.take nl
    let mid := (xs.drop nl).take (xs.length - nl - nr)
    let trail := xs.drop (xs.length - nr)
    -- the i-th single letter before x is bound to the i-th glyph, the j-th letter after x to the j-th of the tail
    let leadSyms := lhs.takeWhile (· != Sym.x)
    let trailSyms := (lhs.dropWhile (· != Sym.x)).drop 1
    let env : List (Sym × List α) :=
      (leadSyms.zipIdx.map (fun (s, i) => (s, (lead.drop i).take 1))) ++ [(Sym.x, mid)] ++
      (trailSyms.zipIdx.map (fun (s, i) => (s, (trail.drop i).take 1)))
    some (rhs.flatMap (fun s => ((env.find? (·.1 == s)).map (·.2)).getD []))

/-! ## State tables (manual: "Extended state tables") -/

/-- predefined classes -/
def classEndOfText : Nat := 0
def classOutOfBounds : Nat := 1
def classDeletedGlyph : Nat := 2
def deletedGlyph : Nat := 0xFFFF

structure Entry where
  newState : Nat
  flags : Nat
  x1 : Nat       -- first per-type word  (contextual markIndex / ligature ligActionIndex / insertion currentInsertIndex)
  x2 : Nat       -- second per-type word (contextual currentIndex / insertion markedInsertIndex)
  deriving Repr, Inhabited

structure StateTable where
  nClasses : Nat
  classOf : Nat → Option Nat                 -- class lookup table
  entry : Nat → Nat → Option Entry           -- state, class ↦ entry; none = index outside the arrays

/-- flag bits shared by all four state-machine subtable types -/
def fSetMark : Nat := 0x8000       -- markFirst / setMark / setComponent
def fDontAdvance : Nat := 0x4000
/-- rearrangement -/
def fMarkLast : Nat := 0x2000
def fVerb : Nat := 0x000F
/-- ligature -/
def fPerformAction : Nat := 0x2000
def ligLast : Nat := 0x80000000
def ligStore : Nat := 0x40000000
def ligOffset : Nat := 0x3FFFFFFF
/-- insertion -/
def fCurrentInsertBefore : Nat := 0x0800
def fMarkedInsertBefore : Nat := 0x0400
def fCurrentInsertCount : Nat := 0x03E0
def fMarkedInsertCount : Nat := 0x001F

def has (flags mask : Nat) : Bool := flags &&& mask != 0

/-- interpreter state: one glyph vector and a cursor -/
structure St where
  xs : Array Nat
  i : Nat
  state : Nat := 0
  ops : Int                      -- [conv] HarfBuzz's operation budget; exhausting it is outside the domain
  first : Nat := 0               -- rearrangement: first marked glyph
  lastEx : Nat := 0              -- rearrangement: one past the last marked glyph
  markSet : Bool := false
  mark : Nat := 0
  stack : List Nat := []         -- ligature component stack, top first: the newest `ligStackKept` components
  lost : Nat := 0                -- number of older components below them that are no longer remembered
  deriving Repr

def St.len (s : St) : Nat := s.xs.size

def classAt (t : StateTable) (s : St) : Nat :=
  match s.xs[s.i]? with
  | none => classEndOfText
  | some g => if g == deletedGlyph then classDeletedGlyph else (t.classOf g).getD classOutOfBounds

/-- the generic driver: "for every glyph, and once more for end of text: look up the entry for
    (state, class), perform its action, go to the new state, advance unless DontAdvance". -/
def runLoop (t : StateTable) (act : Entry → St → Option St) : (fuel : Nat) → St → Option St
  | 0, _ => none
  | fuel + 1, s =>
    let cls := classAt t s
    if cls ≥ t.nClasses then none else
    match t.entry s.state cls with
    | none => none
    | some e =>
      match act e s with
      | none => none
      | some s =>
        let s := { s with state := e.newState }
        if s.i ≥ s.len then some s
        else if !has e.flags fDontAdvance then runLoop t act fuel { s with i := s.i + 1 }
        else if s.ops ≤ 0 then none
        else runLoop t act fuel { s with ops := s.ops - 1 }

/-! ### rearrangement -/

def rearrAct (e : Entry) (s : St) : Option St :=
  let s := if has e.flags fSetMark then { s with first := s.i } else s
  let s := if has e.flags fMarkLast then { s with lastEx := min (s.i + 1) s.len } else s
  let verb := e.flags &&& fVerb
  if verb != 0 && s.first < s.lastEx then
    let range := (s.xs.extract s.first s.lastEx).toList
    if range.length > 64 then none     -- [conv] HarfBuzz ignores longer ranges; outside the domain
    else match applyVerb verb range with
      | none => some s                 -- range too short for the verb: nothing happens
      | some r => some { s with xs := s.xs.extract 0 s.first ++ r.toArray ++ s.xs.extract s.lastEx s.len }
  else some s

/-! ### contextual substitution -/

def substAt (xs : Array Nat) (pos : Nat) (tbl : Nat → Option Nat) : Option (Array Nat) :=
  match xs[pos]? with
  | none => none
  | some g => some (match tbl g with | some r => xs.setIfInBounds pos r | none => xs)

def ctxAct (tables : Nat → Option (Nat → Option Nat)) (e : Entry) (s : St) : Option St :=
  -- [conv] at end of text nothing is substituted unless a mark was set explicitly (CoreText)
  if s.i ≥ s.len && !s.markSet then some s
  else do
    let xs ← if e.x1 != 0xFFFF then do
        let tbl ← tables e.x1
        substAt s.xs s.mark tbl
      else some s.xs
    -- [conv] at end of text "the current glyph" is the last glyph
    let cur := if s.i < s.len then s.i else s.len - 1
    let xs ← if e.x2 != 0xFFFF then do
        let tbl ← tables e.x2
        substAt xs cur tbl
      else some xs
    let s := { s with xs := xs }
    some (if has e.flags fSetMark then { s with markSet := true, mark := s.i } else s)

/-! ### ligatures -/

/-- sign-extend the 30-bit offset -/
def ligOffsetOf (action : Nat) : Int :=
  let o := action &&& ligOffset
  if o &&& 0x20000000 != 0 then (o : Int) - 2 ^ 30 else o

/-- [conv] The manual gives the component stack no depth limit. HarfBuzz and rustybuzz remember the newest 64
    components (HB_MAX_CONTEXT_LENGTH); the stack itself may grow deeper (every ligature formed stays on it, and so
    does every component that is pushed and never consumed — the depth grows over a whole line of text), but an
    action list that pops a component older than the newest 64 is outside the domain. -/
def ligStackKept : Nat := 64

/-- push a component: the stack grows by one; only the newest `ligStackKept` positions are remembered -/
def ligPushPos (s : St) (i : Nat) : St :=
  if s.stack.length < ligStackKept then { s with stack := i :: s.stack }
  else { s with stack := (i :: s.stack).take ligStackKept, lost := s.lost + 1 }

/-- run the action list: pop a component, add its component-table value to the accumulator; on Store/Last
    the accumulated value selects the ligature, which replaces the popped glyph and is pushed back, while
    the glyphs popped before it become the deleted glyph. -/
def ligActions (actions components ligatures : Nat → Option Nat) :
    (fuel : Nat) → (k acc : Nat) → (pending : List Nat) → St → Option St
  | 0, _, _, _, _ => none
  | fuel + 1, k, acc, pending, s =>
    match s.stack with
    | [] =>
      if s.lost != 0 then none                -- [conv] a component older than the newest 64: outside the domain
      else some { s with stack := [] }        -- [conv] stack underflow: stop
    | p :: rest => do
      let action ← actions k
      let g ← s.xs[p]?
      let ci : Int := (g : Int) + ligOffsetOf action
      if ci < 0 then none
      let comp ← components ci.toNat
      let acc := acc + comp
      if action &&& (ligStore ||| ligLast) != 0 then
        let lig ← ligatures acc
        let xs := s.xs.setIfInBounds p lig
        let xs := pending.foldl (fun xs q => xs.setIfInBounds q deletedGlyph) xs
        if action &&& ligLast != 0 then some { s with xs := xs, stack := p :: rest }
        -- [conv] the ligature stays on the stack above the components still to be popped; a later
        -- Store of the same action list swallows it like any other popped component
        else ligActions actions components ligatures fuel (k + 1) acc [p] { s with xs := xs, stack := rest }
      else ligActions actions components ligatures fuel (k + 1) acc (p :: pending) { s with stack := rest }

/-- "setComponent: push this glyph onto the component stack" -/
def ligPush (s : St) : Option St :=
  match s.stack with
  | p :: _ => some (if p == s.i then s else ligPushPos s s.i)   -- [conv] never push the same position twice (DontAdvance loops)
  | [] => if s.lost != 0 then none else some (ligPushPos s s.i) -- (every remembered component popped, older ones below: outside the domain)

/-- "performAction: use the ligActionIndex to process a ligature group" -/
def ligPerform (actions components ligatures : Nat → Option Nat) (e : Entry) (s : St) : Option St :=
  if s.stack.isEmpty then (if s.lost != 0 then none else some s)
  else if s.i ≥ s.len then some s        -- [conv] no action at end of text
  else ligActions actions components ligatures (s.stack.length + 1) e.x1 0 [] s

def ligAct (actions components ligatures : Nat → Option Nat) (e : Entry) (s : St) : Option St := do
  let s ← if has e.flags fSetMark then ligPush s else some s
  if has e.flags fPerformAction then ligPerform actions components ligatures e s else some s

/-! ### insertion -/

def insertAt (xs : Array Nat) (pos : Nat) (ins : List Nat) : Array Nat :=
  xs.extract 0 pos ++ ins.toArray ++ xs.extract pos xs.size

def takeGlyphs (glyphs : Nat → Option Nat) (start count : Nat) : Option (List Nat) :=
  (List.range count).mapM (fun i => glyphs (start + i))

def insAct (glyphs : Nat → Option Nat) (e : Entry) (s : St) : Option St := do
  -- marked insertion
  let s ← if e.x2 != 0xFFFF then do
      let c := e.flags &&& fMarkedInsertCount
      let ops := s.ops - c
      if ops ≤ 0 then none
      let ins ← takeGlyphs glyphs e.x2 c
      if s.mark > s.len then none
      let pos := if has e.flags fMarkedInsertBefore || s.mark ≥ s.len then s.mark else s.mark + 1
      if pos > s.i && c > 0 then none      -- the mark never lies after the cursor
      some { s with xs := insertAt s.xs pos ins, i := s.i + c, ops := ops }
    else some s
  -- "setMark: mark the current glyph"
  let s := if has e.flags fSetMark then { s with mark := s.i } else s
  -- current insertion
  if e.x1 != 0xFFFF then
    let c := (e.flags &&& fCurrentInsertCount) >>> 5
    let ops := s.ops - c
    if ops < 0 then none
    let ins ← takeGlyphs glyphs e.x1 c
    let pos := if has e.flags fCurrentInsertBefore || s.i ≥ s.len then s.i else s.i + 1
    -- "If DontAdvance is set the next glyph processed is the one at the same index" [conv: harfbuzz#1224]
    let i := if has e.flags fDontAdvance then s.i else s.i + c
    some { s with xs := insertAt s.xs pos ins, i := i, ops := ops }
  else some s

/-! ### subtables and chains -/

inductive Sub where
  | rearr (t : StateTable)
  | contextual (t : StateTable) (tables : Nat → Option (Nat → Option Nat))
  | ligature (t : StateTable) (actions components ligatures : Nat → Option Nat)
  | noncontextual (map : Nat → Option Nat)
  | insertion (t : StateTable) (glyphs : Nat → Option Nat)

/-- run one subtable over a glyph vector given in processing order -/
def runSub (sub : Sub) (xs : Array Nat) (ops : Int) (fuel : Nat) : Option (Array Nat × Int) :=
  let s0 : St := { xs := xs, i := 0, ops := ops }
  match sub with
  | .rearr t => (runLoop t rearrAct fuel s0).map (fun s => (s.xs, s.ops))
  | .contextual t tb => (runLoop t (ctxAct tb) fuel s0).map (fun s => (s.xs, s.ops))
  | .ligature t a c l => (runLoop t (ligAct a c l) fuel s0).map (fun s => (s.xs, s.ops))
  | .insertion t g => (runLoop t (insAct g) fuel s0).map (fun s => (s.xs, s.ops))
  | .noncontextual m => some (xs.map (fun g => (m g).getD g), ops)

/-- coverage bits (manual: "Metamorphosis subtable coverage"), top byte of the coverage word -/
structure Coverage where
  vertical : Bool          -- 0x80: only for vertical text
  descending : Bool        -- 0x40: process glyphs in descending order
  allDirections : Bool     -- 0x20: both horizontal and vertical text
  logical : Bool           -- 0x10: logical order instead of layout order

def Coverage.ofByte (b : Nat) : Coverage :=
  ⟨b &&& 0x80 != 0, b &&& 0x40 != 0, b &&& 0x20 != 0, b &&& 0x10 != 0⟩

structure Subtable where
  coverage : Coverage
  featureFlags : Nat
  sub : Sub

/-- The glyph vector is kept in logical order. Layout order is logical order for left-to-right text and
    its reverse for right-to-left text; "descending" flips whichever order the `logical` bit selects. -/
def processingReversed (c : Coverage) (rtl : Bool) : Bool :=
  let base := if c.logical then false else rtl
  if c.descending then !base else base

/-- a subtable is applied iff it is enabled by the chain's compiled flags and fits the text orientation -/
def applies (st : Subtable) (chainFlags : Nat) (vertical : Bool) : Bool :=
  (st.featureFlags &&& chainFlags != 0) && (st.coverage.allDirections || st.coverage.vertical == vertical)

def runSubtable (st : Subtable) (chainFlags : Nat) (rtl vertical : Bool) (fuel : Nat)
    (xs : Array Nat) (ops : Int) : Option (Array Nat × Int) :=
  if !applies st chainFlags vertical then some (xs, ops)
  else
    let rev := processingReversed st.coverage rtl
    let xs := if rev then xs.reverse else xs
    match runSub st.sub xs ops fuel with
    | none => none
    | some (ys, ops) => some (if rev then ys.reverse else ys, ops)

/-- chain flags (manual: "Metamorphosis chains", feature subtable): start from the default flags; for each
    feature entry whose (type, setting) was requested: `flags = (flags & disableFlags) | enableFlags`. -/
def chainFlagsSpec (requested : Nat → Nat → Bool) (defaultFlags : Nat)
    (features : List (Nat × Nat × Nat × Nat)) : Nat :=
  match features with
  | [] => defaultFlags
  | (ty, setting, enable, disable) :: rest =>
    chainFlagsSpec requested
      (if requested ty setting then (defaultFlags &&& disable) ||| enable else defaultFlags) rest

def runChain (subs : List Subtable) (chainFlags : Nat) (rtl vertical : Bool) (fuel : Nat) :
    Array Nat → Int → Option (Array Nat × Int)
  := fun xs ops => subs.foldlM (fun (p : Array Nat × Int) st => runSubtable st chainFlags rtl vertical fuel p.1 p.2) (xs, ops)

end RbModel.Spec.Aat
