namespace RbModel.Spec.Aat
end RbModel.Spec.Aat
