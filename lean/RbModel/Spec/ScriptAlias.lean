/-!
# ISO 15924 codes that name a variant of another script (spec for C18)

Written from the ISO 15924 code list (https://unicode.org/iso15924/) and UAX #24, not from the code:
`Qaai` is the old private-use alias of Inherited (`Zinh`), `Qaac` of Coptic (`Copt`); `Aran` is Arabic in Nastaliq
style, `Cyrs` Old Church Slavonic Cyrillic, `Geok` Khutsuri (Georgian), `Hans` / `Hant` simplified / traditional Han,
`Jamo` the Hangul jamo subset, `Latf` / `Latg` Fraktur / Gaelic Latin, `Syre` / `Syrj` / `Syrn` the Estrangelo / Western /
Eastern Syriac variants.  Script codes are case-insensitive on input and written with one capital and three small
letters.
-/

namespace RbModel.Spec.ScriptAlias

/-- a four-letter code as the big-endian number of its bytes -/
def tg (a b c d : Char) : Nat := a.toNat * 16777216 + b.toNat * 65536 + c.toNat * 256 + d.toNat

/-- (variant code, the script it is a variant of) -/
def variants : List (Nat × Nat) := [
  (tg 'Q' 'a' 'a' 'i', tg 'Z' 'i' 'n' 'h'),
  (tg 'Q' 'a' 'a' 'c', tg 'C' 'o' 'p' 't'),
  (tg 'A' 'r' 'a' 'n', tg 'A' 'r' 'a' 'b'),
  (tg 'C' 'y' 'r' 's', tg 'C' 'y' 'r' 'l'),
  (tg 'G' 'e' 'o' 'k', tg 'G' 'e' 'o' 'r'),
  (tg 'H' 'a' 'n' 's', tg 'H' 'a' 'n' 'i'),
  (tg 'H' 'a' 'n' 't', tg 'H' 'a' 'n' 'i'),
  (tg 'J' 'a' 'm' 'o', tg 'H' 'a' 'n' 'g'),
  (tg 'L' 'a' 't' 'f', tg 'L' 'a' 't' 'n'),
  (tg 'L' 'a' 't' 'g', tg 'L' 'a' 't' 'n'),
  (tg 'S' 'y' 'r' 'e', tg 'S' 'y' 'r' 'c'),
  (tg 'S' 'y' 'r' 'j', tg 'S' 'y' 'r' 'c'),
  (tg 'S' 'y' 'r' 'n', tg 'S' 'y' 'r' 'c')]

end RbModel.Spec.ScriptAlias
