/-
  Spec: Default_Ignorable_Code_Point of Unicode 16.0.0, written out by hand from
  DerivedCoreProperties.txt ("Derived Property: Default_Ignorable_Code_Point"), row by row,
  NOT from the code.  The shaping property (C13) excludes the four Hangul fillers
  U+115F, U+1160, U+3164, U+FFA0 (they must stay visible as fillers): they are listed as their own
  rows and taken out.  Core Lean only.
-/
namespace RbModel.Spec.DI

/-- every row of the Unicode 16 listing (inclusive ranges, in file order) -/
def dicpRows : List (Nat × Nat) := [
  (0x00AD, 0x00AD),     -- SOFT HYPHEN
  (0x034F, 0x034F),     -- COMBINING GRAPHEME JOINER
  (0x061C, 0x061C),     -- ARABIC LETTER MARK
  (0x115F, 0x1160),     -- HANGUL CHOSEONG FILLER..HANGUL JUNGSEONG FILLER
  (0x17B4, 0x17B5),     -- KHMER VOWEL INHERENT AQ..KHMER VOWEL INHERENT AA
  (0x180B, 0x180D),     -- MONGOLIAN FREE VARIATION SELECTOR ONE..THREE
  (0x180E, 0x180E),     -- MONGOLIAN VOWEL SEPARATOR
  (0x180F, 0x180F),     -- MONGOLIAN FREE VARIATION SELECTOR FOUR
  (0x200B, 0x200F),     -- ZERO WIDTH SPACE..RIGHT-TO-LEFT MARK
  (0x202A, 0x202E),     -- LEFT-TO-RIGHT EMBEDDING..RIGHT-TO-LEFT OVERRIDE
  (0x2060, 0x2064),     -- WORD JOINER..INVISIBLE PLUS
  (0x2065, 0x2065),     -- <reserved-2065>
  (0x2066, 0x206F),     -- LEFT-TO-RIGHT ISOLATE..NOMINAL DIGIT SHAPES
  (0x3164, 0x3164),     -- HANGUL FILLER
  (0xFE00, 0xFE0F),     -- VARIATION SELECTOR-1..VARIATION SELECTOR-16
  (0xFEFF, 0xFEFF),     -- ZERO WIDTH NO-BREAK SPACE
  (0xFFA0, 0xFFA0),     -- HALFWIDTH HANGUL FILLER
  (0xFFF0, 0xFFF8),     -- <reserved-FFF0>..<reserved-FFF8>
  (0x1BCA0, 0x1BCA3),   -- SHORTHAND FORMAT LETTER OVERLAP..SHORTHAND FORMAT UP STEP
  (0x1D173, 0x1D17A),   -- MUSICAL SYMBOL BEGIN BEAM..MUSICAL SYMBOL END PHRASE
  (0xE0000, 0xE0000),   -- <reserved-E0000>
  (0xE0001, 0xE0001),   -- LANGUAGE TAG
  (0xE0002, 0xE001F),   -- <reserved-E0002>..<reserved-E001F>
  (0xE0020, 0xE007F),   -- TAG SPACE..CANCEL TAG
  (0xE0080, 0xE00FF),   -- <reserved-E0080>..<reserved-E00FF>
  (0xE0100, 0xE01EF),   -- VARIATION SELECTOR-17..VARIATION SELECTOR-256
  (0xE01F0, 0xE0FFF)    -- <reserved-E01F0>..<reserved-E0FFF>
]

/-- the rows of the four Hangul fillers, which the property leaves visible -/
def fillerRows : List (Nat × Nat) := [(0x115F, 0x1160), (0x3164, 0x3164), (0xFFA0, 0xFFA0)]

/-- the set C13 talks about: DICP minus the fillers -/
def ranges : List (Nat × Nat) := dicpRows.filter fun r => !fillerRows.contains r

def isDI (c : Nat) : Bool := ranges.any fun r => r.1 ≤ c && c ≤ r.2

/-- number of code points of a list of disjoint ranges -/
def count (rs : List (Nat × Nat)) : Nat := rs.foldl (fun n r => n + (r.2 + 1 - r.1)) 0

/-- Unicode 16: "Total code points: 4174" -/
theorem dicp_count : count dicpRows = 4174 := by decide
theorem ranges_count : count ranges = 4170 := by decide

end RbModel.Spec.DI
