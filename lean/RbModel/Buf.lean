/-
  Model of `src/hb/buffer.rs` — the streaming in/out glyph buffer (`hb_buffer_t`) with its cluster and
  glyph-flag bookkeeping.  Operational: one definition per Rust function, same control flow, and the
  *representation* of the Rust code (two `Vec`s with slack beyond `len`, an out-buffer that aliases `info`
  until it has to be separated, `Vec::resize` semantics of `ensure`), because the latent defects of the
  real code live exactly there.  Rust panics (index out of bounds, failed `assert!`) are values.
  Imports only the generated constants (Gen/Buf.lean: which variant of three loops/guards the current
  source has, and the two PRODUCE_* buffer-flag values); the driver links this module into `rbmodel`.

  Scope notes
  * `pos` is modelled only in its role as the separate out-buffer (`out`); during substitution
    (`have_output`) positions are meaningless (`clear_output` resets `have_positions`).
  * usize subtraction such as `end - start` is modelled on `Nat` under the callers' precondition
    `start ≤ end` (the correspondence streams only generate such calls).
-/
import RbModel.Gen.Buf
import RbModel.Mem

namespace RbModel

namespace Flag
def UNSAFE_TO_BREAK : Nat := 1
def UNSAFE_TO_CONCAT : Nat := 2
def SAFE_TO_INSERT_TATWEEL : Nat := 4
def DEFINED : Nat := 7
end Flag

def SCRATCH_HAS_GLYPH_FLAGS : Nat := 0x20
def U32MAX : Nat := 4294967295

structure Buf where
  info : List Info := []        -- Vec `info` (its length is the Vec's len, ≥ `len`)
  out : List Info := []         -- Vec `pos` viewed as infos: the separate out-buffer
  idx : Nat := 0
  len : Nat := 0
  outLen : Nat := 0
  haveOutput : Bool := false
  sepOut : Bool := false        -- have_separate_output
  havePos : Bool := false
  successful : Bool := true
  level : Nat := 0              -- cluster level 0/1/2
  flags : Nat := 0              -- BufferFlags bits
  scratch : Nat := 0
  maxLen : Nat := 0x3FFFFFFF
  maxOps : Int := 0x1FFFFFFF
  serial : Nat := 0
  deriving DecidableEq, Repr

namespace Buf

def MAX_LEN_FACTOR : Nat := 64
def MAX_LEN_MIN : Nat := 16384
def MAX_LEN_DEFAULT : Nat := 0x3FFFFFFF
def MAX_OPS_FACTOR : Int := 1024
def MAX_OPS_MIN : Int := 16384
def MAX_OPS_DEFAULT : Int := 0x1FFFFFFF

/-! ### list helpers with Rust's panicking semantics -/

export Mem (get put)

/-- `Vec::resize(size, default)`: truncates or pads with zeros -/
def resize (l : List Info) (size : Nat) : List Info :=
  if size ≤ l.length then l.take size else l ++ List.replicate (size - l.length) ({} : Info)

/-- src: buffer.rs::out_info — the array the out-buffer lives in -/
def outArr (b : Buf) : List Info := if b.sepOut then b.out else b.info

def setOutArr (b : Buf) (l : List Info) : Buf :=
  if b.sepOut then { b with out := l } else { b with info := l }

/-- src: buffer.rs::set_out_info -/
def setOut (b : Buf) (i : Nat) (x : Info) : M Buf := do
  let l ← put b.outArr i x
  pure (b.setOutArr l)

/-- src: buffer.rs::set_cluster -/
def setCluster (x : Info) (cluster mask : Nat) : Info :=
  let m := if x.cluster != cluster then (x.mask &&& (U32MAX - Flag.DEFINED)) ||| (mask &&& Flag.DEFINED) else x.mask
  { x with mask := m, cluster := cluster }

/-- src: buffer.rs::ensure -/
def ensure (b : Buf) (size : Nat) : Buf × Bool :=
  if size < b.len then (b, true)
  else if size > b.maxLen then ({ b with successful := false }, false)
  else if Gen.Buf.ensureGrowOnly then
    ({ b with info := if size > b.info.length then resize b.info size else b.info,
              out := if size > b.out.length then resize b.out size else b.out }, true)
  else ({ b with info := resize b.info size, out := resize b.out size }, true)

/-- src: buffer.rs::make_room_for -/
def makeRoomFor (b : Buf) (numIn numOut : Nat) : M (Buf × Bool) := do
  let (b, ok) := b.ensure (b.outLen + numOut)
  if !ok then return (b, false)
  if !b.sepOut && b.outLen + numOut > b.idx + numIn then
    if !b.haveOutput then throw .assert
    -- `for i in 0..out_len { set_out_info(i, info[i]) }` with the out-buffer now living in `pos`
    let out ← Mem.copyAcross b.info b.out 0 0 b.outLen 0
    return ({ b with sepOut := true, out := out }, true)
  return (b, true)

def zeroRange (info : List Info) : Nat → Nat → M (List Info)
  | _, 0 => pure info
  | i, k + 1 => do
      let info ← put info i ({} : Info)
      zeroRange info (i + 1) k

/-- src: buffer.rs::shift_forward -/
def shiftForward (b : Buf) (count : Nat) : M (Buf × Bool) := do
  if !b.haveOutput then throw .assert
  let (b, ok) := b.ensure (b.len + count)
  if !ok then return (b, false)
  -- `for i in (0..len-idx).rev() { info[idx+count+i] = info[idx+i] }`
  let info ← Mem.copyWithinBwd b.info b.idx (b.idx + count) (b.len - b.idx)
  let info ← if b.idx + count > b.len then
      -- `&mut self.info[self.len..self.idx + count]`
      if b.idx + count > info.length then throw .oob else zeroRange info b.len (b.idx + count - b.len)
    else pure info
  pure ({ b with info := info, len := b.len + count, idx := b.idx + count }, true)

/-- `for j in 0..n { set_out_info(out_len + j, info[idx + j]) }` (move_to forward, next_glyphs).
    In non-separate mode this is an ascending copy inside `info` (destination below the source). -/
def copyToOut (b : Buf) (n : Nat) : M Buf := do
  if b.sepOut then
    let out ← Mem.copyAcross b.info b.out b.idx b.outLen n 0
    pure { b with out := out }
  else
    let info ← Mem.copyWithinFwd b.info b.idx b.outLen n 0
    pure { b with info := info }

/-- the rewind loop of move_to, `info[idx + j] = out_info()[out_len + j]`, in the order the source runs it
    (`Gen.Buf.moveToRewindReversed`: j descending = memmove-safe; ascending overlaps destructively in
    non-separate mode). Between different Vecs the order is immaterial. -/
def copyFromOut (b : Buf) (n : Nat) : M Buf := do
  if b.sepOut then
    let info ← Mem.copyAcross b.out b.info b.outLen b.idx n 0
    pure { b with info := info }
  else
    let info ← if Gen.Buf.moveToRewindReversed then Mem.copyWithinBwd b.info b.outLen b.idx n
               else Mem.copyWithinFwd b.info b.outLen b.idx n 0
    pure { b with info := info }

/-- src: buffer.rs::move_to -/
def moveTo (b : Buf) (i : Nat) : M (Buf × Bool) := do
  if !b.haveOutput then
    if i > b.len then throw .assert
    return ({ b with idx := i }, true)
  if !b.successful then return (b, false)
  if i > b.outLen + (b.len - b.idx) then throw .assert
  if b.outLen < i then
    let count := i - b.outLen
    let (b, ok) ← b.makeRoomFor count count
    if !ok then return (b, false)
    let b ← copyToOut b count
    return ({ b with idx := b.idx + count, outLen := b.outLen + count }, true)
  else if b.outLen > i then
    let count := b.outLen - i
    let (b, ok) ← if b.idx < count then b.shiftForward (count - b.idx) else pure (b, true)
    if !ok then return (b, false)
    if b.idx < count then throw .assert
    let b := { b with idx := b.idx - count, outLen := b.outLen - count }
    let b ← copyFromOut b count
    return (b, true)
  else return (b, true)

/-- src: buffer.rs::next_glyph -/
def nextGlyph (b : Buf) : M Buf := do
  if b.haveOutput then
    if b.sepOut || b.outLen != b.idx then
      let (b, ok) ← b.makeRoomFor 1 1
      if !ok then return b
      let x ← get b.info b.idx
      let b ← b.setOut b.outLen x
      return { b with outLen := b.outLen + 1, idx := b.idx + 1 }
    return { b with outLen := b.outLen + 1, idx := b.idx + 1 }
  return { b with idx := b.idx + 1 }

/-- src: buffer.rs::next_glyphs -/
def nextGlyphs (b : Buf) (n : Nat) : M Buf := do
  if b.haveOutput then
    if b.sepOut || b.outLen != b.idx then
      let (b, ok) ← b.makeRoomFor n n
      if !ok then return b
      let b ← copyToOut b n
      return { b with outLen := b.outLen + n, idx := b.idx + n }
    return { b with outLen := b.outLen + n, idx := b.idx + n }
  return { b with idx := b.idx + n }

/-- src: buffer.rs::skip_glyph -/
def skipGlyph (b : Buf) : Buf := { b with idx := b.idx + 1 }

/-- src: buffer.rs::copy_glyph -/
def copyGlyph (b : Buf) : M Buf := do
  let (b, ok) ← b.makeRoomFor 0 1
  if !ok then return b
  let x ← get b.info b.idx
  let b ← b.setOut b.outLen x
  pure { b with outLen := b.outLen + 1 }

/-- src: buffer.rs::replace_glyph -/
def replaceGlyph (b : Buf) (g : Nat) : M Buf := do
  let b ← if b.sepOut || b.outLen != b.idx then do
      let (b, ok) ← b.makeRoomFor 1 1
      if !ok then return b
      let x ← get b.info b.idx
      b.setOut b.outLen x
    else pure b
  let x ← get b.outArr b.outLen
  let b ← b.setOut b.outLen { x with gid := g }
  pure { b with idx := b.idx + 1, outLen := b.outLen + 1 }

/-- src: buffer.rs::output_glyph -/
def outputGlyph (b : Buf) (g : Nat) : M Buf := do
  let (b, ok) ← b.makeRoomFor 0 1
  if !ok then return b
  if b.idx == b.len && b.outLen == 0 then return b
  let x ← if b.idx < b.len then get b.info b.idx
          else (if b.outLen = 0 then throw .oob else get b.outArr (b.outLen - 1))
  let b ← b.setOut b.outLen { x with gid := g }
  pure { b with outLen := b.outLen + 1 }

/-- src: buffer.rs::output_info -/
def outputInfo (b : Buf) (x : Info) : M Buf := do
  let (b, ok) ← b.makeRoomFor 0 1
  if !ok then return b
  let b ← b.setOut b.outLen x
  pure { b with outLen := b.outLen + 1 }

/-! ### glyph flags -/

def minClusterLoop (l : List Info) (cluster : Nat) : Nat → Nat → M Nat
  | _, 0 => pure cluster
  | i, k + 1 => do
      let x ← get l i
      minClusterLoop l (min cluster x.cluster) (i + 1) k

/-- src: buffer.rs::_infos_find_min_cluster -/
def findMinCluster (level : Nat) (l : List Info) (start stop : Nat) (cluster : Nat) : M Nat := do
  if start == stop then return cluster
  let cluster ← if level == 1 then
      -- `&info[start..end]` panics when start > end or end > len
      (if stop < start || stop > l.length then throw .oob else minClusterLoop l cluster start (stop - start))
    else pure cluster
  if stop = 0 then throw .oob
  let a ← get l start
  let z ← get l (stop - 1)
  pure (min cluster (min a.cluster z.cluster))

/-- all of [start,end): flag every glyph whose cluster differs from `cluster` -/
def flagAllNe (l : List Info) (cluster mask : Nat) : Nat → Nat → Bool → M (List Info × Bool)
  | _, 0, ch => pure (l, ch)
  | i, k + 1, ch => do
      let x ← get l i
      if x.cluster != cluster then
        flagAllNe (l.set i { x with mask := x.mask ||| mask }) cluster mask (i + 1) k true
      else flagAllNe l cluster mask (i + 1) k ch

/-- `while start < i && infos[i-1].cluster != cluster_first { … i -= 1 }` -/
def flagFromEnd (l : List Info) (cluster clusterFirst mask start : Nat) : Nat → Bool → M (List Info × Bool)
  | 0, ch => pure (l, ch)
  | i + 1, ch =>
      if start < i + 1 then do
        let x ← get l i
        if x.cluster != clusterFirst then
          if cluster != x.cluster then
            flagFromEnd (l.set i { x with mask := x.mask ||| mask }) cluster clusterFirst mask start i true
          else flagFromEnd l cluster clusterFirst mask start i ch
        else pure (l, ch)
      else pure (l, ch)

/-- `while i < end && infos[i].cluster != cluster_last { … i += 1 }` -/
def flagFromStart (l : List Info) (cluster clusterLast mask : Nat) : Nat → Nat → Bool → M (List Info × Bool)
  | _, 0, ch => pure (l, ch)
  | i, k + 1, ch => do
      let x ← get l i
      if x.cluster != clusterLast then
        if cluster != x.cluster then
          flagFromStart (l.set i { x with mask := x.mask ||| mask }) cluster clusterLast mask (i + 1) k true
        else flagFromStart l cluster clusterLast mask (i + 1) k ch
      else pure (l, ch)

/-- src: buffer.rs::_infos_set_glyph_flags (on one array) -/
def infosSetGlyphFlags (level : Nat) (l : List Info) (start stop cluster mask : Nat) : M (List Info × Bool) := do
  if start == stop then return (l, false)
  let a ← get l start
  if stop = 0 then throw .oob
  let z ← get l (stop - 1)
  if level == 2 || (cluster != a.cluster && cluster != z.cluster) then
    flagAllNe l cluster mask start (stop - start) false
  else if cluster == a.cluster then
    flagFromEnd l cluster a.cluster mask start stop false
  else
    flagFromStart l cluster z.cluster mask start (stop - start) false

def orMaskRange (l : List Info) (mask : Nat) : Nat → Nat → M (List Info)
  | _, 0 => pure l
  | i, k + 1 => do
      let x ← get l i
      orMaskRange (l.set i { x with mask := x.mask ||| mask }) mask (i + 1) k

def addScratch (b : Buf) (ch : Bool) : Buf :=
  if ch then { b with scratch := b.scratch ||| SCRATCH_HAS_GLYPH_FLAGS } else b

/-- src: buffer.rs::_set_glyph_flags  (`stop = none` means "to the end") -/
def setGlyphFlags (b : Buf) (mask : Nat) (start : Nat) (stop : Option Nat) (interior fromOut : Bool) : M Buf := do
  let stop := min (stop.getD b.len) b.len
  -- `end - start < 2` is a usize subtraction: it wraps (release build) when the clamped end is below start
  if interior && !fromOut && start ≤ stop && stop - start < 2 then return b
  let b := { b with scratch := b.scratch ||| SCRATCH_HAS_GLYPH_FLAGS }
  if !fromOut || !b.haveOutput then
    if !interior then
      let info ← orMaskRange b.info mask start (stop - start)
      return { b with info := info }
    else
      let cluster ← findMinCluster b.level b.info start stop U32MAX
      let (info, ch) ← infosSetGlyphFlags b.level b.info start stop cluster mask
      return addScratch { b with info := info } ch
  else
    if start > b.outLen then throw .assert
    if b.idx > stop then throw .assert
    if !interior then
      let o ← orMaskRange b.outArr mask start (b.outLen - start)
      let b := b.setOutArr o
      let info ← orMaskRange b.info mask b.idx (stop - b.idx)
      return { b with info := info }
    else
      let cluster ← findMinCluster b.level b.info b.idx stop U32MAX
      let cluster ← findMinCluster b.level b.outArr start b.outLen cluster
      let (o, ch1) ← infosSetGlyphFlags b.level b.outArr start b.outLen cluster mask
      let b := addScratch (b.setOutArr o) ch1
      let (info, ch2) ← infosSetGlyphFlags b.level b.info b.idx stop cluster mask
      return addScratch { b with info := info } ch2

/-- src: buffer.rs::unsafe_to_break -/
def unsafeToBreak (b : Buf) (start : Nat) (stop : Option Nat) : M Buf :=
  b.setGlyphFlags (Flag.UNSAFE_TO_BREAK ||| Flag.UNSAFE_TO_CONCAT) start stop true false

/-- src: buffer.rs::unsafe_to_break_from_outbuffer -/
def unsafeToBreakFromOut (b : Buf) (start : Nat) (stop : Option Nat) : M Buf :=
  b.setGlyphFlags (Flag.UNSAFE_TO_BREAK ||| Flag.UNSAFE_TO_CONCAT) start stop true true

/-- src: buffer.rs::unsafe_to_concat  (`produceConcat` = the generated value of PRODUCE_UNSAFE_TO_CONCAT) -/
def unsafeToConcat (b : Buf) (start : Nat) (stop : Option Nat) : M Buf :=
  if b.flags &&& Gen.Buf.produceUnsafeToConcat == 0 then pure b
  else b.setGlyphFlags Flag.UNSAFE_TO_CONCAT start stop false false

/-- src: buffer.rs::unsafe_to_concat_from_outbuffer -/
def unsafeToConcatFromOut (b : Buf) (start : Nat) (stop : Option Nat) : M Buf :=
  if b.flags &&& Gen.Buf.produceUnsafeToConcat == 0 then pure b
  else b.setGlyphFlags Flag.UNSAFE_TO_CONCAT start stop false true

/-- src: buffer.rs::safe_to_insert_tatweel -/
def safeToInsertTatweel (b : Buf) (start : Nat) (stop : Option Nat) : M Buf :=
  if b.flags &&& Gen.Buf.produceSafeToInsertTatweel == 0 then b.unsafeToBreak start stop
  else b.setGlyphFlags Flag.SAFE_TO_INSERT_TATWEEL start stop true false

/-! ### clusters -/

def minClusterFrom (l : List Info) (cluster : Nat) : Nat → Nat → M Nat := minClusterLoop l cluster

/-- `while end < len && info[end-1].cluster == info[end].cluster { end += 1 }` -/
def extendEnd (l : List Info) (len : Nat) : Nat → Nat → M Nat
  | e, 0 => pure e
  | e, fuel + 1 =>
      if e < len then do
        let a ← (if e = 0 then throw .oob else get l (e - 1))
        let c ← get l e
        if a.cluster == c.cluster then extendEnd l len (e + 1) fuel else pure e
      else pure e

/-- `while cond && info[start-1].cluster == info[start].cluster { start -= 1 }`;
    `lo` is the bound of the guard (`idx < start` in HarfBuzz; the Rust guard is a generated constant) -/
def extendStart (l : List Info) (lo : Nat) : Nat → M Nat
  | 0 => pure 0
  | s + 1 =>
      if lo < s + 1 then do
        let a ← get l s
        let c ← get l (s + 1)
        if a.cluster == c.cluster then extendStart l lo s else pure (s + 1)
      else pure (s + 1)

/-- `while i != 0 && out[i-1].cluster == c { set_cluster(out[i-1], cluster, mask); i -= 1 }` -/
def relabelOutBack (o : List Info) (c cluster mask : Nat) : Nat → M (List Info)
  | 0 => pure o
  | i + 1 => do
      let x ← get o i
      if x.cluster == c then relabelOutBack (o.set i (setCluster x cluster mask)) c cluster mask i
      else pure o

def setClusterRange (l : List Info) (cluster : Nat) : Nat → Nat → M (List Info)
  | _, 0 => pure l
  | i, k + 1 => do
      let x ← get l i
      setClusterRange (l.set i (setCluster x cluster 0)) cluster (i + 1) k

/-- src: buffer.rs::merge_clusters_impl.
    `extendStartGuard`: which guard the "extend start" loop uses in the source —
    `0` = `end < start` (never true), `1` = `self.idx < start` (HarfBuzz). Generated from the source. -/
def mergeClustersImpl (b : Buf) (start stop : Nat) : M Buf := do
  if b.level == 2 then return ← b.unsafeToBreak start (some stop)
  let a ← get b.info start
  let cluster ← minClusterLoop b.info a.cluster (start + 1) (stop - (start + 1))
  -- Extend end
  let z ← (if stop = 0 then throw .oob else get b.info (stop - 1))
  let stop ← if cluster != z.cluster then extendEnd b.info b.len stop (b.len - stop) else pure stop
  -- Extend start
  let a ← get b.info start
  let start ← if cluster != a.cluster then
      (if Gen.Buf.extendStartGuard == 1 then extendStart b.info b.idx start else pure start)
    else pure start
  -- If we hit the start of buffer, continue in out-buffer.
  let s ← get b.info start
  let b ← if b.idx == start && s.cluster != cluster then do
      let o ← relabelOutBack b.outArr s.cluster cluster 0 b.outLen
      pure (b.setOutArr o)
    else pure b
  let info ← setClusterRange b.info cluster start (stop - start)
  pure { b with info := info }

/-- src: buffer.rs::merge_clusters -/
def mergeClusters (b : Buf) (start stop : Nat) : M Buf :=
  if stop - start < 2 then pure b else mergeClustersImpl b start stop

/-- `while start != 0 && out[start-1].cluster == out[start].cluster { start -= 1 }` -/
def extendStartOut (o : List Info) : Nat → M Nat
  | 0 => pure 0
  | s + 1 => do
      let a ← get o s
      let c ← get o (s + 1)
      if a.cluster == c.cluster then extendStartOut o s else pure (s + 1)

/-- `while i < len && info[i].cluster == c { set_cluster(info[i], cluster, 0); i += 1 }` -/
def relabelInFwd (l : List Info) (len c cluster : Nat) : Nat → Nat → M (List Info)
  | _, 0 => pure l
  | i, fuel + 1 =>
      if i < len then do
        let x ← get l i
        if x.cluster == c then relabelInFwd (l.set i (setCluster x cluster 0)) len c cluster (i + 1) fuel
        else pure l
      else pure l

/-- src: buffer.rs::merge_out_clusters -/
def mergeOutClusters (b : Buf) (start stop : Nat) : M Buf := do
  if b.level == 2 then return b
  if stop - start < 2 then return b
  let a ← get b.outArr start
  let cluster ← minClusterLoop b.outArr a.cluster (start + 1) (stop - (start + 1))
  let start ← extendStartOut b.outArr start
  let stop ← extendEnd b.outArr b.outLen stop (b.outLen - stop)
  let b ← if stop == b.outLen then do
      let z ← (if stop = 0 then throw .oob else get b.outArr (stop - 1))
      let info ← relabelInFwd b.info b.len z.cluster cluster b.idx (b.len - b.idx)
      pure { b with info := info }
    else pure b
  let o ← setClusterRange b.outArr cluster start (stop - start)
  pure (b.setOutArr o)

/-- src: buffer.rs::delete_glyph -/
def deleteGlyph (b : Buf) : M Buf := do
  let cur ← get b.info b.idx
  let cluster := cur.cluster
  let nextSame ← if b.idx + 1 < b.len then do
      let n ← get b.info (b.idx + 1); pure (cluster == n.cluster) else pure false
  let prevSame ← if !nextSame && b.outLen != 0 then do
      let p ← get b.outArr (b.outLen - 1); pure (cluster == p.cluster) else pure false
  if nextSame || prevSame then return b.skipGlyph
  if b.outLen != 0 then
    let p ← get b.outArr (b.outLen - 1)
    let b ← if cluster < p.cluster then do
        let o ← relabelOutBack b.outArr p.cluster cluster cur.mask b.outLen
        pure (b.setOutArr o)
      else pure b
    return b.skipGlyph
  let b ← if b.idx + 1 < b.len then mergeClusters b b.idx (b.idx + 2) else pure b
  pure b.skipGlyph

/-- src: buffer.rs::replace_glyphs -/
def replaceGlyphs (b : Buf) (numIn : Nat) (glyphs : List Nat) : M Buf := do
  let numOut := glyphs.length
  let (b, ok) ← b.makeRoomFor numIn numOut
  if !ok then return b
  if b.idx + numIn > b.len then throw .assert
  let b ← mergeClusters b b.idx (b.idx + numIn)
  let orig ← get b.info b.idx
  let rec loop (b : Buf) (i : Nat) : List Nat → M Buf
    | [] => pure b
    | gl :: rest => do
        let b ← b.setOut (b.outLen + i) { orig with gid := gl }
        loop b (i + 1) rest
  let b ← loop b 0 glyphs
  pure { b with idx := b.idx + numIn, outLen := b.outLen + numOut }

/-- src: buffer.rs::clear_output -/
def clearOutput (b : Buf) : Buf :=
  { b with haveOutput := true, havePos := false, idx := 0, outLen := 0, sepOut := false }

/-- src: buffer.rs::sync -/
def sync (b : Buf) : M (Buf × Bool) := do
  if !b.haveOutput then throw .assert
  if b.idx > b.len then throw .assert
  if !b.successful then
    return ({ b with haveOutput := false, outLen := 0, idx := 0 }, false)
  let b ← b.nextGlyphs (b.len - b.idx)
  let b := if b.sepOut then { b with info := b.out, out := b.info, sepOut := false } else b
  pure ({ b with len := b.outLen, haveOutput := false, outLen := 0, idx := 0 }, true)

/-! ### in-place rearrangements -/

def revSlice (l : List Info) (start stop : Nat) : M (List Info) :=
  if start > stop || stop > l.length then throw .oob
  else pure (l.take start ++ ((l.drop start).take (stop - start)).reverse ++ l.drop stop)

/-- src: buffer.rs::reverse_range  (positions are outside this model: `havePos` must be false) -/
def reverseRange (b : Buf) (start stop : Nat) : M Buf := do
  if stop - start < 2 then return b
  let info ← revSlice b.info start stop
  pure { b with info := info }

/-- src: buffer.rs::reverse -/
def reverse (b : Buf) : M Buf := if b.len == 0 then pure b else b.reverseRange 0 b.len

/-- src: buffer.rs::reverse_groups with the cluster group function (`_cluster_group_func`) -/
def reverseGroups (b : Buf) (merge : Bool) : M Buf := do
  if b.len == 0 then return b
  let rec loop (b : Buf) (start i : Nat) : Nat → M (Buf × Nat × Nat)
    | 0 => pure (b, start, i)
    | fuel + 1 =>
        if i < b.len then do
          let p ← get b.info (i - 1)
          let c ← get b.info i
          if p.cluster != c.cluster then
            let b ← if merge then mergeClusters b start i else pure b
            let b ← b.reverseRange start i
            loop b i (i + 1) fuel
          else loop b start (i + 1) fuel
        else pure (b, start, i)
  let (b, start, i) ← loop b 0 1 b.len
  let b ← if merge then mergeClusters b start i else pure b
  let b ← b.reverseRange start i
  b.reverse

/-- src: buffer.rs::sort with `cmp(a, b) = a.var1 > b.var1` (the shape of every caller: a combining-class
    comparison).  Stable insertion sort that merges clusters over every move. -/
def sort (b : Buf) (start stop : Nat) : M Buf := do
  if b.havePos then throw .assert
  let rec findJ (l : List Info) (xi : Info) (start : Nat) : Nat → M Nat
    | 0 => pure 0
    | j + 1 =>
        if j + 1 > start then do
          let p ← get l j
          if p.var1 > xi.var1 then findJ l xi start j else pure (j + 1)
        else pure (j + 1)
  let rec shift (l : List Info) (j : Nat) : Nat → M (List Info)
    | 0 => pure l
    | k + 1 => do
        let x ← get l (k + j)
        let l ← put l (k + j + 1) x
        shift l j k
  let rec outer (b : Buf) (i : Nat) : Nat → M Buf
    | 0 => pure b
    | fuel + 1 =>
        if i < stop then do
          let xi ← get b.info i
          let j ← findJ b.info xi start i
          if i == j then outer b (i + 1) fuel
          else
            let b ← mergeClusters b j (i + 1)
            let t ← get b.info i
            let info ← shift b.info j (i - j)
            let info ← put info j t
            outer { b with info := info } (i + 1) fuel
        else pure b
  outer b (start + 1) (stop - start)

/-- src: buffer.rs::delete_glyphs_inplace with `filter(info) = info.var2 == 1` -/
def deleteGlyphsInplace (b : Buf) : M Buf := do
  let rec loop (b : Buf) (i j : Nat) : Nat → M (Buf × Nat)
    | 0 => pure (b, j)
    | fuel + 1 =>
        if i < b.len then do
          let x ← get b.info i
          if x.var2 == 1 then
            let cluster := x.cluster
            let nextSame ← if i + 1 < b.len then do
                let n ← get b.info (i + 1); pure (cluster == n.cluster) else pure false
            if nextSame then loop b (i + 1) j fuel
            else if j != 0 then
              let p ← get b.info (j - 1)
              let b ← if cluster < p.cluster then do
                  let info ← relabelOutBack b.info p.cluster cluster x.mask j
                  pure { b with info := info }
                else pure b
              loop b (i + 1) j fuel
            else
              let b ← if i + 1 < b.len then mergeClusters b i (i + 2) else pure b
              loop b (i + 1) j fuel
          else
            let b ← if j != i then do
                let info ← put b.info j x
                -- `self.pos[j] = self.pos[i]` (the `pos` Vec is `out` in this model)
                let p ← get b.out i
                let out ← put b.out j p
                pure { b with info := info, out := out }
              else pure b
            loop b (i + 1) (j + 1) fuel
        else pure (b, j)
  let (b, j) ← loop b 0 0 b.len
  pure { b with len := j }

/-! ### masks -/

/-- src: buffer.rs::reset_masks -/
def resetMasks (b : Buf) (mask : Nat) : M Buf := do
  if b.len > b.info.length then throw .oob
  pure { b with info := (b.info.take b.len).map (fun x => { x with mask := mask }) ++ b.info.drop b.len }

/-- src: buffer.rs::set_masks -/
def setMasks (b : Buf) (value mask cstart cend : Nat) : M Buf := do
  if mask == 0 then return b
  if b.len > b.info.length then throw .oob
  let notMask := U32MAX - mask
  let value := value &&& mask
  let f (x : Info) : Info :=
    if (cstart == 0 && cend == U32MAX) || (cstart ≤ x.cluster && x.cluster < cend) then
      { x with mask := (x.mask &&& notMask) ||| value } else x
  pure { b with info := (b.info.take b.len).map f ++ b.info.drop b.len }

/-! ### life cycle -/

/-- src: buffer.rs::add -/
def add (b : Buf) (cp cluster : Nat) : M Buf := do
  let (b, ok) := b.ensure (b.len + 1)
  if !ok then return b
  let info ← put b.info b.len { gid := cp, mask := 0, cluster := cluster }
  pure { b with info := info, len := b.len + 1 }

/-- src: buffer.rs::enter -/
def enter (b : Buf) : Buf :=
  let b := { b with serial := 0, scratch := 0 }
  -- checked_mul never overflows for lengths < 2^58; i32::try_from(len) and checked_mul(1024) need len < 2^21
  let b := { b with maxLen := max (b.len * MAX_LEN_FACTOR) MAX_LEN_MIN }
  if b.len < 2097152 then { b with maxOps := max ((b.len : Int) * MAX_OPS_FACTOR) MAX_OPS_MIN } else b

/-- src: buffer.rs::leave -/
def leave (b : Buf) : Buf :=
  { b with maxLen := MAX_LEN_DEFAULT, maxOps := MAX_OPS_DEFAULT, serial := 0 }

/-- src: buffer.rs::clear (fields of this model only) -/
def clear (b : Buf) : Buf :=
  { b with successful := true, haveOutput := false, havePos := false, idx := 0, info := [], out := [],
           len := 0, outLen := 0, sepOut := false, serial := 0, scratch := 0, level := 0 }

end Buf
end RbModel
