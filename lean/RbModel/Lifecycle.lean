/-
  Model of the buffer life cycle seen through the PUBLIC api: `UnicodeBuffer::{new, add, push_str, set_*,
  guess_segment_properties, reset_clusters, clear}`, `GlyphBuffer::clear`, `shape`, `shape_with_plan`
  (src/hb/shape.rs, src/hb/buffer.rs) and `shape_internal`'s enter/leave bracket (src/hb/ot_shape.rs).

  What the shaping pipeline computes between `enter()` and `leave()` is a PARAMETER (`body : UBuf → UBuf`):
  every theorem about the life cycle holds for every body, i.e. for whatever the pipeline does to any field
  (including runs that hit the length / operation limits or leave the buffer unsuccessful).
  Unicode data (`char::script()`, `Direction::from_script`) are parameters too (`UData`); the driver gets the
  values of the characters of a case from the crate.

  Generated knob (Gen/Lifecycle.lean, recovered behaviourally through the public api on every run):
  `leaveAtEnd` — does `shape_with_plan` call `leave()` before it returns (so that an EMPTY buffer, which never
  reaches `shape_internal`, gets its limits reset too)?

  Second part: the in/out primitives as a datatype (`Prim`) with their callers' contracts, for the C01
  statements about arbitrary sequences of primitives.
-/
import RbModel.Buf
import RbModel.Gen.Lifecycle

namespace RbModel
namespace Life

/-! ### direction codes (`Direction`) -/
def DIR_INVALID : Nat := 0
def DIR_LTR : Nat := 1
def DIR_RTL : Nat := 2
def DIR_TTB : Nat := 3
def DIR_BTT : Nat := 4

def CONTEXT_LENGTH : Nat := 5

/-- `hb_buffer_t` as the public api sees it: the primitive-level buffer plus the segment properties, the
    context and the two remaining fields that survive a call. (`invisible` has no setter and no writer in the
    crate — site inventory — and is left out.) -/
structure UBuf where
  b : Buf := {}
  dir : Nat := 0                      -- Direction, 0 = Invalid
  script : Option Nat := none         -- Option<Script> (tag as u32)
  lang : Option (List Nat) := none    -- Option<Language> (bytes)
  pre : List Nat := []                -- context[0][..context_len[0]] (ordered outward)
  post : List Nat := []               -- context[1][..context_len[1]]
  shapingFailed : Bool := false
  nfvs : Option Nat := none           -- not_found_variation_selector
  deriving DecidableEq, Repr

/-- Unicode data the life cycle reads. -/
structure UData where
  /-- `char::script()`; `none` for Common / Inherited / Unknown -/
  scriptOf : Nat → Option Nat
  /-- `Direction::from_script(s).unwrap_or_default()`: 0 (no horizontal direction), 1 or 2 -/
  dirOf : Nat → Nat

/-- src: buffer.rs::hb_buffer_t::new -/
def new : UBuf := {}

/-- src: buffer.rs::UnicodeBuffer::add — `hb_buffer_t::add` and `context_len[1] = 0` -/
def add (u : UBuf) (cp cluster : Nat) : M UBuf := do
  let b ← u.b.add cp cluster
  pure { u with b := b, post := [] }

def utf8Len (c : Nat) : Nat := if c < 0x80 then 1 else if c < 0x800 then 2 else if c < 0x10000 then 3 else 4

/-- `for (i, c) in text.char_indices() { self.add(c, i) }` -/
def pushLoop (b : Buf) : List Nat → Nat → M Buf
  | [], _ => pure b
  | c :: rest, off => do
      let b ← b.add c off
      pushLoop b rest (off + utf8Len c)

/-- src: buffer.rs::hb_buffer_t::push_str -/
def pushStr (u : UBuf) (cps : List Nat) : M UBuf := do
  let (b, ok) := u.b.ensure (u.b.len + cps.length)
  if !ok then return { u with b := b }
  let b ← pushLoop b cps 0
  pure { u with b := b }

def setDirection (u : UBuf) (d : Nat) : UBuf := { u with dir := d }
def setScript (u : UBuf) (s : Nat) : UBuf := { u with script := some s }
def setLanguage (u : UBuf) (l : List Nat) : UBuf := { u with lang := some l }
def setFlags (u : UBuf) (f : Nat) : UBuf := { u with b := { u.b with flags := f } }
def setClusterLevel (u : UBuf) (l : Nat) : UBuf := { u with b := { u.b with level := l } }
def setNfvs (u : UBuf) (g : Nat) : UBuf := { u with nfvs := some g }
/-- src: buffer.rs::set_pre_context — the last CONTEXT_LENGTH characters, nearest first -/
def setPreContext (u : UBuf) (cps : List Nat) : UBuf := { u with pre := cps.reverse.take CONTEXT_LENGTH }
/-- src: buffer.rs::set_post_context -/
def setPostContext (u : UBuf) (cps : List Nat) : UBuf := { u with post := cps.take CONTEXT_LENGTH }

def resetLoop : List Info → Nat → List Info
  | [], _ => []
  | x :: rest, i => { x with cluster := i } :: resetLoop rest (i + 1)

/-- src: buffer.rs::reset_clusters (runs over the whole Vec) -/
def resetClusters (u : UBuf) : UBuf := { u with b := { u.b with info := resetLoop u.b.info 0 } }

/-- src: buffer.rs::hb_buffer_t::clear — `flags`, `max_len`, `max_ops`, `shaping_failed` are NOT touched -/
def clear (u : UBuf) : UBuf :=
  { u with b := u.b.clear, dir := DIR_INVALID, script := none, lang := none, pre := [], post := [], nfvs := none }

/-- the first character of the Vec with a strong script -/
def firstScript (ud : UData) : List Info → Option Nat
  | [] => none
  | x :: rest => match ud.scriptOf x.gid with
      | some s => some s
      | none => firstScript ud rest

/-- `if self.script.is_none() { first strong script of the Vec }` -/
def guessScript (ud : UData) (u : UBuf) : Option Nat :=
  match u.script with
  | some s => some s
  | none => firstScript ud u.b.info

/-- `if self.direction == Invalid { from_script(script).unwrap_or_default(); if still Invalid { LTR } }` -/
def guessDir (ud : UData) (script : Option Nat) (dir : Nat) : Nat :=
  if dir == DIR_INVALID then
    let d := match script with
      | some s => ud.dirOf s
      | none => DIR_INVALID
    if d == DIR_INVALID then DIR_LTR else d
  else dir

/-- src: buffer.rs::guess_segment_properties -/
def guess (ud : UData) (u : UBuf) : UBuf :=
  let script := guessScript ud u
  { u with script := script, dir := guessDir ud script u.dir }

/-- src: buffer.rs::enter (also resets `shaping_failed`) -/
def enter (u : UBuf) : UBuf := { u with b := u.b.enter, shapingFailed := false }

/-- src: buffer.rs::leave -/
def leave (u : UBuf) : UBuf := { u with b := u.b.leave }

/-- src: ot_shape.rs::shape_internal — `enter(); <pipeline>; direction = target_direction; leave()` -/
def shapeInternal (body : UBuf → UBuf) (target : Nat) (u : UBuf) : UBuf :=
  let u := enter u
  let u := body u
  leave { u with dir := target }

/-- src: shape.rs::shape_with_plan.  `leaveAtEnd`: generated from the crate's behaviour. -/
def shapeWithPlan (ud : UData) (body : UBuf → UBuf) (u : UBuf) : UBuf :=
  let u := guess ud u
  let u := enter u
  let u := if u.b.len > 0 then shapeInternal body u.dir u else u
  if Gen.Lifecycle.leaveAtEnd then leave u else u

/-- src: shape.rs::shape — the plan is built from the guessed properties; `exec face plan` is the pipeline -/
def shape {Plan Feats : Type} (ud : UData) (mkPlan : Nat → Option Nat → Option (List Nat) → Feats → Plan)
    (exec : Plan → UBuf → UBuf) (feats : Feats) (u : UBuf) : UBuf :=
  let u := guess ud u
  let plan := mkPlan u.dir u.script u.lang feats
  shapeWithPlan ud (exec plan) u

/-- Everything shaping can read of a buffer except the two fields `clear()` is not meant to reset:
    `flags` (a caller-owned input, like HarfBuzz's clear_contents) and `shaping_failed` (overwritten by
    `enter()` before anything reads it). -/
def observe (u : UBuf) : UBuf := { u with b := { u.b with flags := 0 }, shapingFailed := false }

/-! ### the full field list of `hb_buffer_t`

  One constructor per field of the Rust struct, in the order of the struct definition (buffer.rs).  `Field.name` is the
  Rust identifier; the list of names is compared on every run with the field list parsed from the struct definition
  (`Gen.Lifecycle.bufferFields`, theorem `C05_gen_buffer_fields`), so a field added to the struct leaves an obligation
  open until it is modelled here, read by `read`, and classified by `keptByClear`. -/

inductive Field where
  | flags | cluster_level | invisible | not_found_variation_selector
  | direction | script | language
  | shaping_failed | successful | have_output | have_separate_output | have_positions
  | idx | len | out_len | info | pos | context | context_len
  | serial | scratch_flags | max_len | max_ops
  deriving DecidableEq, Repr

def Field.all : List Field :=
  [.flags, .cluster_level, .invisible, .not_found_variation_selector, .direction, .script, .language,
   .shaping_failed, .successful, .have_output, .have_separate_output, .have_positions,
   .idx, .len, .out_len, .info, .pos, .context, .context_len, .serial, .scratch_flags, .max_len, .max_ops]

def Field.name : Field → String
  | .flags => "flags" | .cluster_level => "cluster_level" | .invisible => "invisible"
  | .not_found_variation_selector => "not_found_variation_selector"
  | .direction => "direction" | .script => "script" | .language => "language"
  | .shaping_failed => "shaping_failed" | .successful => "successful" | .have_output => "have_output"
  | .have_separate_output => "have_separate_output" | .have_positions => "have_positions"
  | .idx => "idx" | .len => "len" | .out_len => "out_len" | .info => "info" | .pos => "pos"
  | .context => "context" | .context_len => "context_len"
  | .serial => "serial" | .scratch_flags => "scratch_flags" | .max_len => "max_len" | .max_ops => "max_ops"

/-- the value of a field, as the model holds it -/
inductive FVal where
  | nat (n : Nat)
  | int (i : Int)
  | bool (b : Bool)
  | onat (o : Option Nat)
  | bytes (o : Option (List Nat))
  | infos (l : List Info)
  /-- `context`: the characters of both sides up to their lengths -/
  | ctx (pre post : List Nat)
  /-- `context_len` -/
  | lens (pre post : Nat)
  /-- `invisible`: no setter in the public api and no writer in the crate (`Gen.Lifecycle.invisibleWriters = 0`,
      counted in the sources on every run); the model does not carry it -/
  | unwritten
  deriving DecidableEq, Repr

/-- every field of `hb_buffer_t`, read off the model state -/
def read (u : UBuf) : Field → FVal
  | .flags => .nat u.b.flags
  | .cluster_level => .nat u.b.level
  | .invisible => .unwritten
  | .not_found_variation_selector => .onat u.nfvs
  | .direction => .nat u.dir
  | .script => .onat u.script
  | .language => .bytes u.lang
  | .shaping_failed => .bool u.shapingFailed
  | .successful => .bool u.b.successful
  | .have_output => .bool u.b.haveOutput
  | .have_separate_output => .bool u.b.sepOut
  | .have_positions => .bool u.b.havePos
  | .idx => .nat u.b.idx
  | .len => .nat u.b.len
  | .out_len => .nat u.b.outLen
  | .info => .infos u.b.info
  | .pos => .infos u.b.out
  | .context => .ctx u.pre u.post
  | .context_len => .lens u.pre.length u.post.length
  | .serial => .nat u.b.serial
  | .scratch_flags => .nat u.b.scratch
  | .max_len => .nat u.b.maxLen
  | .max_ops => .int u.b.maxOps

/-- the fields `hb_buffer_t::clear` leaves alone: `flags` (caller-owned input), `invisible` (never written),
    `shaping_failed` (overwritten by `enter()`), `max_len` / `max_ops` (restored by `leave()` on every way out of
    `shape_with_plan`).  Compared on every run with what the compiled `clear()` does to a buffer whose every field was
    made different from a fresh one (`Gen.Lifecycle.clearKeeps`, theorem `C05_gen_clear_keeps`). -/
def Field.keptByClear : Field → Bool
  | .flags | .invisible | .shaping_failed | .max_len | .max_ops => true
  | _ => false

/-! ### a shaping request (what harness `fill` does to a buffer) and histories -/

structure Req where
  text : List (Nat × Nat) := []
  pre : List Nat := []
  post : List Nat := []
  dir : Option Nat := none
  script : Option Nat := none
  lang : Option (List Nat) := none
  flags : Nat := 0
  level : Nat := 0
  nfvs : Option Nat := none

def addAll (u : UBuf) : List (Nat × Nat) → M UBuf
  | [] => pure u
  | (c, cl) :: rest => do
      let u ← add u c cl
      addAll u rest

/-- harness/src/ops/shape.rs::fill -/
def applyReq (r : Req) (u : UBuf) : M UBuf := do
  let u ← addAll u r.text
  let u := if r.pre.isEmpty then u else setPreContext u r.pre
  let u := if r.post.isEmpty then u else setPostContext u r.post
  let u := match r.dir with | some d => setDirection u d | none => u
  let u := match r.script with | some s => setScript u s | none => u
  let u := match r.lang with | some l => setLanguage u l | none => u
  let u := setClusterLevel (setFlags u r.flags) r.level
  pure (match r.nfvs with | some g => setNfvs u g | none => u)

/-- States a public buffer can be in: any history of public calls, with any pipeline behaviour in the shapes. -/
inductive Reach (ud : UData) : UBuf → Prop
  | new : Reach ud new
  | add {u u'} (c cl : Nat) : Reach ud u → add u c cl = .ok u' → Reach ud u'
  | push {u u'} (cps : List Nat) : Reach ud u → pushStr u cps = .ok u' → Reach ud u'
  | setDirection {u} (d : Nat) : Reach ud u → Reach ud (setDirection u d)
  | setScript {u} (s : Nat) : Reach ud u → Reach ud (setScript u s)
  | setLanguage {u} (l : List Nat) : Reach ud u → Reach ud (setLanguage u l)
  | setFlags {u} (f : Nat) : Reach ud u → Reach ud (setFlags u f)
  | setClusterLevel {u} (l : Nat) : Reach ud u → Reach ud (setClusterLevel u l)
  | setNfvs {u} (g : Nat) : Reach ud u → Reach ud (setNfvs u g)
  | setPre {u} (cps : List Nat) : Reach ud u → Reach ud (setPreContext u cps)
  | setPost {u} (cps : List Nat) : Reach ud u → Reach ud (setPostContext u cps)
  | guess {u} : Reach ud u → Reach ud (guess ud u)
  | resetClusters {u} : Reach ud u → Reach ud (resetClusters u)
  | clear {u} : Reach ud u → Reach ud (clear u)
  | shape {u} (body : UBuf → UBuf) : Reach ud u → Reach ud (shapeWithPlan ud body u)

/-! ### the PRNG of the `rand` feature -/

/-- src: ot_layout_gsubgpos.rs::hb_ot_apply_context_t::random_number (u32 wrapping multiply) -/
def randomNext (s : Nat) : Nat := (s * 48271 % 4294967296) % 2147483647

/-- src: ot_layout_gsubgpos.rs::hb_ot_apply_context_t::new — `random_state` of a fresh context (generated) -/
def randomInit : Nat := Gen.Lifecycle.randomSeed

/-- src: ot_layout_gsubgpos.rs::hb_ot_apply_context_t::new called by apply_layout_table on the buffer of a later shaping call:
    the state an apply context starts from when its buffer has shaped before and was recycled with `clear()` (generated: two
    earlier shape() calls that drew 9 alternates through `rand`).  `earlier = 0`: the buffer is fresh. -/
def applyCtxRandomInit (earlierShapes : Nat) : Nat :=
  if earlierShapes = 0 then randomInit else Gen.Lifecycle.randomSeedRecycled

/-- initial state followed by the first `n` random numbers of one table application -/
def randomSeq : Nat → Nat → List Nat
  | s, 0 => [s]
  | s, n + 1 => s :: randomSeq (randomNext s) n

end Life

/-! ## in/out primitives as data (C01) -/

namespace Buf

inductive Prim where
  -- the list-zipper primitives of an output pass
  | clearOutput
  | next
  | nexts (n : Nat)
  | skip
  | copy
  | replace (g : Nat)
  | outputGlyph (g : Nat)
  | outputInfo (x : Info)
  | moveTo (i : Nat)
  | sync
  -- substitution with cluster merging
  | replaceGlyphs (numIn : Nat) (glyphs : List Nat)
  | deleteGlyph
  -- clusters, glyph flags, masks, reversal: contents only
  | mergeClusters (s e : Nat)
  | mergeOutClusters (s e : Nat)
  | unsafeToBreak (s : Nat) (e : Option Nat)
  | unsafeToBreakFromOut (s : Nat) (e : Option Nat)
  | unsafeToConcat (s : Nat) (e : Option Nat)
  | unsafeToConcatFromOut (s : Nat) (e : Option Nat)
  | safeToInsertTatweel (s : Nat) (e : Option Nat)
  | setMasks (value mask cstart cend : Nat)
  | resetMasks (mask : Nat)
  | reverseRange (s e : Nat)
  | reverse
  deriving Repr

/-- the ten primitives that move glyphs across the cursor (the ones `Lemmas/BufZipper.lean` has specifications for) -/
def Prim.zipper : Prim → Bool
  | .clearOutput | .next | .nexts _ | .skip | .copy | .replace _ | .outputGlyph _ | .outputInfo _ | .moveTo _ | .sync => true
  | _ => false

/-- one primitive (boolean results dropped: failure is recorded in `successful`) -/
def Prim.run (b : Buf) : Prim → M Buf
  | .clearOutput => pure b.clearOutput
  | .next => b.nextGlyph
  | .nexts n => b.nextGlyphs n
  | .skip => pure b.skipGlyph
  | .copy => b.copyGlyph
  | .replace g => b.replaceGlyph g
  | .outputGlyph g => b.outputGlyph g
  | .outputInfo x => b.outputInfo x
  | .moveTo i => do let (b, _) ← b.moveTo i; pure b
  | .sync => do let (b, _) ← b.sync; pure b
  | .replaceGlyphs numIn gs => b.replaceGlyphs numIn gs
  | .deleteGlyph => b.deleteGlyph
  | .mergeClusters s e => b.mergeClusters s e
  | .mergeOutClusters s e => b.mergeOutClusters s e
  | .unsafeToBreak s e => b.unsafeToBreak s e
  | .unsafeToBreakFromOut s e => b.unsafeToBreakFromOut s e
  | .unsafeToConcat s e => b.unsafeToConcat s e
  | .unsafeToConcatFromOut s e => b.unsafeToConcatFromOut s e
  | .safeToInsertTatweel s e => b.safeToInsertTatweel s e
  | .setMasks v m s e => b.setMasks v m s e
  | .resetMasks m => b.resetMasks m
  | .reverseRange s e => b.reverseRange s e
  | .reverse => b.reverse

/-- the callers' contract of each primitive (there is a current glyph / the target exists / an output pass
    is open); nothing about budgets or buffer sizes -/
def Prim.pre (b : Buf) : Prim → Prop
  | .clearOutput => True
  | .next => b.idx < b.len
  | .nexts n => b.idx + n ≤ b.len
  | .skip => b.idx < b.len
  | .copy => b.idx < b.len ∧ b.haveOutput = true
  | .replace _ => b.idx < b.len ∧ b.haveOutput = true
  | .outputGlyph _ => b.haveOutput = true
  | .outputInfo _ => b.haveOutput = true
  | .moveTo i => if b.haveOutput then i ≤ b.outLen + (b.len - b.idx) else i ≤ b.len
  | .sync => b.haveOutput = true
  | .deleteGlyph => b.idx < b.len
  | _ => True

instance (b : Buf) (p : Prim) : Decidable (Prim.pre b p) := by
  cases p <;> simp only [Prim.pre] <;> infer_instance

/-- `b —ps→ b'`: the primitives `ps` run one after the other without panic, each called within its contract -/
inductive Steps : Buf → List Prim → Buf → Prop
  | nil (b) : Steps b [] b
  | cons {b b1 b' p ps} : Prim.pre b p → Prim.run b p = .ok b1 → Steps b1 ps b' → Steps b (p :: ps) b'

end Buf
end RbModel
