/-
  Glyph flags beyond buffer.rs: the final `propagate_flags` pass of `ot_shape.rs` (per-cluster union of the
  flag bits, reconciliation of SAFE_TO_INSERT_TATWEEL with UNSAFE_TO_BREAK, stripping of UNSAFE_TO_CONCAT when it
  was not requested, write-back), and what the public API exposes of a glyph's mask.
  The flag *setters* (`_set_glyph_flags`, `_infos_find_min_cluster`, `_infos_set_glyph_flags`, `unsafe_to_break*`,
  `unsafe_to_concat*`, `safe_to_insert_tatweel`, `set_cluster`) are in Buf.lean.

  Operational, same control flow as the Rust code, Rust panics are values.  Generated knobs: the two PRODUCE_*
  values (Gen/Buf.lean) and which variant of the write-back loop the current source has (Gen/Flags.lean,
  `propagateWriteBackGuarded`: `true` = the loop sits inside `if clear_concat`, defect D2 of DESIGN.md §4).
-/
import RbModel.Buf
import RbModel.Gen.Flags

namespace RbModel
namespace Flags

export Mem (get put)

/-- src: buffer.rs::serialize_glyphs (`info.mask & glyph_flag::DEFINED`), GlyphInfo::unsafe_to_break —
    the flag bits of a glyph that are visible through the public API -/
def exposed (x : Info) : Nat := x.mask &&& Flag.DEFINED

/-- src: lib.rs::BufferFlags::contains (bitflags: all bits of `x` are set in `flags`) -/
def contains (flags x : Nat) : Bool := (flags &&& x) == x

/-- `for info in &buffer.info[start..end] { mask |= info.mask & glyph_flag::DEFINED }` -/
def orFlags (l : List Info) (acc : Nat) : Nat → Nat → M Nat
  | _, 0 => pure acc
  | i, k + 1 => do
      let x ← get l i
      orFlags l (acc ||| (x.mask &&& Flag.DEFINED)) (i + 1) k

/-- src: ot_shape.rs::propagate_flags — what happens to the union `mask` of one cluster:
    `if flip_tatweel { if mask & BREAK != 0 { mask &= !TATWEEL }  if mask & TATWEEL != 0 { mask |= BREAK | CONCAT } }`
    `if clear_concat { mask &= !CONCAT … }` -/
def reconcile (flip clear : Bool) (mask : Nat) : Nat :=
  let mask :=
    if flip then
      let mask := if mask &&& Flag.UNSAFE_TO_BREAK != 0 then mask &&& (U32MAX - Flag.SAFE_TO_INSERT_TATWEEL) else mask
      if mask &&& Flag.SAFE_TO_INSERT_TATWEEL != 0 then mask ||| (Flag.UNSAFE_TO_BREAK ||| Flag.UNSAFE_TO_CONCAT) else mask
    else mask
  if clear then mask &&& (U32MAX - Flag.UNSAFE_TO_CONCAT) else mask

/-- `for info in &mut buffer.info[start..end] { info.mask = mask }` (the whole mask is replaced) -/
def writeMask (l : List Info) (mask : Nat) : Nat → Nat → M (List Info)
  | _, 0 => pure l
  | i, k + 1 => do
      let x ← get l i
      writeMask (l.set i { x with mask := mask }) mask (i + 1) k

/-- src: buffer.rs::group_end with `_cluster_group_func`:
    `start += 1; while start < len && info[start-1].cluster == info[start].cluster { start += 1 }` -/
def groupEnd (l : List Info) (len start : Nat) : M Nat :=
  Buf.extendEnd l len (start + 1) (len - start)

/-- src: buffer.rs::foreach_cluster! with the body of propagate_flags:
    `while start < count { body; start = end; end = group_end(start) }` -/
def clusterLoop (len : Nat) (flip clear : Bool) (l : List Info) (start stop : Nat) : Nat → M (List Info)
  | 0 => pure l
  | fuel + 1 =>
      if start < len then do
        let mask ← orFlags l 0 start (stop - start)
        let mask := reconcile flip clear mask
        let l ← if clear || !Gen.Flags.propagateWriteBackGuarded then writeMask l mask start (stop - start)
                else pure l
        let stop' ← groupEnd l len stop
        clusterLoop len flip clear l stop stop' fuel
      else pure l

/-- src: ot_shape.rs::propagate_flags -/
def propagateFlags (b : Buf) : M Buf := do
  if b.scratch &&& SCRATCH_HAS_GLYPH_FLAGS == 0 then return b
  let flip := contains b.flags Gen.Buf.produceSafeToInsertTatweel
  let clear := !contains b.flags Gen.Buf.produceUnsafeToConcat
  let stop ← if b.len > 0 then groupEnd b.info b.len 0 else pure 0
  let info ← clusterLoop b.len flip clear b.info 0 stop b.len
  pure { b with info := info }

end Flags
end RbModel
