/-
  A tiny interleaving semantics for concurrent shaping (C05): N threads share read-only data `sh`
  (the `&Face` and `&ShapePlan` of `shape_with_plan`), each thread owns its buffer and works through its own
  list of requests; a schedule is the list of thread indices that take the next step.

  To make the frame premise visible the semantics also threads a global mutable state `g` through every call
  (what a `static mut`, a `Cell` inside the face/plan, a thread-local cache … would be).  The crate has none
  — that is the "no hidden shared state" premise, checked by the site inventory (inventory/sites.json) —
  and under that premise (`Frame exec`) every schedule gives every thread the results of running alone.
-/
namespace RbModel
namespace Sched

variable {Sh G B Rq Rs : Type}

structure Thread (B Rq Rs : Type) where
  buf : B
  todo : List Rq
  done : List Rs := []

/-- one call of the shaping entry point: may read `sh`, `g` and its own buffer -/
abbrev Exec (Sh G B Rq Rs : Type) := Sh → G → Rq → B → G × B × Rs

/-- the thread performs its next call (nothing happens when it has finished) -/
def stepThread (exec : Exec Sh G B Rq Rs) (sh : Sh) (g : G) (t : Thread B Rq Rs) : G × Thread B Rq Rs :=
  match t.todo with
  | [] => (g, t)
  | r :: rest =>
    let o := exec sh g r t.buf
    (o.1, { buf := o.2.1, todo := rest, done := t.done ++ [o.2.2] })

structure State (G B Rq Rs : Type) where
  g : G
  threads : List (Thread B Rq Rs)

/-- thread `i` takes one step -/
def step (exec : Exec Sh G B Rq Rs) (sh : Sh) (s : State G B Rq Rs) (i : Nat) : State G B Rq Rs :=
  match s.threads[i]? with
  | none => s
  | some t =>
    let o := stepThread exec sh s.g t
    { g := o.1, threads := s.threads.set i o.2 }

def run (exec : Exec Sh G B Rq Rs) (sh : Sh) (s : State G B Rq Rs) (sched : List Nat) : State G B Rq Rs :=
  sched.foldl (step exec sh) s

/-- the results of a request list processed alone, one request after the other on one buffer -/
def runAlone (exec : Exec Sh G B Rq Rs) (sh : Sh) (g : G) : B → List Rq → List Rs
  | _, [] => []
  | b, r :: rest =>
    let o := exec sh g r b
    o.2.2 :: runAlone exec sh g o.2.1 rest

/-- the frame premise: a call never writes shared state -/
def Frame (exec : Exec Sh G B Rq Rs) : Prop := ∀ sh g r b, (exec sh g r b).1 = g

/-- every thread gets enough turns to finish -/
def Complete (s : State G B Rq Rs) (sched : List Nat) : Prop :=
  ∀ i t, s.threads[i]? = some t → t.todo.length ≤ sched.count i

end Sched
end RbModel
