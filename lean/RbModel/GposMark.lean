/-
  Model of the GPOS attachment lookups as the driver runs them: WHICH glyph a glyph is attached to.
    src/hb/ot_layout.rs                       apply_layout_table, apply_string, apply_forward (GPOS: in place)
    src/hb/ot/layout/GPOS/pos_lookup.rs       PositioningLookup::apply (first subtable that applies)
    src/hb/ot/layout/GPOS/mark_base_pos.rs    MarkToBaseAdjustment::apply, accept  (the `last_base` cache)
    src/hb/ot/layout/GPOS/mark_lig_pos.rs     MarkToLigatureAdjustment::apply      (the same cache, component choice)
    src/hb/ot/layout/GPOS/mark_mark_pos.rs    MarkToMarkAdjustment::apply
    src/hb/ot/layout/GPOS/cursive_pos.rs      CursiveAdjustment::apply (the search for the previous glyph)
    src/hb/ot_layout_gsubgpos.rs              hb_ot_apply_context_t::{set_lookup_mask, last_base, last_base_until}
  The skipping iterator and `check_glyph_property` are the ones of the GSUB interpreter model (Gsub.lean, tied
  to the crate by the C06 streams as well); the position arithmetic (`markArrayApply`, `cursiveApply`,
  `positionStart`, `positionFinishOffsets`) is Gpos.lean.  GPOS never changes `info` (the `unsafe_to_*` flag
  bits it sets live below the feature bits of `mask`: `C04_feature_bits_above_flags`), so `info` is read-only
  here.  The digest prefilters are not modelled (C10).  Anchors are plain (format 1): no device / variation deltas.
-/
import RbModel.Gpos
import RbModel.Gsub

namespace RbModel.GposMark
open RbModel.Gpos

/-- the error monad of the GPOS model (`oob` / `assert` / `fuel`) -/
abbrev GM := RbModel.Gpos.M

abbrev Anchor := Option (Int × Int)

/-- ttf-parser's `AnchorMatrix`: `get(row, col)` reads entry `row * cols + col` of the flat offset array
    (a NULL offset or an index past the array is `None`). -/
structure Matrix where
  rows : Nat
  cols : Nat
  flat : List Anchor
deriving Repr

def Matrix.get (m : Matrix) (row col : Nat) : Anchor :=
  match m.flat[row * m.cols + col]? with
  | some a => a
  | none => none

/-- (class, anchor x, anchor y) per mark-coverage index -/
abbrev MarkArray := List (Nat × Int × Int)

inductive Sub where
  | markBase (markCov baseCov : Gsub.Cov) (marks : MarkArray) (anchors : Matrix)
  | markLig (markCov ligCov : Gsub.Cov) (marks : MarkArray) (ligs : List Matrix)
  | markMark (mark1Cov mark2Cov : Gsub.Cov) (marks : MarkArray) (anchors : Matrix)
  | cursive (cov : Gsub.Cov) (entryExit : List (Anchor × Anchor))
deriving Repr

structure Lookup where
  props : Nat                  -- LookupFlag | mark_filtering_set << 16
  subtables : List Sub
deriving Repr

/-- the part of `hb_ot_apply_context_t` + buffer the attachment lookups read or write -/
structure Ctx where
  font : Gsub.Font             -- GDEF: hasGdef, markSets (glyph classes are already in `info`)
  info : List Info
  len : Nat
  pos : Array Pos
  idx : Nat := 0
  dir : Dir := .ltr
  lookupMask : Nat := 1
  lookupProps : Nat := 0
  autoZwj : Bool := true
  perSyllable : Bool := false
  lastBase : Int := -1
  lastBaseUntil : Nat := 0
  hasAttach : Bool := false

def getInfo (l : List Info) (i : Nat) : GM Info :=
  match l[i]? with
  | some x => .ok x
  | none => .error .oob

def liftP {α} : RbModel.M α → GM α
  | .ok a => .ok a
  | .error .oob => .error .oob
  | .error .assert => .error .assert

def IGNORE_MARKS : Nat := 0x0008
def RIGHT_TO_LEFT : Nat := 0x0001

/-- src: skipping_iterator_t::new(ctx, start, false) for the GPOS table, followed by `set_lookup_props(props)` -/
def iterAt (c : Ctx) (start props : Nat) : GM Gsub.It := do
  let syl ← if c.idx == start && c.perSyllable then do
      let cur ← getInfo c.info c.idx; pure (Gsub.sylOf cur) else pure 0
  pure { lookupProps := props, ignoreZwnj := true, ignoreZwj := c.autoZwj, ignoreHidden := true,
         mask := c.lookupMask, syllable := syl, bufLen := c.len, idx := start }

/-- src: mark_base_pos.rs::accept — only the first glyph of a MultipleSubst sequence is a base, unless a mark
    interrupts the sequence -/
def accept (info : List Info) (idx : Nat) : GM Bool := do
  let x ← getInfo info idx
  let multiplied (y : Info) : Bool := Gsub.glyphProps y &&& Gsub.GP.MULTIPLIED != 0
  if !multiplied x || Gsub.ligComp x == 0 then pure true
  else if idx == 0 then pure true
  else do
    let y ← getInfo info (idx - 1)
    pure (Gsub.isMark y || !multiplied y || Gsub.ligId x != Gsub.ligId y || Gsub.ligComp x != Gsub.ligComp y + 1)

/-- the body of the backward loop of MarkToBase at glyph `j`: is `info[j]` the base? -/
def okBase (f : Gsub.Font) (it : Gsub.It) (info : List Info) (baseCov : Gsub.Cov) (j : Nat) : GM Bool := do
  let x ← getInfo info j
  match it.match_ f x with
  | .matched =>
      let a ← accept info j
      if !a && (Gsub.Cov.index baseCov (x.gid % 65536)).isNone then pure false else pure true
  | _ => pure false

/-- the body of the backward loop of MarkToLigature at glyph `j` -/
def okLig (f : Gsub.Font) (it : Gsub.It) (info : List Info) (j : Nat) : GM Bool := do
  let x ← getInfo info j
  match it.match_ f x with
  | .matched => pure true
  | _ => pure false

/-- `let mut j = buffer.idx; while j > ctx.last_base_until { if <info[j-1] is it> { last_base = j-1; break } j -= 1 }`
    — returns the new `last_base`. -/
def baseScan (ok : Nat → GM Bool) (untl : Nat) (lb : Int) : Nat → GM Int
  | 0 => .ok lb
  | j + 1 =>
    if j + 1 > untl then
      match ok j with
      | .error e => .error e
      | .ok true => .ok (j : Int)
      | .ok false => baseScan ok untl lb j
    else .ok lb

/-- the cached search of MarkToBase / MarkToLigature: stale-cache reset, scan of `[last_base_until, idx)`,
    `last_base_until = idx`.  Returns (last_base, last_base_until). -/
def lastBaseSearch (ok : Nat → GM Bool) (idx : Nat) (lb : Int) (untl : Nat) : GM (Int × Nat) :=
  let lb := if untl > idx then -1 else lb
  let untl := if untl > idx then 0 else untl
  match baseScan ok untl lb idx with
  | .error e => .error e
  | .ok lb' => .ok (lb', idx)

/-- src: mark_array.rs::MarkArrayExt::apply (`anchorOf cls` = `anchors.get(glyph_index, mark_class)`) -/
def marksApply (c : Ctx) (marks : MarkArray) (anchorOf : Nat → Anchor) (markIndex glyphPos : Nat) : GM (Ctx × Bool) :=
  match marks[markIndex]? with
  | none => .ok (c, false)
  | some (cls, mx, my) =>
    match anchorOf cls with
    | none => .ok (c, false)
    | some (bx, byy) =>
      match markArrayApply c.pos c.idx glyphPos mx my bx byy with
      | .error e => .error e
      | .ok none => .ok (c, false)
      | .ok (some q) => .ok ({ c with pos := q, hasAttach := true, idx := c.idx + 1 }, true)

/-- the tail of both appliers once the cache has been refreshed: `last_base == -1` → no target -/
def withTarget (c : Ctx) (k : Nat → Info → GM (Ctx × Bool)) : GM (Ctx × Bool) :=
  if c.lastBase == -1 then .ok (c, false)
  else if c.lastBase < 0 then .error .oob          -- `last_base as u32` of a negative value: never stored
  else
    match getInfo c.info c.lastBase.toNat with
    | .error e => .error e
    | .ok b => k c.lastBase.toNat b

/-- src: mark_base_pos.rs::MarkToBaseAdjustment::apply -/
def markBaseApply (c : Ctx) (markCov baseCov : Gsub.Cov) (marks : MarkArray) (anchors : Matrix) : GM (Ctx × Bool) :=
  match getInfo c.info c.idx with
  | .error e => .error e
  | .ok cur =>
    match Gsub.Cov.index markCov (cur.gid % 65536) with
    | none => .ok (c, false)
    | some markIndex =>
      match iterAt c 0 IGNORE_MARKS with
      | .error e => .error e
      | .ok it =>
        match lastBaseSearch (okBase c.font it c.info baseCov) c.idx c.lastBase c.lastBaseUntil with
        | .error e => .error e
        | .ok (lb, untl) =>
          withTarget { c with lastBase := lb, lastBaseUntil := untl } fun t b =>
            match Gsub.Cov.index baseCov (b.gid % 65536) with
            | none => .ok ({ c with lastBase := lb, lastBaseUntil := untl }, false)
            | some baseIndex =>
              marksApply { c with lastBase := lb, lastBaseUntil := untl } marks (anchors.get baseIndex) markIndex t

/-- "Find component to attach to", the u16 value the code subtracts 1 from: `if matches { mark_comp.min(comp_count) } else
    { comp_count }` with `matches = lig_id != 0 && lig_id == mark_id && mark_comp > 0`.  `mark_comp` is 0 for a glyph that is
    itself a ligature base (`_hb_glyph_info_get_lig_comp`), e.g. an output of a MultipleSubst applied to a ligature glyph, which
    keeps the ligature's id: without the `mark_comp > 0` test the value would be `min 0 n = 0` and the `- 1` would underflow. -/
def ligComponentSel (lig cur : Info) (compCount : Nat) : Nat :=
  if Gsub.ligId lig != 0 && Gsub.ligId lig == Gsub.ligId cur && Gsub.ligComp cur > 0
  then min (Gsub.ligComp cur) compCount else compCount

/-- "Find component to attach to": the mark's own component when it belongs to this ligature, else the last one.
    `- 1` is a u16 subtraction in the code (it traps in the overflow-checked build and wraps in the release build when the
    minuend is 0); `C07_marklig_component_total` shows the minuend is never 0 once `comp_count == 0` has been turned away,
    so the truncating `Nat` subtraction is exact. -/
def ligComponent (lig cur : Info) (compCount : Nat) : Nat :=
  ligComponentSel lig cur compCount - 1

/-- src: mark_lig_pos.rs::MarkToLigatureAdjustment::apply -/
def markLigApply (c : Ctx) (markCov ligCov : Gsub.Cov) (marks : MarkArray) (ligs : List Matrix) : GM (Ctx × Bool) :=
  match getInfo c.info c.idx with
  | .error e => .error e
  | .ok cur =>
    match Gsub.Cov.index markCov (cur.gid % 65536) with
    | none => .ok (c, false)
    | some markIndex =>
      match iterAt c 0 IGNORE_MARKS with
      | .error e => .error e
      | .ok it =>
        match lastBaseSearch (okLig c.font it c.info) c.idx c.lastBase c.lastBaseUntil with
        | .error e => .error e
        | .ok (lb, untl) =>
          withTarget { c with lastBase := lb, lastBaseUntil := untl } fun t b =>
            match (Gsub.Cov.index ligCov (b.gid % 65536)).bind (fun k => ligs[k]?) with
            | none => .ok ({ c with lastBase := lb, lastBaseUntil := untl }, false)
            | some ligAttach =>
              if ligAttach.rows == 0 then .ok ({ c with lastBase := lb, lastBaseUntil := untl }, false)
              else
                marksApply { c with lastBase := lb, lastBaseUntil := untl } marks
                  (ligAttach.get (ligComponent b cur ligAttach.rows)) markIndex t

/-- src: mark_mark_pos.rs::MarkToMarkAdjustment::apply -/
def markMarkApply (c : Ctx) (mark1Cov mark2Cov : Gsub.Cov) (marks : MarkArray) (anchors : Matrix) : GM (Ctx × Bool) := do
  let cur ← getInfo c.info c.idx
  match Gsub.Cov.index mark1Cov (cur.gid % 65536) with
  | none => pure (c, false)
  | some mark1Index =>
    let it ← iterAt c c.idx (c.lookupProps - (c.lookupProps &&& Gsub.LF.IGNORE_FLAGS))
    let (found, it, _) ← liftP (it.prev c.font c.info (c.idx + 1))
    if !found then pure (c, false)
    else
      let j := it.idx
      let x ← getInfo c.info j
      if !Gsub.isMark x then pure (c, false)
      else
        let id1 := Gsub.ligId cur; let id2 := Gsub.ligId x
        let comp1 := Gsub.ligComp cur; let comp2 := Gsub.ligComp x
        let compat := if id1 == id2 then id1 == 0 || comp1 == comp2
                       else (id1 > 0 && comp1 == 0) || (id2 > 0 && comp2 == 0)
        if !compat then pure (c, false)
        else
          match Gsub.Cov.index mark2Cov (x.gid % 65536) with
          | none => pure (c, false)
          | some mark2Index => marksApply c marks (anchors.get mark2Index) mark1Index j

/-- src: cursive_pos.rs::CursiveAdjustment::apply -/
def cursiveSubApply (c : Ctx) (cov : Gsub.Cov) (ee : List (Anchor × Anchor)) : GM (Ctx × Bool) := do
  let cur ← getInfo c.info c.idx
  match Gsub.Cov.index cov (cur.gid % 65536) with
  | none => pure (c, false)
  | some indexThis =>
    match ee[indexThis]? with
    | none => pure (c, false)
    | some (none, _) => pure (c, false)
    | some (some (enX, enY), _) =>
      let it ← iterAt c c.idx c.lookupProps
      let (found, it, _) ← liftP (it.prev c.font c.info (c.idx + 1))
      if !found then pure (c, false)
      else
        let i := it.idx
        if c.idx - i > CHAIN_MAX then pure (c, false)
        else
          let prev ← getInfo c.info i
          match (Gsub.Cov.index cov (prev.gid % 65536)).bind (fun k => ee[k]?) with
          | none => pure (c, false)
          | some (_, none) => pure (c, false)
          | some (_, some (exX, exY)) =>
            match cursiveApply c.pos i c.idx c.dir (c.lookupProps % 65536 &&& RIGHT_TO_LEFT != 0) enX enY exX exY with
            | .error e => .error e
            | .ok none => pure (c, false)
            | .ok (some (q, _)) => pure ({ c with pos := q, hasAttach := true, idx := c.idx + 1 }, true)

def subApply (c : Ctx) : Sub → GM (Ctx × Bool)
  | .markBase mc bc marks a => markBaseApply c mc bc marks a
  | .markLig mc lc marks ligs => markLigApply c mc lc marks ligs
  | .markMark m1 m2 marks a => markMarkApply c m1 m2 marks a
  | .cursive cov ee => cursiveSubApply c cov ee

/-- src: pos_lookup.rs::PositioningLookup::apply — the first subtable that applies wins; a subtable that does
    not apply may still have refreshed the `last_base` cache -/
def lookupApply (c : Ctx) : List Sub → GM (Ctx × Bool)
  | [] => .ok (c, false)
  | s :: rest =>
    match subApply c s with
    | .error e => .error e
    | .ok (c', true) => .ok (c', true)
    | .ok (c', false) => lookupApply c' rest

/-- the glyph at `idx` is one the lookup looks at: `(cur.mask & lookup_mask) != 0 && check_glyph_property(cur, lookup_props)` -/
def eligible (c : Ctx) (cur : Info) : Bool :=
  cur.mask &&& c.lookupMask != 0 && Gsub.checkGlyphProperty c.font cur c.lookupProps

/-- src: ot_layout.rs::apply_forward (GPOS is in place: `next_glyph` is `idx += 1`).  Every iteration advances
    `idx` by one, so `fuel = len` is exact. -/
def applyForward (subs : List Sub) : Nat → Ctx → GM Ctx
  | 0, c => .ok c
  | fuel + 1, c =>
    if c.idx < c.len then
      match getInfo c.info c.idx with
      | .error e => .error e
      | .ok cur =>
        if eligible c cur then
          match lookupApply c subs with
          | .error e => .error e
          | .ok (c', true) => applyForward subs fuel c'
          | .ok (c', false) => applyForward subs fuel { c' with idx := c'.idx + 1 }
        else applyForward subs fuel { c with idx := c.idx + 1 }
    else .ok c

/-- src: ot_layout.rs::apply_string (GPOS lookups are never reverse) -/
def applyString (c : Ctx) (l : Lookup) : GM Ctx :=
  if c.len == 0 || c.lookupMask == 0 then .ok c
  else applyForward l.subtables c.len { c with lookupProps := l.props, idx := 0 }

/-- one planned lookup: src: ot_map.rs::lookup_map_t (the fields GPOS reads) -/
structure LookupMap where
  index : Nat
  mask : Nat
  autoZwnj : Bool
  autoZwj : Bool
  perSyllable : Bool

/-- src: ot_layout.rs::apply_layout_table for GPOS (no pause functions): one apply context for the whole table;
    `set_lookup_mask` forgets the `last_base` cache before every lookup. -/
def applyLayoutTable (lookups : List Lookup) (c : Ctx) : List LookupMap → GM Ctx
  | [] => .ok c
  | m :: rest =>
    match lookups[m.index]? with
    | none => applyLayoutTable lookups c rest
    | some l =>
      let c := { c with lookupMask := m.mask, lastBase := -1, lastBaseUntil := 0, autoZwj := m.autoZwj,
                        perSyllable := m.perSyllable }
      match applyString c l with
      | .error e => .error e
      | .ok c' => applyLayoutTable lookups c' rest

/-- `GPOS::position_start`, `position`, and (when `finish`) `GPOS::position_finish_offsets` -/
def positionBuffer (lookups : List Lookup) (maps : List LookupMap) (c : Ctx) (finish : Bool) : GM (Array Pos × Bool) := do
  let p ← positionStart c.pos c.len
  let c ← applyLayoutTable lookups { c with pos := p } maps
  if finish then
    let (q, _) ← positionFinishOffsets c.pos c.len c.dir c.hasAttach
    pure (q, c.hasAttach)
  else pure (c.pos, c.hasAttach)

end RbModel.GposMark
