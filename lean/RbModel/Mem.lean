/-
  Base types of the buffer model and the three copy loops every buffer routine is made of.
  A Rust `for` loop that copies between two *different* Vecs is `copyAcross`; a loop that copies
  inside one Vec is `copyWithinFwd` (ascending index order) or `copyWithinBwd` (descending order) —
  the order matters exactly when source and destination ranges overlap.
-/
namespace RbModel

inductive Panic where
  | oob      -- index / slice out of bounds
  | assert   -- `assert!` failed
  deriving DecidableEq, Repr

abbrev M := Except Panic

structure Info where
  gid : Nat := 0
  mask : Nat := 0
  cluster : Nat := 0
  var1 : Nat := 0
  var2 : Nat := 0
  deriving DecidableEq, Repr, Inhabited

namespace Mem

def get (l : List Info) (i : Nat) : M Info :=
  match l[i]? with
  | some x => pure x
  | none => throw .oob

def put (l : List Info) (i : Nat) (x : Info) : M (List Info) :=
  if i < l.length then pure (l.set i x) else throw .oob

/-- `dst[d + j] = src[s + j]` for j = j₀, j₀+1, …, j₀+k-1; `src` and `dst` are different Vecs -/
def copyAcross (src dst : List Info) (s d : Nat) : Nat → Nat → M (List Info)
  | 0, _ => pure dst
  | k + 1, j => do
      let x ← get src (s + j)
      let dst ← put dst (d + j) x
      copyAcross src dst s d k (j + 1)

/-- `l[d + j] = l[s + j]` for j = j₀, j₀+1, …, j₀+k-1 inside one Vec (ascending) -/
def copyWithinFwd (l : List Info) (s d : Nat) : Nat → Nat → M (List Info)
  | 0, _ => pure l
  | k + 1, j => do
      let x ← get l (s + j)
      let l ← put l (d + j) x
      copyWithinFwd l s d k (j + 1)

/-- `l[d + j] = l[s + j]` for j = n-1, n-2, …, 0 inside one Vec (descending) -/
def copyWithinBwd (l : List Info) (s d : Nat) : Nat → M (List Info)
  | 0 => pure l
  | j + 1 => do
      let x ← get l (s + j)
      let l ← put l (d + j) x
      copyWithinBwd l s d j

end Mem
end RbModel
