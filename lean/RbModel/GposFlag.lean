/-
  Model of the glyph-flag decisions of GPOS PairPos (which span gets `unsafe_to_break`, which only
  `unsafe_to_concat`), on top of the buffer model (Buf.lean: the flag setters) and the value-record model
  (Gpos.lean: `valueApplyToPosD` with the `worked` value it returns, `pairApplyD`).
    src/hb/ot/layout/GPOS/pair_pos.rs      PairAdjustment::apply (closures finish / boring / success / bail)
    src/hb/ot_layout_gpos_table.rs         ValueRecordExt::apply, apply_to_pos (the returned bool)

  What the subtable *found* (coverage hit, the second glyph the skipping iterator stops at, the two value records with
  the deltas their Device / VariationIndex tables yield on this face) is external data: the parameter `PairFound`.
  What is modelled is the control flow from there: `flag1 = has1 && r1.apply(..)`, `flag2 = has2 && r2.apply(..)`,
  `if flag1 || flag2 { unsafe_to_break(idx, second + 1) } else { unsafe_to_concat(idx, second + 1) }`, and `finish`.
-/
import RbModel.Buf
import RbModel.Gpos

namespace RbModel.GposFlag
open RbModel RbModel.Gpos

/-- a panic of the positioning arithmetic as a panic of the buffer model (`fuel` cannot come from value records) -/
def liftG {α} : Gpos.M α → RbModel.M α
  | .ok a => .ok a
  | .error .oob => .error .oob
  | .error .assert => .error .assert
  | .error .fuel => .error .assert

/-- what `PairAdjustment::apply` finds before it touches anything -/
inductive PairFound where
  /-- `self.coverage().get(first_glyph)?` (or the pair set index) fails: nothing happens -/
  | notCovered
  /-- `iter.next(Some(&mut unsafe_to))` finds no second glyph: every later glyph is skipped (`unsafe_to` = `buffer.len`) or
      the first glyph that is not skipped lacks the lookup's mask bit (`unsafe_to` = its index + 1) -/
  | noSecond (unsafeTo : Nat)
  /-- format 1: the pair set has no record for the second glyph -/
  | noRecord (second : Nat)
  /-- the records of the pair (format 1 or 2) -/
  | records (second : Nat) (v1 v2 : ValueRecordD)
deriving Repr

/-- src: pair_pos.rs, closure `finish` (`iter_index` = `second`) -/
def pairFinish (b : Buf) (second : Nat) (has2 : Bool) : M Buf := do
  if has2 then
    -- `*iter_index += 1; unsafe_to_break(idx, *iter_index + 1)`
    let b ← b.unsafeToBreak b.idx (some (second + 2))
    pure { b with idx := second + 1 }
  else pure { b with idx := second }

/-- src: pair_pos.rs, closures `success` / `boring` -/
def pairSuccess (b : Buf) (second : Nat) (flag1 flag2 has2 : Bool) : M Buf := do
  if flag1 || flag2 then
    let b ← b.unsafeToBreak b.idx (some (second + 1))
    pairFinish b second has2
  else
    let b ← b.unsafeToConcat b.idx (some (second + 1))
    pairFinish b second has2

/-- src: pair_pos.rs::PairAdjustment::apply from the coverage test on.  Result: buffer (flags, idx), positions,
    `Some(())` / `None`. -/
def pairPosApply (b : Buf) (p : Array Pos) (found : PairFound) (useX useY : Bool) (d : Dir) :
    M (Buf × Array Pos × Bool) :=
  match found with
  | .notCovered => pure (b, p, false)
  | .noSecond u => do
      let b ← b.unsafeToConcat b.idx (some u)
      pure (b, p, false)
  | .noRecord j => do
      let b ← b.unsafeToConcat b.idx (some (j + 1))
      pure (b, p, false)
  | .records j v1 v2 => do
      -- closure `bail`
      let (p, f1, f2) ← liftG (pairApplyD v1 v2 useX useY d p b.idx j)
      let b ← pairSuccess b j f1 f2 (!v2.isEmpty)
      pure (b, p, true)

end RbModel.GposFlag
