/-
  Model of the GSUB lookup interpreter: `ot_layout_gsubgpos.rs` (skipping iterator, match_input / backtrack /
  lookahead, apply_lookup, ligate_input, recurse, check_glyph_property, set_glyph_class), the GSUB subtable
  appliers in `ot/layout/GSUB/*.rs`, and `apply_string` / `apply_forward` / `apply_backward` /
  `apply_layout_table` of `ot_layout.rs`, on top of the buffer model (Buf.lean).
  A font is already-parsed data (`Font`): what ttf-parser's accessors return for well-formed tables.
  The nesting budget (`nesting_level_left`, MAX_NESTING_LEVEL = 64) is the structural recursion argument
  of `applyLookupAt`, so Lean's termination checker re-proves the code's own termination argument.
  The digest prefilters are not modelled: skipping is proved to be a no-op in Props/C10.lean.
-/
import RbModel.Buf

namespace RbModel.Gsub
open RbModel RbModel.Buf

/-! ### font data -/

/-- coverage table as the sorted glyph list: coverage index = position -/
abbrev Cov := List Nat

def Cov.index (c : Cov) (g : Nat) : Option Nat :=
  let i := c.idxOf g
  if i < c.length then some i else none

/-- class definition: (glyph, class) pairs, class 0 otherwise -/
abbrev ClassDef := List (Nat × Nat)

def ClassDef.get (cd : ClassDef) (g : Nat) : Nat :=
  match cd.find? (fun p => p.1 == g) with
  | some p => p.2
  | none => 0

/-- (sequence index, lookup index) -/
abbrev Rec := Nat × Nat

structure Rule where
  input : List Nat
  lookups : List Rec
  deriving Repr

structure ChainRule where
  backtrack : List Nat
  input : List Nat
  lookahead : List Nat
  lookups : List Rec
  deriving Repr

inductive Subtable where
  | single1 (cov : Cov) (delta : Int)
  | single2 (cov : Cov) (subst : List Nat)
  | multiple (cov : Cov) (seqs : List (List Nat))
  | alternate (cov : Cov) (alts : List (List Nat))
  | ligature (cov : Cov) (sets : List (List (List Nat × Nat)))
  | context1 (cov : Cov) (sets : List (List Rule))
  | context2 (cov : Cov) (classes : ClassDef) (sets : List (Option (List Rule)))
  | context3 (covs : List Cov) (lookups : List Rec)          -- covs.head is the coverage
  | chain1 (cov : Cov) (sets : List (List ChainRule))
  | chain2 (cov : Cov) (bc ic lc : ClassDef) (sets : List (Option (List ChainRule)))
  | chain3 (back input ahead : List Cov) (lookups : List Rec)
  | reverse (cov : Cov) (back ahead : List Cov) (subst : List Nat)
  deriving Repr

def Subtable.isReverse : Subtable → Bool
  | .reverse .. => true
  | _ => false

structure Lookup where
  props : Nat                 -- LookupFlag | mark_filtering_set << 16
  subtables : List Subtable
  deriving Repr

/-- src: ot_layout_common.rs::SubstLookup::parse (`reverse`) -/
def Lookup.reverse (l : Lookup) : Bool := !l.subtables.isEmpty && l.subtables.all Subtable.isReverse

structure Font where
  hasGdef : Bool := false
  hasGlyphClasses : Bool := false
  glyphProps : List (Nat × Nat) := []      -- face.glyph_props(gid) where non-zero
  markSets : List (List Nat) := []
  lookups : List Lookup := []
  deriving Repr

def Font.props (f : Font) (g : Nat) : Nat :=
  match f.glyphProps.find? (fun p => p.1 == g) with
  | some p => p.2
  | none => 0

/-! ### packed glyph-info fields: var1 = glyph_props(16) | lig_props(8) << 16 | syllable(8) << 24, var2 = unicode_props(16) -/

namespace GP
def BASE_GLYPH : Nat := 0x02
def LIGATURE : Nat := 0x04
def MARK : Nat := 0x08
def SUBSTITUTED : Nat := 0x10
def LIGATED : Nat := 0x20
def MULTIPLIED : Nat := 0x40
def PRESERVE : Nat := 0x70
end GP

namespace LF
def IGNORE_FLAGS : Nat := 0x000E
def USE_MARK_FILTERING_SET : Nat := 0x0010
def MARK_ATTACHMENT_TYPE_MASK : Nat := 0xFF00
end LF

def glyphProps (x : Info) : Nat := x.var1 % 65536
def ligProps (x : Info) : Nat := (x.var1 / 65536) % 256
def sylOf (x : Info) : Nat := (x.var1 / 16777216) % 256
def setGlyphProps (x : Info) (n : Nat) : Info :=
  { x with var1 := (x.var1 / 65536) * 65536 + n % 65536 }
def setLigProps (x : Info) (n : Nat) : Info :=
  { x with var1 := (x.var1 / 16777216) * 16777216 + (n % 256) * 65536 + x.var1 % 65536 }
def unicodeProps (x : Info) : Nat := x.var2 % 65536
def setUnicodeProps (x : Info) (n : Nat) : Info := { x with var2 := (x.var2 / 65536) * 65536 + n % 65536 }

def IS_LIG_BASE : Nat := 0x10
def ligId (x : Info) : Nat := ligProps x / 32
def ligatedInternal (x : Info) : Bool := ligProps x &&& IS_LIG_BASE != 0
def ligComp (x : Info) : Nat := if ligatedInternal x then 0 else ligProps x &&& 0x0F
def ligNumComps (x : Info) : Nat :=
  if glyphProps x &&& GP.LIGATURE != 0 && ligatedInternal x then ligProps x &&& 0x0F else 1
def setLigPropsForLigature (x : Info) (ligId numComps : Nat) : Info :=
  setLigProps x (((ligId * 32) % 256) ||| IS_LIG_BASE ||| (numComps &&& 0x0F))
def setLigPropsForMark (x : Info) (ligId comp : Nat) : Info :=
  setLigProps x (((ligId * 32) % 256) ||| (comp &&& 0x0F))

def isBaseGlyph (x : Info) : Bool := glyphProps x &&& GP.BASE_GLYPH != 0
def isLigature (x : Info) : Bool := glyphProps x &&& GP.LIGATURE != 0
def isMark (x : Info) : Bool := glyphProps x &&& GP.MARK != 0
def substituted (x : Info) : Bool := glyphProps x &&& GP.SUBSTITUTED != 0

def genCat (x : Info) : Nat := unicodeProps x &&& 0x1F
def isDefaultIgnorable (x : Info) : Bool := unicodeProps x &&& 0x20 != 0 && !substituted x
def isHidden (x : Info) : Bool := unicodeProps x &&& 0x40 != 0
def isZwnj (x : Info) : Bool := genCat x == 1 && unicodeProps x &&& 0x200 != 0
def isZwj (x : Info) : Bool := genCat x == 1 && unicodeProps x &&& 0x100 != 0
/-- src: ot_layout.rs::_hb_glyph_info_set_general_category (clears the top byte) -/
def setGenCat (x : Info) (gc : Nat) : Info := setUnicodeProps x (gc ||| (unicodeProps x &&& (0xFF - 0x1F)))

/-! ### apply context -/

structure Ctx where
  buf : Buf
  font : Font
  isGpos : Bool := false
  lookupMask : Nat := 1
  lookupProps : Nat := 0
  autoZwnj : Bool := true
  autoZwj : Bool := true
  random : Bool := false
  randomState : Nat := 1
  perSyllable : Bool := false
  shapingFailed : Bool := false

/-- src: ot_layout_gsubgpos.rs::hb_ot_apply_context_t::check_glyph_property -/
def checkGlyphProperty (f : Font) (x : Info) (matchProps : Nat) : Bool :=
  let gp := glyphProps x
  let lf := matchProps % 65536
  if gp &&& lf &&& LF.IGNORE_FLAGS != 0 then false
  else if gp &&& GP.MARK != 0 then
    if lf &&& LF.USE_MARK_FILTERING_SET != 0 then
      if f.hasGdef then
        match f.markSets[matchProps / 65536]? with
        | some s => s.contains (x.gid % 65536)
        | none => false
      else false
    else if lf &&& LF.MARK_ATTACHMENT_TYPE_MASK != 0 then
      (lf &&& LF.MARK_ATTACHMENT_TYPE_MASK) == (gp &&& LF.MARK_ATTACHMENT_TYPE_MASK)
    else true
  else true

/-! ### skipping iterator -/

structure It where
  lookupProps : Nat
  ignoreZwnj : Bool
  ignoreZwj : Bool
  ignoreHidden : Bool
  mask : Nat
  syllable : Nat
  bufLen : Nat
  glyphData : Nat := 0
  idx : Nat
  matching : Option (Nat → Nat → Bool) := none

/-- src: skipping_iterator_t::new -/
def It.new (c : Ctx) (start : Nat) (contextMatch : Bool) : M It := do
  let syl ← if c.buf.idx == start && c.perSyllable then do
      let cur ← get c.buf.info c.buf.idx; pure (sylOf cur) else pure 0
  pure { lookupProps := c.lookupProps
         ignoreZwnj := c.isGpos || (contextMatch && c.autoZwnj)
         ignoreZwj := contextMatch || c.autoZwj
         ignoreHidden := c.isGpos
         mask := if contextMatch then U32MAX else c.lookupMask
         syllable := syl, bufLen := c.buf.len, idx := start }

inductive Skip | no | yes | maybe deriving DecidableEq
inductive MatchR | matched | notMatch | skip deriving DecidableEq

/-- src: skipping_iterator_t::may_skip -/
def It.maySkip (it : It) (f : Font) (x : Info) : Skip :=
  if !checkGlyphProperty f x it.lookupProps then .yes
  else if isDefaultIgnorable x && (it.ignoreZwnj || !isZwnj x) && (it.ignoreZwj || !isZwj x)
          && (it.ignoreHidden || !isHidden x) then .maybe
  else .no

/-- src: skipping_iterator_t::match_ (with may_match inlined) -/
def It.match_ (it : It) (f : Font) (x : Info) : MatchR :=
  let skip := it.maySkip f x
  if skip == .yes then .skip
  else
    -- may_match: 0 = NO, 1 = YES, 2 = MAYBE
    let m : Nat :=
      if x.mask &&& it.mask == 0 || (it.syllable != 0 && it.syllable != sylOf x) then 0
      else match it.matching with
        | some fn => if fn (x.gid % 65536) it.glyphData then 1 else 0
        | none => 2
    if m == 1 || (m == 2 && skip == .no) then .matched
    else if skip == .no then .notMatch
    else .skip

/-- src: skipping_iterator_t::next — returns (found, iterator, unsafe_to) -/
def It.next (it : It) (f : Font) (info : List Info) : Nat → M (Bool × It × Nat)
  | 0 => pure (false, it, it.idx + 1)
  | fuel + 1 =>
      if it.idx + 1 < it.bufLen then do
        let it := { it with idx := it.idx + 1 }
        let x ← get info it.idx
        match it.match_ f x with
        | .matched => pure (true, { it with glyphData := it.glyphData + 1 }, 0)
        | .notMatch => pure (false, it, it.idx + 1)
        | .skip => It.next it f info fuel
      else pure (false, it, it.idx + 1)

/-- src: skipping_iterator_t::prev (over out_info) — returns (found, iterator, unsafe_from) -/
def It.prev (it : It) (f : Font) (out : List Info) : Nat → M (Bool × It × Nat)
  | 0 => pure (false, it, 0)
  | fuel + 1 =>
      if it.idx > 0 then do
        let it := { it with idx := it.idx - 1 }
        let x ← get out it.idx
        match it.match_ f x with
        | .matched => pure (true, { it with glyphData := it.glyphData + 1 }, 0)
        | .notMatch => pure (false, it, max it.idx 1 - 1)
        | .skip => It.prev it f out fuel
      else pure (false, it, 0)

def MAX_CONTEXT_LENGTH : Nat := 64
def MAX_NESTING_LEVEL : Nat := 64

def resizeNat (l : List Nat) (n : Nat) : List Nat :=
  if n ≤ l.length then l.take n else l ++ List.replicate (n - l.length) 0

/-- result of match_input -/
structure MatchIn where
  ok : Bool
  endPos : Nat
  positions : List Nat
  totalComps : Nat

/-- the `while j > 0 && lig_id(out[j-1]) == first_lig_id` scan of match_input; returns (found, j) -/
def findLigBase (out : List Info) (firstLigId : Nat) : Nat → M (Bool × Nat)
  | 0 => pure (false, 0)
  | j + 1 => do
      let x ← get out j
      if ligId x == firstLigId then
        if ligComp x == 0 then pure (true, j) else findLigBase out firstLigId j
      else pure (false, j + 1)

/-- src: ot_layout_gsubgpos.rs::match_input.  `matchFn glyph index`. -/
def matchInput (c : Ctx) (inputLen : Nat) (matchFn : Nat → Nat → Bool) (positions : List Nat) : M MatchIn := do
  let count := inputLen + 1
  if count > MAX_CONTEXT_LENGTH then return { ok := false, endPos := 0, positions := positions, totalComps := 0 }
  let positions := if count > positions.length then resizeNat positions count else positions
  let it ← It.new c c.buf.idx false
  let it := { it with glyphData := 0, matching := some matchFn }
  let first ← get c.buf.info c.buf.idx
  let firstLigId := ligId first
  let firstLigComp := ligComp first
  -- ligbase: 0 = NotChecked, 1 = MayNotSkip, 2 = MaySkip
  let rec loop (it : It) (positions : List Nat) (total ligbase : Nat) (k : Nat) : Nat → M MatchIn
    | 0 => pure { ok := true, endPos := it.idx + 1, positions := positions, totalComps := total }
    | rest + 1 => do
        let (found, it, unsafeTo) ← It.next it c.font c.buf.info c.buf.len
        if !found then return { ok := false, endPos := unsafeTo, positions := positions, totalComps := total }
        let positions := positions.set k it.idx
        let this ← get c.buf.info it.idx
        let thisLigId := ligId this
        let thisLigComp := ligComp this
        let mut ligbase := ligbase
        if firstLigId != 0 && firstLigComp != 0 then
          if firstLigId != thisLigId || firstLigComp != thisLigComp then
            if ligbase == 0 then
              let (found, j) ← findLigBase c.buf.outArr firstLigId c.buf.outLen
              let skippable ← if found then do
                  let o ← get c.buf.outArr j
                  pure (it.maySkip c.font o == .yes) else pure false
              ligbase := if skippable then 2 else 1
            if ligbase == 1 then
              return { ok := false, endPos := it.idx + 1, positions := positions, totalComps := total }
        else
          if thisLigId != 0 && thisLigComp != 0 && thisLigId != firstLigId then
            return { ok := false, endPos := it.idx + 1, positions := positions, totalComps := total }
        loop it positions (total + ligNumComps this) ligbase (k + 1) rest
  let r ← loop it positions 0 0 1 (count - 1)
  if r.ok then
    pure { r with positions := r.positions.set 0 c.buf.idx, totalComps := (r.totalComps + ligNumComps first) % 256 }
  else pure r

/-- src: match_backtrack — returns (ok, match_start) -/
def matchBacktrack (c : Ctx) (n : Nat) (matchFn : Nat → Nat → Bool) : M (Bool × Nat) := do
  let bl := if c.buf.haveOutput then c.buf.outLen else c.buf.idx
  let it ← It.new c bl true
  let it := { it with glyphData := 0, matching := some matchFn }
  let rec loop (it : It) : Nat → M (Bool × Nat)
    | 0 => pure (true, it.idx)
    | k + 1 => do
        let (found, it, unsafeFrom) ← It.prev it c.font c.buf.outArr (it.idx + 1)
        if !found then return (false, unsafeFrom)
        loop it k
  loop it n

/-- src: match_lookahead — returns (ok, end_index) -/
def matchLookahead (c : Ctx) (n : Nat) (matchFn : Nat → Nat → Bool) (startIndex : Nat) : M (Bool × Nat) := do
  if startIndex = 0 then throw .oob   -- `start_index - 1` on usize
  let it ← It.new c (startIndex - 1) true
  let it := { it with glyphData := 0, matching := some matchFn }
  let rec loop (it : It) : Nat → M (Bool × Nat)
    | 0 => pure (true, it.idx + 1)
    | k + 1 => do
        let (found, it, unsafeTo) ← It.next it c.font c.buf.info c.buf.len
        if !found then return (false, unsafeTo)
        loop it k
  loop it n

/-! ### glyph class bookkeeping and the replace/output wrappers of the apply context -/

/-- src: hb_ot_apply_context_t::set_glyph_class (on the current glyph) -/
def setGlyphClass (c : Ctx) (gid classGuess : Nat) (ligature component : Bool) : M Ctx := do
  let cur ← get c.buf.info c.buf.idx
  let mut props := glyphProps cur ||| GP.SUBSTITUTED
  if ligature then props := (props ||| GP.LIGATED) &&& (0xFFFF - GP.MULTIPLIED)
  if component then props := props ||| GP.MULTIPLIED
  let newProps :=
    if c.font.hasGlyphClasses then (props &&& GP.PRESERVE) ||| c.font.props gid
    else if classGuess != 0 then (props &&& GP.PRESERVE) ||| classGuess
    else props
  let info ← put c.buf.info c.buf.idx (setGlyphProps cur newProps)
  pure { c with buf := { c.buf with info := info } }

/-- src: hb_ot_apply_context_t::replace_glyph -/
def ctxReplaceGlyph (c : Ctx) (g : Nat) : M Ctx := do
  let c ← setGlyphClass c g 0 false false
  let b ← c.buf.replaceGlyph g
  pure { c with buf := b }

/-- src: hb_ot_apply_context_t::recurse budget part: returns none when the budget refuses -/
def randomNumber (c : Ctx) : Ctx × Nat :=
  let s := ((c.randomState * 48271) % 4294967296) % 2147483647
  ({ c with randomState := s }, s)

/-! ### ligate_input -/

/-- src: ot_layout_gsubgpos.rs::ligate_input -/
def ligateInput (c : Ctx) (count : Nat) (positions : List Nat) (matchEnd totalComps ligGlyph : Nat) : M Ctx := do
  let b ← c.buf.mergeClusters c.buf.idx matchEnd
  let c := { c with buf := b }
  let p0 ← match positions[0]? with | some p => pure p | none => throw .oob
  let x0 ← get c.buf.info p0
  let rec scan (isBase isMarkL : Bool) (i : Nat) : Nat → M (Bool × Bool)
    | 0 => pure (isBase, isMarkL)
    | k + 1 => do
        let p ← match positions[i]? with | some p => pure p | none => throw .oob
        let x ← get c.buf.info p
        if !isMark x then scan false false (i + 1) k else scan isBase isMarkL (i + 1) k
  let (isBaseLig, isMarkLig) ← scan (isBaseGlyph x0) (isMark x0) 1 (count - 1)
  let isLig := !isBaseLig && !isMarkLig
  let cls := if isLig then GP.LIGATURE else 0
  -- allocate_lig_id: next_serial() & 7, skipping 0
  let rec alloc (serial : Nat) : Nat → Nat × Nat
    | 0 => (serial, 1)
    | k + 1 =>
        let s := (serial + 1) % 256
        let s := if s == 0 then 1 else s
        if s &&& 7 == 0 then alloc s k else (s, s &&& 7)
  let (serial, lid) := if isLig then alloc c.buf.serial 16 else (c.buf.serial, 0)
  let c := { c with buf := { c.buf with serial := serial } }
  let first ← get c.buf.info c.buf.idx
  let lastLigId0 := ligId first
  let lastNumComps0 := ligNumComps first
  let c ← if isLig then do
      let f := setLigPropsForLigature first lid totalComps
      let f := if genCat f == 12 then setGenCat f 7 else f
      let info ← put c.buf.info c.buf.idx f
      pure { c with buf := { c.buf with info := info } }
    else pure c
  -- replace_glyph_with_ligature
  let c ← setGlyphClass c ligGlyph cls true false
  let b ← c.buf.replaceGlyph ligGlyph
  let c := { c with buf := b }
  -- `while buffer.idx < match_positions[i] && buffer.successful { … next_glyph() }`
  let rec advance (b : Buf) (target lastNumComps compsSoFar : Nat) : Nat → M Buf
    | 0 => pure b
    | k + 1 =>
        if b.idx < target && b.successful then do
          let b ← if isLig then do
              let cur ← get b.info b.idx
              let thisComp := if ligComp cur == 0 then lastNumComps else ligComp cur
              let newComp := (compsSoFar + 256 - lastNumComps + min thisComp lastNumComps) % 256
              let info ← put b.info b.idx (setLigPropsForMark cur lid newComp)
              pure { b with info := info }
            else pure b
          let b ← b.nextGlyph
          advance b target lastNumComps compsSoFar k
        else pure b
  let rec comps (b : Buf) (i lastLigId lastNumComps compsSoFar : Nat) : Nat → M (Buf × Nat × Nat × Nat)
    | 0 => pure (b, lastLigId, lastNumComps, compsSoFar)
    | k + 1 => do
        let target ← match positions[i]? with | some p => pure p | none => throw .oob
        let b ← advance b target lastNumComps compsSoFar (target + 1)
        let cur ← get b.info b.idx
        let lli := ligId cur
        let lnc := ligNumComps cur
        comps { b with idx := b.idx + 1 } (i + 1) lli lnc ((compsSoFar + lnc) % 256) k
  let (b, lastLigId, lastNumComps, compsSoFar) ← comps c.buf 1 lastLigId0 lastNumComps0 lastNumComps0 (count - 1)
  let b ← if !isMarkLig && lastLigId != 0 then do
      let rec fix (info : List Info) (i : Nat) : Nat → M (List Info)
        | 0 => pure info
        | k + 1 =>
            if i < b.len then do
              let x ← get info i
              if lastLigId != ligId x then pure info
              else if ligComp x == 0 then pure info
              else
                let newComp := (compsSoFar + 256 - lastNumComps + min (ligComp x) lastNumComps) % 256
                fix (info.set i (setLigPropsForMark x lid newComp)) (i + 1) k
            else pure info
      let info ← fix b.info b.idx (b.len - b.idx)
      pure { b with info := info }
    else pure b
  pure { c with buf := b }

/-! ### apply_lookup (nested lookups at matched positions) -/

def getPos (l : List Nat) (i : Nat) : M Nat :=
  match l[i]? with | some p => pure p | none => throw .oob

/-- `match_positions.copy_within(next..count, dest)` -/
def copyWithinNat (l : List Nat) (src srcEnd dest : Nat) : M (List Nat) :=
  if src > srcEnd || srcEnd > l.length || dest + (srcEnd - src) > l.length then throw .oob
  else
    let seg := (l.drop src).take (srcEnd - src)
    pure (l.take dest ++ seg ++ l.drop (dest + seg.length))

/-- src: ot_layout_gsubgpos.rs::apply_lookup.  `recurse c lookupIndex` is the nested application. -/
def applyLookup (recurse : Ctx → Nat → M (Ctx × Bool)) (c : Ctx) (inputLen : Nat) (positions : List Nat)
    (matchEnd : Nat) (lookups : List Rec) : M Ctx := do
  let count0 := inputLen + 1
  let positions := if count0 > positions.length then resizeNat positions count0 else positions
  let bl := if c.buf.haveOutput then c.buf.outLen else c.buf.idx
  let delta0 : Int := (bl : Int) - (c.buf.idx : Int)
  let positions := positions.mapIdx (fun j (p : Nat) => if j < count0 then (Int.ofNat p + delta0).toNat else p)
  let end0 : Int := (bl : Int) + (matchEnd : Int) - (c.buf.idx : Int)
  let rec loop (c : Ctx) (positions : List Nat) (count : Nat) (endv : Int) : List Rec → M (Ctx × Int)
    | [] => pure (c, endv)
    | (seqIdx, lookupIdx) :: rest => do
        if !c.buf.successful then return (c, endv)
        if seqIdx ≥ count then return ← loop c positions count endv rest
        let blen (b : Buf) : Nat := (if b.haveOutput then b.outLen else b.idx) + (b.len - b.idx)
        let origLen := blen c.buf
        let pi ← getPos positions seqIdx
        if pi ≥ origLen then return ← loop c positions count endv rest
        let (b, ok) ← c.buf.moveTo pi
        let c := { c with buf := b }
        if !ok then return (c, endv)
        if c.buf.maxOps ≤ 0 then return (c, endv)
        let (c, applied) ← recurse c lookupIdx
        if !applied then return ← loop c positions count endv rest
        let newLen := blen c.buf
        let mut delta : Int := (newLen : Int) - (origLen : Int)
        if delta == 0 then return ← loop c positions count endv rest
        let mut endv := endv + delta
        if endv < (pi : Int) then
          delta := delta + ((pi : Int) - endv)
          endv := (pi : Int)
        let mut next : Int := (seqIdx : Int) + 1
        let mut positions := positions
        if delta > 0 then
          if delta.toNat + count > MAX_CONTEXT_LENGTH then return (c, endv)
          if delta.toNat + count > positions.length then
            let innerMax := (max 4 positions.length) * 3 / 2
            positions := resizeNat positions (max (delta.toNat + count) innerMax)
        else
          delta := max delta (next - (count : Int))
          next := next - delta
        -- Shift!
        positions ← copyWithinNat positions next.toNat count (next + delta).toNat
        next := next + delta
        let count' := ((count : Int) + delta).toNat
        -- Fill in new entries.
        let rec fill (l : List Nat) (j : Nat) : Nat → M (List Nat)
          | 0 => pure l
          | k + 1 =>
              if (j : Int) < next then do
                let p ← getPos l (j - 1)
                if j < l.length then fill (l.set j (p + 1)) (j + 1) k else throw .oob
              else pure l
        positions ← fill positions (seqIdx + 1) (next.toNat + 1)
        -- And fixup the rest.
        positions := positions.mapIdx (fun j (p : Nat) => if next.toNat ≤ j && j < count' then (Int.ofNat p + delta).toNat else p)
        loop c positions count' endv rest
  let (c, endv) ← loop c positions count0 end0 lookups
  let (b, _) ← c.buf.moveTo endv.toNat
  pure { c with buf := b }

/-! ### subtables -/

def nthCov (covs : List Cov) (i : Nat) (g : Nat) : Bool :=
  match covs[i]? with
  | some c => c.contains g
  | none => false          -- `.unwrap()` on a missing coverage cannot happen for parsed tables

/-- common tail of context rules: src: apply_context -/
def applyContextRule (recurse : Ctx → Nat → M (Ctx × Bool)) (c : Ctx) (input : List Nat)
    (matchFn : Nat → Nat → Bool) (lookups : List Rec) : M (Ctx × Bool) := do
  let r ← matchInput c input.length (fun g i => matchFn g (input.getD i 0)) [0, 0, 0, 0]
  if r.ok then
    let b ← c.buf.unsafeToBreak c.buf.idx (some r.endPos)
    let c ← applyLookup recurse { c with buf := b } input.length r.positions r.endPos lookups
    pure (c, true)
  else
    let b ← c.buf.unsafeToConcat c.buf.idx (some r.endPos)
    pure ({ c with buf := b }, false)

/-- src: apply_chain_context (and ChainedContextLookup::Format3) -/
def applyChainRule (recurse : Ctx → Nat → M (Ctx × Bool)) (c : Ctx) (nBack nIn nAhead : Nat)
    (fBack fIn fAhead : Nat → Nat → Bool) (lookups : List Rec) : M (Ctx × Bool) := do
  let r ← matchInput c nIn fIn [0, 0, 0, 0]
  -- on a failed input match `match_end` is the end of the span that was inspected
  let endIndex0 := max r.endPos c.buf.idx
  let (okA, endIndex) ← if r.ok then matchLookahead c nAhead fAhead r.endPos else pure (false, endIndex0)
  if !(r.ok && okA) then
    let b ← c.buf.unsafeToConcat c.buf.idx (some endIndex)
    return ({ c with buf := b }, false)
  let (okB, startIndex) ← matchBacktrack c nBack fBack
  if !okB then
    let b ← c.buf.unsafeToConcatFromOut startIndex (some endIndex)
    return ({ c with buf := b }, false)
  let b ← c.buf.unsafeToBreakFromOut startIndex (some endIndex)
  let c ← applyLookup recurse { c with buf := b } nIn r.positions r.endPos lookups
  pure (c, true)

def firstRule {α} (rules : List α) (c : Ctx) (f : Ctx → α → M (Ctx × Bool)) : M (Ctx × Bool) :=
  match rules with
  | [] => pure (c, false)
  | r :: rest => do
      let (c, ok) ← f c r
      if ok then pure (c, true) else firstRule rest c f

/-- src: the `Apply` impls of the GSUB subtables; `nestingFull` = nesting_level_left == MAX_NESTING_LEVEL -/
def applySubtable (recurse : Ctx → Nat → M (Ctx × Bool)) (nestingFull : Bool) (c : Ctx) : Subtable → M (Ctx × Bool)
  | .single1 cov delta => do
      let cur ← get c.buf.info c.buf.idx
      let g := cur.gid % 65536
      match cov.index g with
      | none => pure (c, false)
      | some _ =>
        let s := (((g : Int) + delta) % 65536).toNat
        let c ← ctxReplaceGlyph c s
        pure (c, true)
  | .single2 cov subst => do
      let cur ← get c.buf.info c.buf.idx
      match cov.index (cur.gid % 65536) with
      | none => pure (c, false)
      | some i => match subst[i]? with
        | none => pure (c, false)
        | some s => do let c ← ctxReplaceGlyph c s; pure (c, true)
  | .multiple cov seqs => do
      let cur ← get c.buf.info c.buf.idx
      match cov.index (cur.gid % 65536) with
      | none => pure (c, false)
      | some i => match seqs[i]? with
        | none => pure (c, false)
        | some [] => do let b ← c.buf.deleteGlyph; pure ({ c with buf := b }, true)
        | some [s] => do let c ← ctxReplaceGlyph c s; pure (c, true)
        | some ss => do
            let cls := if isLigature cur then GP.BASE_GLYPH else 0
            let lid := ligId cur
            let rec loop (c : Ctx) (i : Nat) : List Nat → M Ctx
              | [] => pure c
              | s :: rest => do
                  let c ← if lid == 0 then do
                      let cur ← get c.buf.info c.buf.idx
                      let info ← put c.buf.info c.buf.idx (setLigPropsForMark cur 0 (i % 256))
                      pure { c with buf := { c.buf with info := info } }
                    else pure c
                  let c ← setGlyphClass c s cls false true
                  let b ← c.buf.outputGlyph s
                  loop { c with buf := b } (i + 1) rest
            let c ← loop c 0 ss
            pure ({ c with buf := c.buf.skipGlyph }, true)
  | .alternate cov alts => do
      let cur ← get c.buf.info c.buf.idx
      match cov.index (cur.gid % 65536) with
      | none => pure (c, false)
      | some i => match alts[i]? with
        | none => pure (c, false)
        | some set =>
          if set.isEmpty then pure (c, false) else
          -- trailing_zeros of the lookup mask
          let rec tz (m : Nat) : Nat → Nat
            | 0 => 32
            | k + 1 => if m % 2 == 1 then 32 - (k + 1) else tz (m / 2) k
          let shift := tz c.lookupMask 32
          let alt0 := (c.lookupMask &&& cur.mask) >>> (shift % 32)
          let (c, alt) ← if alt0 == 255 && c.random then do
              let b ← c.buf.unsafeToBreak 0 (some c.buf.len)
              let (c, r) := randomNumber { c with buf := b }
              pure (c, r % set.length + 1)
            else pure (c, alt0)
          if alt ≥ 65536 || alt == 0 then pure (c, false) else
          match set[alt - 1]? with
          | none => pure (c, false)
          | some s => do let c ← ctxReplaceGlyph c s; pure (c, true)
  | .ligature cov sets => do
      let cur ← get c.buf.info c.buf.idx
      match cov.index (cur.gid % 65536) with
      | none => pure (c, false)
      | some i => match sets[i]? with
        | none => pure (c, false)
        | some ligs =>
          firstRule ligs c fun c (comps, lig) => do
            if comps.isEmpty then
              let c ← ctxReplaceGlyph c lig
              pure (c, true)
            else
              let r ← matchInput c comps.length (fun g i => g == comps.getD i 0) [0, 0, 0, 0]
              if !r.ok then
                let b ← c.buf.unsafeToConcat c.buf.idx (some r.endPos)
                pure ({ c with buf := b }, false)
              else
                let c ← ligateInput c (comps.length + 1) r.positions r.endPos r.totalComps lig
                pure (c, true)
  | .context1 cov sets => do
      let cur ← get c.buf.info c.buf.idx
      match cov.index (cur.gid % 65536) with
      | none => pure (c, false)
      | some i => match sets[i]? with
        | none => pure (c, false)
        | some rules => firstRule rules c fun c r => applyContextRule recurse c r.input (fun g v => g == v) r.lookups
  | .context2 cov classes sets => do
      let cur ← get c.buf.info c.buf.idx
      let g := cur.gid % 65536
      match cov.index g with
      | none => pure (c, false)
      | some _ => match sets[classes.get g]? with
        | some (some rules) =>
            firstRule rules c fun c r => applyContextRule recurse c r.input (fun g v => classes.get g == v) r.lookups
        | _ => pure (c, false)
  | .context3 covs lookups => do
      let cur ← get c.buf.info c.buf.idx
      match covs with
      | [] => pure (c, false)
      | cov :: restCovs =>
        match cov.index (cur.gid % 65536) with
        | none => pure (c, false)
        | some _ =>
          let r ← matchInput c restCovs.length (fun g i => nthCov restCovs i g) [0, 0, 0, 0]
          if r.ok then
            let b ← c.buf.unsafeToBreak c.buf.idx (some r.endPos)
            let c ← applyLookup recurse { c with buf := b } restCovs.length r.positions r.endPos lookups
            pure (c, true)
          else
            let b ← c.buf.unsafeToConcat c.buf.idx (some r.endPos)
            pure ({ c with buf := b }, false)
  | .chain1 cov sets => do
      let cur ← get c.buf.info c.buf.idx
      match cov.index (cur.gid % 65536) with
      | none => pure (c, false)
      | some i => match sets[i]? with
        | none => pure (c, false)
        | some rules =>
          let f : Ctx → ChainRule → M (Ctx × Bool) := fun c r =>
            applyChainRule recurse c r.backtrack.length r.input.length r.lookahead.length (fun g i => g == r.backtrack.getD i 0) (fun g i => g == r.input.getD i 0) (fun g i => g == r.lookahead.getD i 0) r.lookups
          firstRule rules c f
  | .chain2 cov bc ic lc sets => do
      let cur ← get c.buf.info c.buf.idx
      let g := cur.gid % 65536
      match cov.index g with
      | none => pure (c, false)
      | some _ => match sets[ic.get g]? with
        | some (some rules) =>
          let f : Ctx → ChainRule → M (Ctx × Bool) := fun c r =>
            applyChainRule recurse c r.backtrack.length r.input.length r.lookahead.length (fun g i => bc.get g == r.backtrack.getD i 0) (fun g i => ic.get g == r.input.getD i 0) (fun g i => lc.get g == r.lookahead.getD i 0) r.lookups
          firstRule rules c f
        | _ => pure (c, false)
  | .chain3 back input ahead lookups => do
      let cur ← get c.buf.info c.buf.idx
      match input with
      | [] => pure (c, false)
      | cov :: restIn =>
        match cov.index (cur.gid % 65536) with
        | none => pure (c, false)
        | some _ =>
          applyChainRule recurse c back.length restIn.length ahead.length (fun g i => nthCov back i g) (fun g i => nthCov restIn i g) (fun g i => nthCov ahead i g) lookups
  | .reverse cov back ahead subst => do
      let cur ← get c.buf.info c.buf.idx
      match cov.index (cur.gid % 65536) with
      | none => pure (c, false)
      | some i =>
        if i ≥ subst.length then pure (c, false)
        else if !nestingFull then pure (c, false)
        else
          let s := subst.getD i 0
          let (okB, startIndex) ← matchBacktrack c back.length (fun g i => nthCov back i g)
          let (okA, endIndex) ← if okB then matchLookahead c ahead.length (fun g i => nthCov ahead i g) (c.buf.idx + 1)
                                else pure (false, c.buf.idx + 1)   -- `let mut end_index = ctx.buffer.idx + 1`
          if okB && okA then
            let b ← c.buf.unsafeToBreakFromOut startIndex (some endIndex)
            let c ← setGlyphClass { c with buf := b } s 0 false false
            let cur ← get c.buf.info c.buf.idx
            let info ← put c.buf.info c.buf.idx { cur with gid := s }
            pure ({ c with buf := { c.buf with info := info } }, true)
          else
            let b ← c.buf.unsafeToConcatFromOut startIndex (some endIndex)
            pure ({ c with buf := b }, false)

/-- src: SubstLookup::apply — first subtable that applies -/
def applySubtables (recurse : Ctx → Nat → M (Ctx × Bool)) (nestingFull : Bool) (c : Ctx) :
    List Subtable → M (Ctx × Bool)
  | [] => pure (c, false)
  | st :: rest => do
      let (c, ok) ← applySubtable recurse nestingFull c st
      if ok then pure (c, true) else applySubtables recurse nestingFull c rest

/-- src: hb_ot_apply_context_t::recurse, with `nesting_level_left` as the structural argument -/
def recurseAt : Nat → Ctx → Nat → M (Ctx × Bool)
  | 0, c, _ => pure ({ c with shapingFailed := true }, false)
  | n + 1, c, lookupIdx => do
      let c := { c with buf := { c.buf with maxOps := c.buf.maxOps - 1 } }
      if c.buf.maxOps < 0 then return ({ c with shapingFailed := true }, false)
      let saved := c.lookupProps
      match c.font.lookups[lookupIdx]? with
      | none => pure (c, false)
      | some l =>
        let c := { c with lookupProps := l.props }
        let (c, ok) ← applySubtables (recurseAt n) false c l.subtables
        pure ({ c with lookupProps := saved }, ok)

/-- top-level application of a lookup at the current position (nesting_level_left = MAX) -/
def applyTop (c : Ctx) (l : Lookup) : M (Ctx × Bool) :=
  applySubtables (recurseAt MAX_NESTING_LEVEL) true c l.subtables

/-- src: ot_layout.rs::apply_forward -/
def applyForward (l : Lookup) : Nat → Ctx → M Ctx
  | 0, c => pure c
  | fuel + 1, c =>
      if c.buf.idx < c.buf.len && c.buf.successful then do
        let cur ← get c.buf.info c.buf.idx
        if cur.mask &&& c.lookupMask != 0 && checkGlyphProperty c.font cur c.lookupProps then
          let (c, ok) ← applyTop c l
          if ok then applyForward l fuel c
          else do let b ← c.buf.nextGlyph; applyForward l fuel { c with buf := b }
        else do let b ← c.buf.nextGlyph; applyForward l fuel { c with buf := b }
      else pure c

/-- src: ot_layout.rs::apply_backward -/
def applyBackward (l : Lookup) : Nat → Ctx → M Ctx
  | 0, c => pure c
  | fuel + 1, c => do
      let cur ← get c.buf.info c.buf.idx
      let c ← if cur.mask &&& c.lookupMask != 0 && checkGlyphProperty c.font cur c.lookupProps then do
          let (c, _) ← applyTop c l; pure c
        else pure c
      if c.buf.idx == 0 then pure c
      else applyBackward l fuel { c with buf := { c.buf with idx := c.buf.idx - 1 } }

/-- src: ot_layout.rs::apply_string.  The forward loop needs no fuel in Rust; here it is bounded by the
    operation budget the code itself enforces (every iteration consumes input or `max_ops`; the driver passes
    a fuel far above any budget and reports exhaustion as a disagreement). -/
def applyString (c : Ctx) (l : Lookup) (fuel : Nat) : M Ctx := do
  if c.buf.len == 0 || c.lookupMask == 0 then return c
  let c := { c with lookupProps := l.props }
  if !l.reverse then
    let c := { c with buf := { c.buf.clearOutput with idx := 0 } }
    let c ← applyForward l fuel c
    let (b, _) ← c.buf.sync
    pure { c with buf := b }
  else
    if c.buf.haveOutput then throw .assert
    let c := { c with buf := { c.buf with idx := c.buf.len - 1 } }
    applyBackward l (c.buf.len + 1) c

/-- one entry of the compiled map: src: ot_map.rs::lookup_map_t -/
structure LookupMap where
  index : Nat
  mask : Nat
  autoZwnj : Bool
  autoZwj : Bool
  random : Bool
  perSyllable : Bool

/-- src: ot_layout.rs::_hb_ot_layout_set_glyph_props (hb_ot_layout_substitute_start) -/
def setGlyphPropsAll (f : Font) (b : Buf) : Buf :=
  { b with info := (b.info.take b.len).map (fun x => setLigProps (setGlyphProps x (f.props (x.gid % 65536))) 0)
                    ++ b.info.drop b.len }

/-- src: ot_layout.rs::apply_layout_table for GSUB with a default-shaper plan (no pause functions):
    the planned lookups run in order. -/
def applyLayoutTable (c : Ctx) (maps : List LookupMap) (fuel : Nat) : M Ctx :=
  match maps with
  | [] => pure c
  | m :: rest => do
      match c.font.lookups[m.index]? with
      | none => applyLayoutTable c rest fuel
      | some l =>
        let c := { c with lookupMask := m.mask, autoZwj := m.autoZwj, autoZwnj := m.autoZwnj,
                          random := m.random, perSyllable := m.perSyllable }
        let c ← applyString c l fuel
        applyLayoutTable c rest fuel

end RbModel.Gsub
