/-
  Model of `src/hb/ot_shape_normalize.rs` (the three normalization rounds of the default shaper)
  and of the Unicode helpers it calls in `src/hb/unicode.rs` (`compose`, `decompose`, Hangul
  arithmetic, `init_unicode_props`).

  Operational: every definition mirrors one Rust function / loop (`src:` comments), including the
  places where the Rust behaviour is questionable.  Representation choices (all of them tested by the
  `norm-run` correspondence stream):

  * the glyph buffer is a zipper: `out` = `out_info()[..out_len]`, `inp` = `info[idx..len]`; whether the
    output is "separate" or aliases `info` is not represented.  `make_room_for` is assumed to succeed:
    `enter()` sets `max_len ≥ 64·len` and no canonical decomposition is longer than 4, so
    `buffer.successful` stays true (the hook reports it and the stream compares it);
  * `unicode_props()` is split into the fields the normalizer reads or writes: `cls` (general category
    as far as it is consulted: 1 = Mn/Mc/Me, 2 = Zs, 0 = anything else), `hi` (high byte: modified ccc,
    ZWJ/ZWNJ bits or space fallback type) and the three flag bits;
  * cluster level is 0 or 1 (`merge_clusters` / `merge_out_clusters` do merge); level 2 is outside;
  * clusters containing a variation selector go through `handle_variation_selector_cluster`
    (`vsLoop`): the face's cmap format 14 subtable is the parameter `Font.variant`, the buffer's
    `not_found_variation_selector.is_some()` is `Font.nfvs`; `replace_glyphs(2, 1)` merges the clusters of
    base and selector, which may relabel records already in the out-buffer and records still to come,
    so the first round threads the whole zipper (`out`, `inp`);
  * `normalize` returns `none` when the recursion budget of `decompose` (which is unbounded in Rust) is
    exhausted.

  Core Lean only, imports nothing outside RbModel (the driver links this file).
-/
import RbModel.Gen.Norm
import RbModel.Gen.Buf

namespace RbModel.Norm

/-- the part of `unicode_props()` (u16) the normalizer reads or writes -/
structure Props where
  /-- 1: general category is Mn/Mc/Me (`is_unicode_mark`), 2: Zs (`is_unicode_space`), 0: other -/
  cls : Nat := 0
  /-- `unicode_props() >> 8` -/
  hi : Nat := 0
  /-- `UnicodeProps::IGNORABLE` -/
  ign : Bool := false
  /-- `UnicodeProps::HIDDEN` -/
  hidden : Bool := false
  /-- `UnicodeProps::CONTINUATION` -/
  cont : Bool := false
deriving DecidableEq, Repr, Inhabited

/-- `hb_glyph_info_t` during normalization: `glyph_id` holds a code point, `var1` is `glyph_index()` -/
structure Info where
  cp : Nat
  mask : Nat
  cluster : Nat
  gidx : Nat
  props : Props
deriving DecidableEq, Repr, Inhabited

/-- constants of the crate (instantiated from `Gen.Norm`) -/
structure Consts where
  maxMarks : Nat
  flagNonAscii : Nat
  flagDI : Nat
  flagSpaceFallback : Nat
  flagCGJ : Nat
  glyphFlagDefined : Nat
  /-- `HB_BUFFER_SCRATCH_FLAG_HAS_VARIATION_SELECTOR_FALLBACK` -/
  flagVSFallback : Nat := 0x80

/-- Unicode data the normalizer consults; theorems quantify over it, the driver and the table
    theorems instantiate it with `genU` (tables dumped from the compiled crate). -/
structure UData where
  /-- `ctx.decompose` (default: `unicode::decompose`); second component 0 = `'\0'` = singleton -/
  decomp : Nat → Option (Nat × Nat)
  /-- `ctx.compose` (default: `unicode::compose`) -/
  comp : Nat → Nat → Option Nat
  isMark : Nat → Bool
  isSpace : Nat → Bool
  isDI : Nat → Bool
  /-- `CharExt::modified_combining_class` -/
  mcc : Nat → Nat
  /-- `CharExt::space_fallback` (0 = NOT_SPACE) -/
  spaceFallback : Nat → Nat
  isVS : Nat → Bool

/-- the font as far as the normalizer sees it -/
structure Font where
  /-- `hb_font_t::get_nominal_glyph` -/
  glyph : Nat → Option Nat
  /-- `buffer.invisible` -/
  invisible : Option Nat := none
  /-- `hb_font_t::glyph_variation_index(base, selector)` (cmap format 14; a default-UVS hit is the
      nominal glyph of the base) -/
  variant : Nat → Nat → Option Nat := fun _ _ => none
  /-- `buffer.not_found_variation_selector.is_some()` -/
  nfvs : Bool := false

def Font.has (F : Font) (c : Nat) : Bool := (F.glyph c).isSome

/-! ## unicode.rs -/

structure Hangul where
  sBase : Nat
  lBase : Nat
  vBase : Nat
  tBase : Nat
  lCount : Nat
  vCount : Nat
  tCount : Nat
  nCount : Nat
  sCount : Nat

/-- src: unicode.rs::compose_hangul  (u32 arithmetic; no wrap for the real constants;
    `char::try_from(r).unwrap()` cannot fail for them either) -/
def composeHangul (H : Hangul) (a b : Nat) : Option Nat :=
  if H.lBase ≤ a ∧ a < H.lBase + H.lCount ∧ H.vBase ≤ b ∧ b < H.vBase + H.vCount then
    some (H.sBase + (a - H.lBase) * H.nCount + (b - H.vBase) * H.tCount)
  else if H.sBase ≤ a ∧ a ≤ H.sBase + H.sCount - H.tCount ∧ H.tBase < b ∧ b < H.tBase + H.tCount
      ∧ (a - H.sBase) % H.tCount = 0 then
    some (a + (b - H.tBase))
  else none

/-- src: unicode.rs::decompose_hangul  (`wrapping_sub` on u32) -/
def decomposeHangul (H : Hangul) (ab : Nat) : Option (Nat × Nat) :=
  let si := (ab + 2 ^ 32 - H.sBase) % 2 ^ 32
  if si ≥ H.sCount then none
  else if si % H.tCount ≠ 0 then
    some (H.sBase + (si / H.tCount) * H.tCount, H.tBase + si % H.tCount)
  else
    some (H.lBase + si / H.nCount, H.vBase + (si % H.nCount) / H.tCount)

/-- `slice::binary_search_by` on a table sorted by its first component, modelled by its documented
    contract (the matching row, if any).  `Lemmas/Norm.lean` has the executable binary search and the
    generic lemma that it agrees with this on strictly sorted tables; `C09_tables_consistent` proves
    the tables are strictly sorted. -/
def lookup {β : Type} (t : List (Nat × β)) (k : Nat) : Option β :=
  (t.find? (fun r => r.1 == k)).map (·.2)

/-- src: unicode.rs::compose -/
def composeU (H : Hangul) (compTab : List (Nat × Nat)) (a b : Nat) : Option Nat :=
  match composeHangul H a b with
  | some ab => some ab
  | none => lookup compTab (a * 2 ^ 32 + b)

/-- src: unicode.rs::decompose -/
def decomposeU (H : Hangul) (decompTab : List (Nat × Nat × Nat)) (ab : Nat) : Option (Nat × Nat) :=
  match decomposeHangul H ab with
  | some r => some r
  | none => lookup decompTab ab

/-- value attached to the range containing `c` in a list of `(lo, hi, v)`, 0 if none -/
def inRanges (t : List (Nat × Nat × Nat)) (c : Nat) : Nat :=
  match t.find? (fun r => r.1 ≤ c && c ≤ r.2.1) with
  | some r => r.2.2
  | none => 0

/-! ## buffer.rs / ot_layout.rs helpers -/

/-- src: ot_layout.rs::_hb_glyph_info_is_unicode_mark -/
def Info.isMark (i : Info) : Bool := i.props.cls == 1

/-- src: ot_layout.rs::_hb_glyph_info_is_unicode_space -/
def Info.isSpace (i : Info) : Bool := i.props.cls == 2

/-- src: ot_layout.rs::_hb_glyph_info_get_modified_combining_class -/
def Info.mcc (i : Info) : Nat := if i.isMark then i.props.hi else 0

/-- src: buffer.rs::hb_glyph_info_t::init_unicode_props  (returns the new props and scratch flags) -/
def initProps (U : UData) (K : Consts) (c : Nat) (flags : Nat) : Props × Nat :=
  let cls := if U.isMark c then 1 else if U.isSpace c then 2 else 0
  if c < 0x80 then ({ cls := cls }, flags)
  else
    let flags := flags ||| K.flagNonAscii
    let r : Props × Nat :=
      if U.isDI c then
        let flags := flags ||| K.flagDI
        if c = 0x200C then ({ cls := cls, ign := true, hi := 2 }, flags)
        else if c = 0x200D then ({ cls := cls, ign := true, hi := 1 }, flags)
        else if (0x180B ≤ c ∧ c ≤ 0x180D) ∨ c = 0x180F then ({ cls := cls, ign := true, hidden := true }, flags)
        else if 0xE0020 ≤ c ∧ c ≤ 0xE007F then ({ cls := cls, ign := true, hidden := true }, flags)
        else if c = 0x034F then ({ cls := cls, ign := true, hidden := true }, flags ||| K.flagCGJ)
        else ({ cls := cls, ign := true }, flags)
      else ({ cls := cls }, flags)
    if cls = 1 then ({ r.1 with cont := true, hi := r.1.hi ||| U.mcc c }, r.2)
    else r

/-- src: buffer.rs::hb_buffer_t::set_cluster (mask argument is 0 at every call site modelled here) -/
def setCluster (K : Consts) (i : Info) (cluster : Nat) : Info :=
  if i.cluster ≠ cluster then
    { i with mask := i.mask &&& ((2 ^ 32 - 1) ^^^ K.glyphFlagDefined), cluster := cluster }
  else i

def minCluster : Nat → List Info → Nat
  | c, [] => c
  | c, x :: xs => minCluster (min c x.cluster) xs

/-- last element of `x :: xs` -/
def lastOf : Info → List Info → Info
  | x, [] => x
  | _, y :: ys => lastOf y ys

/-- the "extend start" loop of `merge_clusters_impl` with `idx = 0`:
    `while idx < start && info[start-1].cluster == info[start].cluster { start -= 1 }`;
    `pre` = `info[0..start]`, `c0` = `info[start].cluster`.  The records reached get `cluster`.
    Also the "continue in out-buffer" loop of the same function (`pre` = `out_info()[..out_len]`). -/
def extendStart (K : Consts) (pre : List Info) (c0 cluster : Nat) : List Info :=
  (pre.reverse.dropWhile (fun i => i.cluster == c0)).reverse ++
    ((pre.reverse.takeWhile (fun i => i.cluster == c0)).reverse).map (setCluster K · cluster)

/-- src: buffer.rs::hb_buffer_t::merge_clusters_impl, for the call made by `sort` (no output buffer:
    `idx = 0`, `out_len = 0`): `pre` = `info[0..start]`, `x :: xs` = `info[start..end]` (at least two
    records), `tl` = `info[end..len]`.  Returns the new three parts.
    The guard of the "extend start" loop is taken from the source through `Gen.Buf.extendStartGuard`
    (0: `end < start`, never true — defect D4; 1: `self.idx < start`, HarfBuzz).  The out-buffer
    continuation finds `out_len = 0`. -/
def mergeClusters (K : Consts) (pre : List Info) (x : Info) (xs : List Info) (tl : List Info) :
    List Info × List Info × List Info :=
  let cluster := minCluster x.cluster xs
  let last := lastOf x xs
  -- Extend end
  let ext := if cluster ≠ last.cluster then tl.takeWhile (fun i => i.cluster == last.cluster) else []
  let rest := tl.drop ext.length
  -- Extend start
  let pre' := if cluster ≠ x.cluster ∧ Gen.Buf.extendStartGuard = 1 then extendStart K pre x.cluster cluster
    else pre
  (pre', (x :: xs).map (setCluster K · cluster), ext.map (setCluster K · cluster) ++ rest)

/-- `info[j..=i]` after `t = info[i]; shift info[j..i] up by one; info[j] = t` -/
def rotateRight1 (r : List Info) : List Info :=
  match r.getLast? with
  | some t => t :: r.dropLast
  | none => r

/-- one iteration of the outer loop of `buffer.rs::hb_buffer_t::sort` with
    `cmp = compare_combining_class` (`a > b` on modified ccc): `pre` = `info[0..start]`,
    `seg` = `info[start..i]` (already sorted), `x` = `info[i]`, `tl` = `info[i+1..len]`.
    Returns the new `info[0..start]`, `info[start..i+1]` and `info[i+1..len]`. -/
def sortStep (K : Consts) (pre seg : List Info) (x : Info) (tl : List Info) :
    List Info × List Info × List Info :=
  -- j = i; while j > start && cmp(info[j-1], info[i]) { j -= 1 }
  let moved := (seg.reverse.takeWhile (fun y => y.mcc > x.mcc)).reverse     -- info[j..i]
  let keep := (seg.reverse.dropWhile (fun y => y.mcc > x.mcc)).reverse      -- info[start..j]
  match moved with
  | [] => (pre, seg ++ [x], tl)           -- i == j: continue
  | m :: ms =>
    -- self.merge_clusters(j, i + 1)
    let r := mergeClusters K (pre ++ keep) m (ms ++ [x]) tl
    -- move item i to occupy place for item j, shift what's in between
    (r.1.take pre.length, r.1.drop pre.length ++ rotateRight1 r.2.1, r.2.2)

/-- src: buffer.rs::hb_buffer_t::sort(start, end, compare_combining_class):
    `pre` = `info[0..start]`, `seg` = the sorted prefix `info[start..i]`, `n` = `end - i`,
    `tl` = `info[i..len]`.  Result: the whole `info[0..len]`. -/
def sortGo (K : Consts) : List Info → List Info → Nat → List Info → List Info
  | pre, seg, 0, tl => pre ++ seg ++ tl
  | pre, seg, _ + 1, [] => pre ++ seg
  | pre, seg, n + 1, x :: tl =>
    let r := sortStep K pre seg x tl
    sortGo K r.1 r.2.1 n r.2.2

/-! ## ot_shape_normalize.rs -/

/-- src: ot_shape_normalize.rs::decompose.  Returns the `(unichar, glyph)` pairs given to
    `output_char`, in order; the Rust return value is the length of that list (0 = did not
    decompose, nothing was output).  `none`: the recursion (unbounded in Rust, it follows the first
    component of the decomposition) did not finish within `fuel` levels. -/
def decompose (U : UData) (F : Font) (shortest : Bool) : Nat → Nat → Option (List (Nat × Nat))
  | 0, _ => none
  | fuel + 1, ab =>
    match U.decomp ab with
    | none => some []
    | some (a, b) =>
      let aGlyph := F.glyph a
      -- b_glyph: `b != '\0'` and no glyph → return 0
      if b ≠ 0 ∧ (F.glyph b).isNone then some []
      else
        let bOut : List (Nat × Nat) :=
          if b ≠ 0 then (match F.glyph b with | some g => [(b, g)] | none => []) else []
        match (if !shortest || aGlyph.isNone then decompose U F shortest fuel a else some []) with
        | none => none
        | some (r :: rs) => some (r :: rs ++ bOut)
        | some [] =>
          match aGlyph with
          | some g => some ((a, g) :: bOut)
          | none => some []

/-- src: ot_shape_normalize.rs::output_char, repeated: every pair becomes a copy of the current
    record with the new code point, glyph index and freshly initialised unicode props. -/
def outputChars (U : UData) (K : Consts) (cur : Info) : List (Nat × Nat) → Nat → List Info × Nat
  | [], flags => ([], flags)
  | (u, g) :: ps, flags =>
    let (p, flags) := initProps U K u flags
    let (rest, flags) := outputChars U K cur ps flags
    ({ cur with cp := u, gidx := g, props := p } :: rest, flags)

/-- src: ot_shape_normalize.rs::decompose_current_character.  Consumes `cur` (= `buffer.cur(0)`),
    returns the records appended to the out-buffer and the scratch flags. -/
def decomposeCurrentCharacter (U : UData) (F : Font) (K : Consts) (fuel : Nat) (shortest : Bool)
    (cur : Info) (flags : Nat) : Option (List Info × Nat) :=
  let u := cur.cp
  let glyph := F.glyph u
  match (if !shortest || glyph.isNone then decompose U F shortest fuel u else some []) with
  | none => none
  | some (p :: ps) => some (outputChars U K cur (p :: ps) flags)   -- then skip_char
  | some [] =>
    match glyph with
    | some g => some ([{ cur with gidx := g }], flags)              -- next_char(glyph)
    | none =>
      let sp := if cur.isSpace then U.spaceFallback u else 0
      match (if sp ≠ 0 then (match F.glyph 0x20 with | some g => some g | none => F.invisible) else none) with
      | some sg =>
        some ([{ cur with gidx := sg, props := { cur.props with hi := sp } }], flags ||| K.flagSpaceFallback)
      | none =>
        match (if u = 0x2011 then F.glyph 0x2010 else none) with
        | some og => some ([{ cur with gidx := og }], flags)
        | none => some ([{ cur with gidx := 0 }], flags)            -- .notdef

/-- `while idx < end { decompose_current_character(ctx, shortest) }` over the records `xs` -/
def decomposeRun (U : UData) (F : Font) (K : Consts) (fuel : Nat) (shortest : Bool) :
    List Info → Nat → Option (List Info × Nat)
  | [], flags => some ([], flags)
  | x :: xs, flags =>
    match decomposeCurrentCharacter U F K fuel shortest x flags with
    | none => none
    | some (o, flags) =>
      match decomposeRun U F K fuel shortest xs flags with
      | none => none
      | some (o', flags) => some (o ++ o', flags)

/-- the `might_short_circuit` fast path of the first round: leading records whose character has a
    glyph get their glyph index and are copied (`next_glyphs(done)`); the rest goes through
    `decompose_current_character`. -/
def simpleRun (U : UData) (F : Font) (K : Consts) (fuel : Nat) (might : Bool) :
    List Info → Nat → Option (List Info × Nat)
  | [], flags => some ([], flags)
  | x :: xs, flags =>
    if might then
      match F.glyph x.cp with
      | some g =>
        match simpleRun U F K fuel might xs flags with
        | none => none
        | some (o, flags) => some ({ x with gidx := g } :: o, flags)
      | none => decomposeRun U F K fuel might (x :: xs) flags
    else decomposeRun U F K fuel might (x :: xs) flags

/-! ### clusters with a variation selector -/

/-- src: ot_shape_normalize.rs::set_glyph -/
def setGlyph (F : Font) (i : Info) : Info :=
  match F.glyph i.cp with
  | some g => { i with gidx := g }
  | none => i

/-- src: ot_layout.rs::_hb_glyph_info_set_variation_selector(info, true): the general category becomes
    Format (`_hb_glyph_info_set_general_category` clears the high byte, keeps bits 5..7), then `CF_VS`
    (0x0400) is set; followed, when `not_found_variation_selector` is set, by
    `_hb_glyph_info_clear_default_ignorable`. -/
def customizeVS (F : Font) (i : Info) : Info :=
  { i with props := { i.props with cls := 0, hi := 4, ign := if F.nfvs then false else i.props.ign } }

/-- src: buffer.rs::hb_buffer_t::merge_clusters_impl(idx, idx + 2) as called by `replace_glyphs(2, 1, ..)`
    while the first round has an out-buffer (cluster level ≠ CHARACTERS): `out` = `out_info()[..out_len]`,
    `a` = `info[idx]`, `b` = `info[idx+1]`, `rest` = `info[idx+2..len]`.
    "Extend end" runs into the records still to come, "extend start" cannot move (`idx < start` is
    false) and continues in the out-buffer. -/
def mergeClusters2 (K : Consts) (out : List Info) (a b : Info) (rest : List Info) :
    List Info × Info × Info × List Info :=
  let cluster := min a.cluster b.cluster
  let n := if cluster ≠ b.cluster then (rest.takeWhile (fun i => i.cluster == b.cluster)).length else 0
  let out' := if a.cluster ≠ cluster then extendStart K out a.cluster cluster else out
  (out', setCluster K a cluster, setCluster K b cluster,
    (rest.take n).map (setCluster K · cluster) ++ rest.drop n)

/-- `// Skip any further variation selectors.`
    `while idx < end && cur(0) is a variation selector { set_glyph(cur(0)); next_glyph() }`;
    `n` = `end - idx`.  Returns the records copied to the out-buffer, the remaining input and `end - idx`. -/
def vsSkip (U : UData) (F : Font) : List Info → Nat → List Info × List Info × Nat
  | x :: inp, n + 1 =>
    if U.isVS x.cp then
      (setGlyph F x :: (vsSkip U F inp n).1, (vsSkip U F inp n).2.1, (vsSkip U F inp n).2.2)
    else ([], x :: inp, n + 1)
  | inp, n => ([], inp, n)

theorem vsSkip_le (U : UData) (F : Font) (inp : List Info) (n : Nat) : (vsSkip U F inp n).2.2 ≤ n := by
  fun_induction vsSkip U F inp n <;> simp_all <;> omega

theorem vsSkip_length (U : UData) (F : Font) (inp : List Info) (n : Nat) :
    (vsSkip U F inp n).2.1.length + (n - (vsSkip U F inp n).2.2) = inp.length := by
  fun_induction vsSkip U F inp n with
  | case1 x inp n h ih =>
    have := vsSkip_le U F inp n
    simp only [List.length_cons]; omega
  | case2 => simp
  | case3 => simp

/-- src: ot_shape_normalize.rs::handle_variation_selector_cluster.  First argument: `end - idx`;
    `out` = `out_info()[..out_len]`, `inp` = `info[idx..len]`.  Returns the new out-buffer, the remaining
    input `info[end..len]` (its clusters may have been merged into the cluster of a base + selector pair
    the font has a variant for) and the scratch flags. -/
def vsLoop (U : UData) (F : Font) (K : Consts) : Nat → List Info → List Info → Nat → List Info × List Info × Nat
  | n + 2, out, a :: b :: rest, flags =>            -- while idx < end - 1
    if U.isVS b.cp then
      match F.variant a.cp b.cp with
      | some g =>
        -- cur_mut(0).set_glyph_index(variant); replace_glyphs(2, 1, &[unicode]); then skip further selectors
        vsLoop U F K (vsSkip U F (mergeClusters2 K out { a with gidx := g } b rest).2.2.2 n).2.2
          ((mergeClusters2 K out { a with gidx := g } b rest).1 ++
            (mergeClusters2 K out { a with gidx := g } b rest).2.1 ::
              (vsSkip U F (mergeClusters2 K out { a with gidx := g } b rest).2.2.2 n).1)
          (vsSkip U F (mergeClusters2 K out { a with gidx := g } b rest).2.2.2 n).2.1 flags
      | none =>
        -- Just pass on the two characters separately, let GSUB do its magic; then skip further selectors
        vsLoop U F K (vsSkip U F rest n).2.2
          (out ++ setGlyph F a :: setGlyph F (customizeVS F b) :: (vsSkip U F rest n).1)
          (vsSkip U F rest n).2.1 (flags ||| K.flagVSFallback)
    else vsLoop U F K (n + 1) (out ++ [setGlyph F a]) (b :: rest) flags
  | 1, out, a :: rest, flags => (out ++ [setGlyph F a], rest, flags)   -- if idx < end
  | _, out, inp, flags => (out, inp, flags)
termination_by n => n
decreasing_by
  · have := vsSkip_le U F (mergeClusters2 K out { a with gidx := g } b rest).2.2.2 n; omega
  · have := vsSkip_le U F rest n; omega
  · omega

/-- src: ot_shape_normalize.rs::decompose_multi_char_cluster.  `n` = `end - idx` (the cluster is
    `inp.take n`); only the cluster itself is scanned for a variation selector. -/
def multiCharCluster (U : UData) (F : Font) (K : Consts) (fuel : Nat) (always : Bool)
    (out inp : List Info) (n : Nat) (flags : Nat) : Option (List Info × List Info × Nat) :=
  if (inp.take n).any (fun i => U.isVS i.cp) then some (vsLoop U F K n out inp flags)
  else
    match decomposeRun U F K fuel always (inp.take n) flags with
    | none => none
    | some (o, flags) => some (out ++ o, inp.drop n, flags)

/-- `(init, last)` of `x :: ys` -/
def splitLast : Info → List Info → List Info × Info
  | x, [] => ([], x)
  | x, y :: ys => let r := splitLast y ys; (x :: r.1, r.2)

theorem length_dropWhile_le (p : Info → Bool) (l : List Info) : (l.dropWhile p).length ≤ l.length := by
  induction l with
  | nil => simp
  | cons a l ih => simp only [List.dropWhile_cons]; split <;> simp <;> omega

theorem length_takeWhile_le (p : Info → Bool) (l : List Info) : (l.takeWhile p).length ≤ l.length := by
  induction l with
  | nil => simp
  | cons a l ih => simp only [List.takeWhile_cons]; split <;> simp <;> omega

theorem length_mergeClusters2 (K : Consts) (out : List Info) (a b : Info) (rest : List Info) :
    (mergeClusters2 K out a b rest).2.2.2.length = rest.length := by
  simp only [mergeClusters2, List.length_append, List.length_map, List.length_take, List.length_drop]
  split
  · have := length_takeWhile_le (fun i : Info => i.cluster == b.cluster) rest
    omega
  · omega

/-- the variation-selector round consumes exactly the cluster -/
theorem length_vsLoop (U : UData) (F : Font) (K : Consts) (n : Nat) (out inp : List Info) (flags : Nat)
    (h : n ≤ inp.length) : (vsLoop U F K n out inp flags).2.1.length = inp.length - n := by
  fun_induction vsLoop U F K n out inp flags with
  | case1 n out a b rest flags hvs g hg ih =>
    have h1 := vsSkip_length U F (mergeClusters2 K out { a with gidx := g } b rest).2.2.2 n
    have h2 := vsSkip_le U F (mergeClusters2 K out { a with gidx := g } b rest).2.2.2 n
    have h3 := length_mergeClusters2 K out { a with gidx := g } b rest
    simp only [List.length_cons] at h
    rw [ih (by omega)]
    simp only [List.length_cons]
    omega
  | case2 n out a b rest flags hvs hg ih =>
    have h1 := vsSkip_length U F rest n
    have h2 := vsSkip_le U F rest n
    simp only [List.length_cons] at h
    rw [ih (by omega)]
    simp only [List.length_cons]
    omega
  | case3 n out a b rest flags hvs ih =>
    simp only [List.length_cons] at h
    rw [ih (by simp only [List.length_cons]; omega)]
    simp only [List.length_cons]
    omega
  | case4 out a rest flags => simp
  | case5 n out inp flags h1 h2 =>
    match n, inp with
    | 0, _ => simp
    | 1, [] => simp at h
    | 1, a :: rest => exact absurd rfl (h2 a rest rfl)
    | n + 2, [] => simp at h
    | n + 2, [a] => simp at h
    | n + 2, a :: b :: rest => exact absurd rfl (h1 n a b rest rfl)

theorem length_multiCharCluster (U : UData) (F : Font) (K : Consts) (fuel : Nat) (always : Bool)
    (out inp : List Info) (n flags : Nat) (r : List Info × List Info × Nat) (hn : n ≤ inp.length)
    (h : multiCharCluster U F K fuel always out inp n flags = some r) : r.2.1.length = inp.length - n := by
  unfold multiCharCluster at h
  split at h
  · cases h; exact length_vsLoop U F K n out inp flags hn
  · split at h
    · cases h
    · cases h; simp

/-- src: ot_shape_normalize.rs::_hb_ot_shape_normalize, "First round, decompose" (the `loop`).
    `out` = `out_info()[..out_len]`, the second list is `info[idx..count]`; returns the out-buffer at the
    end of the round, the flags and `all_simple`. -/
def round1 (U : UData) (F : Font) (K : Consts) (fuel : Nat) (might always : Bool) :
    List Info → List Info → Nat → Bool → Option (List Info × Nat × Bool)
  | out, [], flags, allSimple => some (out, flags, allSimple)
  | out, x :: rest, flags, allSimple =>
    -- end = idx + 1; while end < count && !is_unicode_mark(info[end]) { end += 1 }
    let ys := rest.takeWhile (fun i => !i.isMark)
    match h : rest.dropWhile (fun i => !i.isMark) with
    | [] =>
      -- end == count: everything left is simple
      match simpleRun U F K fuel might (x :: ys) flags with
      | none => none
      | some (o, flags) => some (out ++ o, flags, allSimple)
    | z :: zs =>
      -- end < count: leave one base for the marks to cluster with
      let sl := splitLast x ys
      match simpleRun U F K fuel might sl.1 flags with
      | none => none
      | some (o1, flags) =>
        -- all_simple = false; find all the marks now: end - idx
        let n := 1 + ((z :: zs).takeWhile (fun i => i.isMark)).length
        match h2 : multiCharCluster U F K fuel always (out ++ o1) (sl.2 :: z :: zs) n flags with
        | none => none
        | some r =>
          have : r.2.1.length < (x :: rest).length := by
            have h0 := length_takeWhile_le (fun i : Info => i.isMark) (z :: zs)
            have h1 := length_multiCharCluster U F K fuel always (out ++ o1) (sl.2 :: z :: zs) n flags r
              (by simp only [List.length_cons] at h0 ⊢; omega) h2
            have h3 := length_dropWhile_le (fun i => !i.isMark) rest
            rw [h] at h3
            simp only [List.length_cons] at *
            omega
          round1 U F K fuel might always r.1 r.2.1 r.2.2 false
termination_by _ inp => inp.length

theorem length_extendStart (K : Consts) (pre : List Info) (c0 cluster : Nat) :
    (extendStart K pre c0 cluster).length = pre.length := by
  unfold extendStart
  have h := congrArg List.length (List.takeWhile_append_dropWhile (p := fun i : Info => i.cluster == c0)
    (l := pre.reverse))
  simp only [List.length_append, List.length_reverse] at h
  simp only [List.length_append, List.length_reverse, List.length_map]
  omega

theorem length_mergeClusters (K : Consts) (pre : List Info) (x : Info) (xs tl : List Info) :
    (mergeClusters K pre x xs tl).1.length = pre.length ∧
    (mergeClusters K pre x xs tl).2.1.length = xs.length + 1 ∧
    (mergeClusters K pre x xs tl).2.2.length = tl.length := by
  simp only [mergeClusters]
  refine ⟨?_, by simp, ?_⟩
  · split
    · exact length_extendStart _ _ _ _
    · rfl
  · split
    · simp only [List.length_append, List.length_map, List.length_drop]
      have := length_takeWhile_le (fun i : Info => i.cluster == (lastOf x xs).cluster) tl
      omega
    · simp

theorem length_rotateRight1 (r : List Info) : (rotateRight1 r).length = r.length := by
  unfold rotateRight1
  cases h : r.getLast? with
  | none => rfl
  | some t =>
    have hne : r ≠ [] := by intro h0; subst h0; simp at h
    simp only [List.length_cons, List.length_dropLast]
    have := List.length_pos_iff.mpr hne
    omega

theorem length_sortStep (K : Consts) (pre seg : List Info) (x : Info) (tl : List Info) :
    (sortStep K pre seg x tl).1.length = pre.length ∧
    (sortStep K pre seg x tl).2.1.length = seg.length + 1 ∧
    (sortStep K pre seg x tl).2.2.length = tl.length := by
  unfold sortStep
  simp only
  split
  · simp
  · rename_i m ms hm
    have hsplit : seg.reverse = seg.reverse.takeWhile (fun y => y.mcc > x.mcc) ++
        seg.reverse.dropWhile (fun y => y.mcc > x.mcc) := List.takeWhile_append_dropWhile.symm
    have hlen := congrArg List.length hsplit
    have hm' := congrArg List.length hm
    simp only [List.length_reverse, List.length_append, List.length_cons] at hlen hm'
    have hmc := length_mergeClusters K
      (pre ++ (seg.reverse.dropWhile (fun y => y.mcc > x.mcc)).reverse) m (ms ++ [x]) tl
    simp only [List.length_append, List.length_reverse, List.length_cons, List.length_nil] at hmc
    refine ⟨?_, ?_, hmc.2.2⟩
    · simp only [List.length_take, hmc.1]; omega
    · simp only [List.length_append, List.length_drop, length_rotateRight1, hmc.1, hmc.2.1]; omega

theorem length_sortGo (K : Consts) (pre seg : List Info) (n : Nat) (tl : List Info) (h : n ≤ tl.length) :
    (sortGo K pre seg n tl).length = pre.length + seg.length + tl.length := by
  induction n generalizing pre seg tl with
  | zero => simp [sortGo]; omega
  | succ n ih =>
    cases tl with
    | nil => simp at h
    | cons x tl =>
      simp only [sortGo]
      have hs := length_sortStep K pre seg x tl
      rw [ih]
      · rw [hs.1, hs.2.1, hs.2.2]; simp; omega
      · rw [hs.2.2]; simpa using h

/-- `buffer.sort(i, end, compare_combining_class)` guarded by `end - i <= MAX_COMBINING_MARKS`;
    `pre` = `info[0..i]`, `l` = `info[i..count]`, `n` = `end - i`; result: the whole buffer -/
def sortRun (K : Consts) (pre : List Info) (n : Nat) (l : List Info) : List Info :=
  if n ≤ K.maxMarks then sortGo K pre [] n l else pre ++ l

theorem length_sortRun (K : Consts) (pre : List Info) (n : Nat) (l : List Info) (h : n ≤ l.length) :
    (sortRun K pre n l).length = pre.length + l.length := by
  unfold sortRun
  split
  · rw [length_sortGo K pre [] n l h]; simp
  · simp

/-- length of the run of records with non-zero modified ccc starting at `x` (`end - i`) -/
def runLen (r : List Info) : Nat := 1 + (r.takeWhile (fun i => i.mcc ≠ 0)).length

theorem runLen_le (x : Info) (r : List Info) : runLen r ≤ (x :: r).length := by
  have := length_takeWhile_le (fun i : Info => i.mcc ≠ 0) r
  simp only [runLen, List.length_cons]; omega

/-- src: _hb_ot_shape_normalize, "Second round, reorder (inplace)": `pre` = `info[0..i]`, the second
    argument is `info[i..count]`; result: the whole buffer.
    Records with modified ccc 0 are skipped; a maximal run of non-zero ones is sorted when it has at most
    `MAX_COMBINING_MARKS` records (`reorder_marks` is `None` for the default shaper; the sort may relabel
    clusters before and after the run); then `i = end + 1`. -/
def round2 (K : Consts) : List Info → List Info → List Info
  | pre, [] => pre
  | pre, x :: r =>
    if x.mcc = 0 then round2 K (pre ++ [x]) r
    else
      round2 K ((sortRun K pre (runLen r) (x :: r)).take (pre.length + runLen r + 1))
        ((sortRun K pre (runLen r) (x :: r)).drop (pre.length + runLen r + 1))
termination_by _ l => l.length
decreasing_by
  · simp
  · rw [List.length_drop, length_sortRun K _ _ _ (runLen_le x r)]
    simp only [List.length_cons]; omega

/-- src: hb_glyph_info_t::unhide -/
def Info.unhide (i : Info) : Info := { i with props := { i.props with hidden := false } }

/-- the CGJ loop body for `info[i]` = `x` with neighbours `p`, `y` -/
def cgjGo : Info → List Info → List Info
  | _, [] => []
  | _, [x] => [x]
  | p, x :: y :: r =>
    (if x.cp = 0x034F ∧ (y.mcc = 0 ∨ p.mcc ≤ y.mcc) then x.unhide else x) :: cgjGo x (y :: r)

/-- src: _hb_ot_shape_normalize, the `HAS_CGJ` loop `for i in 1..len-1` (unhiding does not change any
    modified ccc, so the neighbours can be read from the unmodified list) -/
def cgjRound : List Info → List Info
  | [] => []
  | x :: r => x :: cgjGo x r

/-- src: buffer.rs::hb_buffer_t::merge_out_clusters(starter, out_len) as called by the third round,
    cluster level ≠ CHARACTERS.  `pre ++ s :: mid` = `out_info()[..out_len]` with `s` at index `starter`
    (`mid` non-empty: it ends with the mark just copied), `rest` = `info[idx..len]`. -/
def mergeOutClusters (K : Consts) (pre : List Info) (s : Info) (mid : List Info) (rest : List Info) :
    List Info × Info × List Info × List Info :=
  let cluster := minCluster s.cluster mid
  -- Extend start
  let k := (pre.reverse.takeWhile (fun i => i.cluster == s.cluster)).length
  let keep := pre.take (pre.length - k)
  let ext := pre.drop (pre.length - k)
  -- Extend end: end == out_len already.  Continue in the in-buffer.
  let last := lastOf s mid
  let n := (rest.takeWhile (fun i => i.cluster == last.cluster)).length
  let rest' := (rest.take n).map (setCluster K · cluster) ++ rest.drop n
  (keep ++ ext.map (setCluster K · cluster), setCluster K s cluster, mid.map (setCluster K · cluster), rest')

theorem length_mergeOutClusters (K : Consts) (pre : List Info) (s : Info) (mid rest : List Info) :
    (mergeOutClusters K pre s mid rest).2.2.2.length = rest.length := by
  simp only [mergeOutClusters, List.length_append, List.length_map, List.length_take, List.length_drop]
  have := length_takeWhile_le (fun i : Info => i.cluster == (lastOf s mid).cluster) rest
  omega

/-- `starter == out_len - 1 || mcc(prev) < mcc(cur)`; `mid` = the out-buffer after the starter -/
def unblocked (mid : List Info) (cur : Info) : Bool :=
  match mid.getLast? with
  | none => true
  | some prev => decide (prev.mcc < cur.mcc)

/-- `(ctx.compose)(a, b)` is defined and `face.get_nominal_glyph` maps the result: `(composed, glyph)` -/
def composeMapped (U : UData) (F : Font) (a b : Nat) : Option (Nat × Nat) :=
  match U.comp a b with
  | some c => (match F.glyph c with | some g => some (c, g) | none => none)
  | none => none

/-- src: _hb_ot_shape_normalize, "Third round, recompose": the `while buffer.idx < count` loop.
    `pre ++ s :: mid` = `out_info()[..out_len]` with `s = out_info()[starter]`; `inp` = `info[idx..count]`. -/
def round3Go (U : UData) (F : Font) (K : Consts) :
    List Info → List Info → Info → List Info → Nat → List Info × Nat
  | [], pre, s, mid, flags => (pre ++ s :: mid, flags)
  | cur :: rest, pre, s, mid, flags =>
    match (if cur.isMark && unblocked mid cur then composeMapped U F s.cp cur.cp else none) with
    | some (c, g) =>
      -- next_glyph(); merge_out_clusters(starter, out_len); out_len -= 1
      let r := mergeOutClusters K pre s (mid ++ [cur]) rest
      have : r.2.2.2.length < (cur :: rest).length := by
        rw [length_mergeOutClusters]; simp
      -- modify starter and carry on
      let pf := initProps U K c flags
      round3Go U F K r.2.2.2 r.1 { r.2.1 with cp := c, gidx := g, props := pf.1 } r.2.2.1.dropLast pf.2
    | none =>
      -- blocked, or doesn't compose: next_glyph(); if mcc(prev) == 0 { starter = out_len - 1 }
      if cur.mcc = 0 then round3Go U F K rest (pre ++ s :: mid) cur [] flags
      else round3Go U F K rest pre s (mid ++ [cur]) flags
termination_by inp => inp.length

/-- src: _hb_ot_shape_normalize, third round including the initial `next_glyph()` with `starter = 0` -/
def round3 (U : UData) (F : Font) (K : Consts) : List Info → Nat → List Info × Nat
  | [], flags => ([], flags)
  | x :: rest, flags => round3Go U F K rest [] x [] flags

/-- src: ot_shape_normalize.rs::_hb_ot_shape_normalize.  `mode` = `plan.shaper.normalization_preference`
    (0 none, 1 decomposed, 2 composed diacritics, 3 composed diacritics no short circuit, 4 auto).
    Input: the buffer records (unicode props initialised) and the scratch flags; output likewise. -/
def normalize (U : UData) (F : Font) (K : Consts) (fuel : Nat) (pref : Nat) (buf : List Info) (flags : Nat) :
    Option (List Info × Nat) :=
  if buf.isEmpty then some (buf, flags)
  else
    -- AUTO → COMPOSED_DIACRITICS (both branches of the `has_gpos_mark` test)
    let mode := if pref = 4 then 2 else pref
    let always := mode == 0
    let might := always || (mode != 1 && mode != 3)
    match round1 U F K fuel might always [] buf flags true with
    | none => none
    | some (l, flags, allSimple) =>
      let l := if !allSimple then round2 K [] l else l
      let l := if flags &&& K.flagCGJ ≠ 0 then cgjRound l else l
      if !allSimple && (mode == 2 || mode == 3) then some (round3 U F K l flags)
      else some (l, flags)

/-! ## instantiation with the crate's tables -/

def genH : Hangul :=
  { sBase := Gen.Norm.sBase, lBase := Gen.Norm.lBase, vBase := Gen.Norm.vBase, tBase := Gen.Norm.tBase,
    lCount := Gen.Norm.lCount, vCount := Gen.Norm.vCount, tCount := Gen.Norm.tCount,
    nCount := Gen.Norm.nCount, sCount := Gen.Norm.sCount }

def genK : Consts :=
  { maxMarks := Gen.Norm.maxCombiningMarks, flagNonAscii := Gen.Norm.flagNonAscii, flagDI := Gen.Norm.flagDI,
    flagSpaceFallback := Gen.Norm.flagSpaceFallback, flagCGJ := Gen.Norm.flagCGJ,
    glyphFlagDefined := Gen.Norm.glyphFlagDefined, flagVSFallback := Gen.Norm.flagVSFallback }

def genU : UData :=
  { decomp := decomposeU genH Gen.Norm.decompTable
    comp := composeU genH Gen.Norm.compTable
    isMark := fun c => inRanges Gen.Norm.markRanges c != 0
    isSpace := fun c => inRanges Gen.Norm.zsRanges c != 0
    isDI := fun c => inRanges Gen.Norm.diRanges c != 0
    mcc := inRanges Gen.Norm.mccRanges
    spaceFallback := inRanges Gen.Norm.sfbRanges
    isVS := fun c => inRanges Gen.Norm.vsRanges c != 0 }

/-- recursion budget used by the driver; `C09_tables_consistent` shows 5 levels suffice for `genU` -/
def genFuel : Nat := 8

end RbModel.Norm
