/-
  Model of `src/hb/common.rs` (`Feature::new`, `Feature::is_global`, `impl FromStr for Feature`) and of the
  parts of `src/hb/text_parser.rs` the feature parser uses.
  Operational: the parser works on the remaining bytes (Rust: `pos` into `text.as_bytes()`), one model
  function per `TextParser` method, in the order the Rust code calls them (including the places where
  the Rust parser advances and then fails).  Core Lean only.
-/
namespace RbModel.Feature

def U32MAX : Nat := 4294967295

/-- `core::ops::Bound<usize>` -/
inductive Bound where
  | included (n : Nat)
  | excluded (n : Nat)
  | unbounded
  deriving DecidableEq, Repr

/-- `rustybuzz::Feature` (`end` is a keyword in Lean: `stop`) -/
structure Feature where
  tag : Nat
  value : Nat
  start : Nat
  stop : Nat
  deriving DecidableEq, Repr

/-- src: common.rs::Feature::new  (`saturating_sub`, `min`, `as u32` after the `min`) -/
def new (tag value : Nat) (s e : Bound) : Feature :=
  let max := U32MAX
  let start := match s with
    | .included a => min a max
    | .excluded a => min a (max - 1) + 1
    | .unbounded => 0
  let stop := match e with
    | .included b => min b max
    | .excluded b => min (b - 1) max
    | .unbounded => max
  ⟨tag, value, start, stop⟩

/-- src: common.rs::Feature::is_global -/
def isGlobal (f : Feature) : Bool := f.start == 0 && f.stop == U32MAX

/-- The set of cluster values a feature acts on, as every consumer reads the two fields
    (src: ot_shape.rs::setup_masks + buffer.rs::hb_buffer_t::set_masks; ot_shape.rs::collect_features
    for the global case): global features act everywhere, otherwise `start <= cluster < end`. -/
def covers (f : Feature) (cluster : Nat) : Prop :=
  isGlobal f = true ∨ (f.start ≤ cluster ∧ cluster < f.stop)

instance (f : Feature) (c : Nat) : Decidable (covers f c) := by unfold covers; infer_instance

/-- membership of an index in a Rust range given by its two bounds (`RangeBounds::contains`) -/
def Bound.mem (s e : Bound) (i : Nat) : Prop :=
  (match s with
    | .included a => a ≤ i
    | .excluded a => a < i
    | .unbounded => True) ∧
  (match e with
    | .included b => i ≤ b
    | .excluded b => i < b
    | .unbounded => True)

instance (s e : Bound) (i : Nat) : Decidable (Bound.mem s e i) := by
  unfold Bound.mem; cases s <;> cases e <;> infer_instance

/-! ### text_parser.rs -/

abbrev Bytes := List Nat

/-- `u8::is_ascii_whitespace`: space, \t, \n, form feed, \r (not \v) -/
def isSpace (c : Nat) : Bool := c == 32 || c == 9 || c == 10 || c == 12 || c == 13
def isDigit (c : Nat) : Bool := 48 ≤ c && c ≤ 57
def isAlpha (c : Nat) : Bool := (65 ≤ c && c ≤ 90) || (97 ≤ c && c ≤ 122)
/-- the predicate of `consume_tag`: `is_ascii_alphanumeric() || c == b'_'` -/
def isTagChar (c : Nat) : Bool := isAlpha c || isDigit c || c == 95
def toLower (c : Nat) : Nat := if 65 ≤ c && c ≤ 90 then c + 32 else c

/-- src: text_parser.rs::TextParser::skip_spaces -/
def skipSpaces (s : Bytes) : Bytes := s.dropWhile isSpace

/-- src: text_parser.rs::TextParser::consume_byte -/
def consumeByte (c : Nat) : Bytes → Option Bytes
  | d :: r => if d = c then some r else none
  | [] => none

/-- src: text_parser.rs::TextParser::consume_quote -/
def consumeQuote : Bytes → Option Nat × Bytes
  | c :: r => if c = 39 ∨ c = 34 then (some c, r) else (none, c :: r)
  | [] => (none, [])

/-- `ttf_parser::Tag::from_bytes_lossy` -/
def tagFromBytesLossy (t : Bytes) : Nat :=
  match t with
  | [] => 0
  | _ =>
    let b (i : Nat) : Nat := (t[i]?).getD 32
    ((b 0 * 256 + b 1) * 256 + b 2) * 256 + b 3

/-- src: text_parser.rs::TextParser::consume_tag -/
def consumeTag (s : Bytes) : Option (Nat × Bytes) :=
  let t := s.takeWhile isTagChar
  if t.length > 4 then none else some (tagFromBytesLossy t, s.dropWhile isTagChar)

def digitsValue (ds : Bytes) : Nat := ds.foldl (fun acc d => acc * 10 + (d - 48)) 0

/-- `str::parse::<i32>` on an optional sign followed by digits only (what `consume_i32` slices out):
    no digit → error; out of the i32 range → error. -/
def parseI32 (neg : Bool) (ds : Bytes) : Option Int :=
  if ds.isEmpty then none
  else
    let n := digitsValue ds
    if neg then (if n ≤ 2147483648 then some (-(n : Int)) else none)
    else (if n ≤ 2147483647 then some (n : Int) else none)

/-- the optional sign of `consume_i32`: (is negative, rest) -/
def consumeSign : Bytes → Bool × Bytes
  | 45 :: r => (true, r)
  | 43 :: r => (false, r)
  | s => (false, s)

/-- src: text_parser.rs::TextParser::consume_i32 — the position advances over sign and digits even
    when the result is `None`. -/
def consumeI32 (s : Bytes) : Option Int × Bytes :=
  let p := consumeSign s
  (parseI32 p.1 (p.2.takeWhile isDigit), p.2.dropWhile isDigit)

/-- src: text_parser.rs::TextParser::consume_bool — skips spaces, consumes letters, even on failure. -/
def consumeBool (s : Bytes) : Option Bool × Bytes :=
  let s := skipSpaces s
  let w := s.takeWhile isAlpha
  let r := s.dropWhile isAlpha
  let v := match w with
    | [a, b] => if toLower a = 111 ∧ toLower b = 110 then some true else none
    | [a, b, c] => if toLower a = 111 ∧ toLower b = 102 ∧ toLower c = 102 then some false else none
    | _ => none
  (v, r)

/-- `i32 as u32` -/
def toU32 (v : Int) : Nat := (v % 4294967296).toNat

/-- the part of the index after the start number: `:end` / `;end`, or nothing (then `start + 1`, or MAX
    when there was no start number or it was u32::MAX) -/
def parseIndexEnd (startOpt : Option Int) (s : Bytes) : Nat × Bytes :=
  match s with
  | 58 :: r | 59 :: r =>
      let e := consumeI32 r
      (toU32 (e.1.getD (-1)), e.2)
  | _ => (if startOpt.isSome ∧ toU32 (startOpt.getD 0) ≠ U32MAX then toU32 (startOpt.getD 0) + 1 else U32MAX, s)

/-- the `[start:end]` part of `from_str` -/
def parseIndices (s : Bytes) : Option (Nat × Nat × Bytes) :=
  match consumeByte 91 s with
  | none => some (0, U32MAX, s)
  | some s =>
    let a := consumeI32 s
    let e := parseIndexEnd a.1 a.2
    match consumeByte 93 e.2 with
    | none => none
    | some s => some (toU32 (a.1.getD 0), e.1, s)

/-- the `=value` part of `from_str`, up to and including the end-of-input test -/
def parseValue (dflt : Nat) (s : Bytes) : Option Nat :=
  let (hadEq, s) := match consumeByte 61 s with
    | some r => (true, r)
    | none => (false, s)
  let (v, s) := consumeI32 s
  let (v, s) := match v with
    | some v => (some v, s)
    | none =>
        let (b, r) := consumeBool s
        (b.map (fun (x : Bool) => if x then (1 : Int) else 0), r)
  if hadEq ∧ v.isNone then none
  else
    let value := match v with
      | some v => toU32 v
      | none => dflt
    if (skipSpaces s).isEmpty then some value else none

/-- the `+`/`-` prefix of `from_str`: (default value, rest) -/
def parsePrefix : Bytes → Nat × Bytes
  | 45 :: r => (0, r)
  | 43 :: r => (1, r)
  | s => (1, s)

/-- "Force closing quote." -/
def closeQuote (q : Option Nat) (s : Bytes) : Option Bytes :=
  match q with
  | some q => consumeByte q s
  | none => some s

/-- spaces, optional quote, tag, closing quote, spaces -/
def parseTag (s : Bytes) : Option (Nat × Bytes) :=
  let q := consumeQuote (skipSpaces s)
  match consumeTag q.2 with
  | none => none
  | some ts =>
    match closeQuote q.1 ts.2 with
    | none => none
    | some s => some (ts.1, skipSpaces s)

/-- the prefix, tag and closing quote of `from_str` -/
def parseHead (s : Bytes) : Option (Nat × Nat × Bytes) :=
  let p := parsePrefix s
  match parseTag p.2 with
  | none => none
  | some t => some (p.1, t.1, t.2)

/-- src: common.rs::<Feature as FromStr>::from_str (inner `parse`) -/
def parse (s : Bytes) : Option Feature :=
  if s.isEmpty then none
  else
    match parseHead s with
    | none => none
    | some (dflt, tag, s) =>
      match parseIndices s with
      | none => none
      | some (start, stop, s) =>
        match parseValue dflt s with
        | none => none
        | some value => some ⟨tag, value, start, stop⟩

end RbModel.Feature
