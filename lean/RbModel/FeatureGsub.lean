/-
  The GSUB part of `shape()` for the default shaper, left to right, on private-use text, for a font with ARBITRARY
  GSUB lookups (all types, both drivers): the composition of the feature → mask compiler (`Map.lean`: plan, global mask,
  `setup_masks` of the user's ranged features) with the lookup interpreter (`Gsub.lean`: `apply_layout_table`,
  `apply_string`, `apply_forward` / `apply_backward` and every subtable type).
  Operational: mirrors src/hb/ot_shape.rs::shape_internal for that configuration step by step
    enter()                                  → max_len / max_ops of the buffer
    hb_ot_shape_initialize_masks             → reset_masks(global_mask)
    hb_set_unicode_props                     → general category PRIVATE_USE, no other unicode props
    hb_ot_shape_setup_masks                  → set_masks for every non-global user feature
    map_glyphs_fast                          → glyph ids (the cmap lookup is done by the caller: `text` holds glyph ids)
    hb_ot_layout_substitute_start            → glyph props from GDEF
    hb_synthesize_glyph_classes              → when the font has no GDEF glyph classes
    ot_layout_gsub_table::substitute         → apply_layout_table over the GSUB lookups of the compiled map
  Nothing after GSUB changes glyph ids or clusters for such text (no default ignorables, no GPOS).
  Core Lean only.
-/
import RbModel.Map
import RbModel.Gsub

namespace RbModel.FeatureGsub
open RbModel

/-- hb_gc::RB_UNICODE_GENERAL_CATEGORY_PRIVATE_USE -/
def PRIVATE_USE : Nat := 3
/-- hb_gc::RB_UNICODE_GENERAL_CATEGORY_NON_SPACING_MARK -/
def NON_SPACING_MARK : Nat := 12

/-- src: ot_shape.rs::hb_synthesize_glyph_classes -/
def synthesizeGlyphClasses (b : Buf) : Buf :=
  { b with info := (b.info.take b.len).map (fun x =>
              Gsub.setGlyphProps x (if Gsub.genCat x != NON_SPACING_MARK || Gsub.isDefaultIgnorable x
                                    then Gsub.GP.BASE_GLYPH else Gsub.GP.MARK))
            ++ b.info.drop b.len }

/-- ot_map.rs::lookup_map_t as the interpreter reads it -/
def toLookupMap (l : Map.LMap) : Gsub.LookupMap :=
  { index := l.index, mask := l.mask, autoZwnj := l.autoZwnj, autoZwj := l.autoZwj, random := l.random,
    perSyllable := l.perSyllable }

/-- the masks `shape()` gives the glyphs of `text` (glyph id, cluster): global mask, then the user's ranged features -/
def textMasks (m : Map.Map) (user : List RbModel.Feature.Feature) (text : List (Nat × Nat)) : List Map.Glyph :=
  Map.setupMasks m user (Map.resetMasks (text.map fun p => (⟨p.1, 0, p.2⟩ : Map.Glyph)) m.globalMask)

/-- the buffer GSUB starts from (src: buffer.rs::enter for the budgets; `pos` has the length of `info`) -/
def initialBuf (m : Map.Map) (user : List RbModel.Feature.Feature) (text : List (Nat × Nat)) : Buf :=
  let gs := textMasks m user text
  let n := gs.length
  { info := gs.map fun g => { gid := g.gid, mask := g.mask, cluster := g.cluster, var1 := 0, var2 := PRIVATE_USE },
    out := List.replicate n {}, len := n,
    maxLen := max (n * Buf.MAX_LEN_FACTOR) Buf.MAX_LEN_MIN, maxOps := max ((n : Int) * Buf.MAX_OPS_FACTOR) Buf.MAX_OPS_MIN }

/-- the compiled map of the default shaper, LTR, for the user's features -/
def planMap (c : Map.Cfg) (font : Map.Font) (user : List RbModel.Feature.Feature) : Map.Map :=
  (Map.planBuilder c 0 user).compile c font

/-- `shape()` up to the end of GSUB: the glyph infos (id, cluster, mask, …) of the result -/
def shapeGsub (c : Map.Cfg) (font : Map.Font) (gf : Gsub.Font) (user : List RbModel.Feature.Feature)
    (text : List (Nat × Nat)) : M (List Info) := do
  let m := planMap c font user
  let b := initialBuf m user text
  if b.len == 0 then return []          -- shape_internal is not entered for an empty buffer
  let b := Gsub.setGlyphPropsAll gf b
  let b := if gf.hasGlyphClasses then b else synthesizeGlyphClasses b
  let cx ← Gsub.applyLayoutTable { buf := b, font := gf } (m.lookups0.map toLookupMap) 100000
  pure (cx.buf.info.take cx.buf.len)

end RbModel.FeatureGsub
