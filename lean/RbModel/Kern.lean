/-
  Model of `src/hb/kerning.rs` (OpenType/Apple `kern` table driver), core Lean only.
    machine_kern            pair walk with the IGNORE_MARKS skipping iterator, kern1/kern2 split, cross-stream
    apply_simple_kerning    `glyphs_kerning(...).unwrap_or(0)`: ttf-parser format 0 = binary search on
                            `left << 16 | right` (ttf-parser parser.rs::LazyArray16::binary_search_by)
    hb_ot_layout_kern       loop over the subtables with the reverse bracket (D3 fixed: `requested_kerning` is
                            tested before the first reverse)
  and of the subtable driver of `src/hb/aat_layout_kerx_table.rs` (Apple `kerx`):
    apply                   the same loop; formats 0 / 2 / 6 go through `apply_simple_kerning`, which is
                            `machine_kern` over the subtable's `glyphs_kerning` (a parameter here: external data);
                            the `requested_kerning` test exists twice — before the first reverse and again inside
                            the match arms, i.e. between the two reverses (`kerxStep`)
  State-machine subtables (kern format 1, kerx formats 1 / 4) are an abstract parameter of the drivers (`sm`); the
  correspondence uses state machines that cannot move glyphs.  Glyph flags (`unsafe_to_break/concat`) are not part
  of this model (they belong to C03/C04).
-/
import RbModel.Gpos

namespace RbModel.Kern
open RbModel.Gpos

/-- what `machine_kern` reads of a glyph: id, mask, GDEF mark class (glyph_props & MARK) and
    `_hb_glyph_info_is_default_ignorable` -/
structure KInfo where
  gid : Nat := 0
  mask : Nat := 0
  mark : Bool := false
  di : Bool := false
deriving DecidableEq, Repr, Inhabited

def geti (a : Array KInfo) (i : Nat) : M KInfo :=
  match a[i]? with
  | some x => .ok x
  | none => .error .oob

/-- src: ot_layout_gsubgpos.rs::skipping_iterator_t::match_ specialised to the iterator `machine_kern`
    builds (table GPOS, lookup_props = IGNORE_MARKS, mask = kern_mask, no syllable, no match function):
    0 = SKIP, 1 = MATCH, 2 = NOT_MATCH. -/
def matchKind (kernMask : Nat) (g : KInfo) : Nat :=
  if g.mark then 0                                    -- may_skip = SKIP_YES
  else
    let maybeMatch := g.mask &&& kernMask ≠ 0        -- may_match = MATCH_MAYBE, else MATCH_NO
    if g.di then 0                                    -- SKIP_MAYBE: never MATCH, never NOT_MATCH
    else if maybeMatch then 1 else 2

/-- src: ot_layout_gsubgpos.rs::skipping_iterator_t::next (result: `Some(index)` when it returns true).
    `n` = remaining steps (`stop - buf_idx`). -/
def iterNext (infos : Array KInfo) (kernMask : Nat) : Nat → Nat → M (Option Nat)
  | _, 0 => .ok none
  | idx, n + 1 =>
    match geti infos (idx + 1) with
    | .error e => .error e
    | .ok g =>
      match matchKind kernMask g with
      | 1 => .ok (some (idx + 1))
      | 2 => .ok none
      | _ => iterNext infos kernMask (idx + 1) n

/-- the position update of one kerned pair (`i` left, `j` right) -/
def kernPair (p : Array Pos) (i j : Nat) (kern : Int) (horizontal crossStream : Bool) : M (Array Pos × Bool) :=
  if horizontal then
    if crossStream then
      match get p j with
      | .error e => .error e
      | .ok pj => .ok (put p j { pj with yo := kern }, true)
    else
      let kern1 := kern / 2          -- `kern >> 1` (arithmetic shift = floor)
      let kern2 := kern - kern1
      match get p i with
      | .error e => .error e
      | .ok pi =>
        let p := put p i { pi with xa := pi.xa + kern1 }
        match get p j with
        | .error e => .error e
        | .ok pj => .ok (put p j { pj with xa := pj.xa + kern2, xo := pj.xo + kern2 }, false)
  else
    if crossStream then
      match get p j with
      | .error e => .error e
      | .ok pj => .ok (put p j { pj with xo := kern }, true)
    else
      let kern1 := kern / 2
      let kern2 := kern - kern1
      match get p i with
      | .error e => .error e
      | .ok pi =>
        let p := put p i { pi with ya := pi.ya + kern1 }
        match get p j with
        | .error e => .error e
        | .ok pj => .ok (put p j { pj with ya := pj.ya + kern2, yo := pj.yo + kern2 }, false)

/-- src: kerning.rs::machine_kern — one iteration of the `while i < len` loop; `k` = the rest of the loop
    (called with the next `i`). Last component: HAS_GPOS_ATTACHMENT was set. -/
def kernBody (infos : Array KInfo) (len kernMask : Nat) (horizontal crossStream : Bool)
    (kernOf : Nat → Nat → Int) (k : Nat → Array Pos → Bool → M (Array Pos × Bool))
    (i : Nat) (p : Array Pos) (fl : Bool) : M (Array Pos × Bool) :=
  if ¬ (i < len) then .ok (p, fl)
  else
    match geti infos i with
    | .error e => .error e
    | .ok gi =>
      if gi.mask &&& kernMask = 0 then k (i + 1) p fl
      else
        match iterNext infos kernMask i (len - 1 - i) with
        | .error e => .error e
        | .ok none => k (i + 1) p fl
        | .ok (some j) =>
          match geti infos j with
          | .error e => .error e
          | .ok gj =>
            let kern := kernOf gi.gid gj.gid
            if kern ≠ 0 then
              match kernPair p i j kern horizontal crossStream with
              | .error e => .error e
              | .ok (p', f) => k j p' (fl || f)
            else k j p fl

/-- src: kerning.rs::machine_kern — the `while i < len` loop; `fuel` > `len - i` is enough because every
    iteration either increments `i` or jumps to `j > i` (`Lemmas: machineKernLoop_fuel`). -/
def machineKernLoop (infos : Array KInfo) (len kernMask : Nat) (horizontal crossStream : Bool)
    (kernOf : Nat → Nat → Int) : Nat → Nat → Array Pos → Bool → M (Array Pos × Bool)
  | 0 => fun _ p fl => .ok (p, fl)
  | fuel + 1 => kernBody infos len kernMask horizontal crossStream kernOf
      (machineKernLoop infos len kernMask horizontal crossStream kernOf fuel)

/-- src: kerning.rs::machine_kern -/
def machineKern (infos : Array KInfo) (p : Array Pos) (len kernMask : Nat) (d : Dir) (crossStream : Bool)
    (kernOf : Nat → Nat → Int) : M (Array Pos × Bool) :=
  machineKernLoop infos len kernMask d.isHorizontal crossStream kernOf (len + 1) 0 p false

/-! ### format 0 pair lookup -/

/-- src: ttf-parser parser.rs::LazyArray16::binary_search_by — the `while size > 1` loop on keys. -/
def bsearchLoop (keys : Array Nat) (needle : Nat) : Nat → Nat → Nat → Option Nat
  | 0, base, _ => some base
  | fuel + 1, base, size =>
    if size > 1 then
      let half := size / 2
      let mid := base + half
      match keys[mid]? with
      | none => none
      | some k => bsearchLoop keys needle fuel (if k > needle then base else mid) (size - half)
    else some base

/-- src: ttf-parser tables/kern.rs::Subtable0::glyphs_kerning + kerning.rs `.map(i32::from).unwrap_or(0)` -/
def fmt0Kerning (pairs : Array (Nat × Int)) (left right : Nat) : Int :=
  let needle := left * 65536 + right
  if pairs.size = 0 then 0
  else
    match bsearchLoop (pairs.map (·.1)) needle pairs.size 0 pairs.size with
    | none => 0
    | some base =>
      match pairs[base]? with
      | none => 0
      | some (k, v) => if k = needle then v else 0

/-! ### the subtable driver -/

/-- what the driver reads of a `kern` subtable -/
structure KSub where
  isVariable : Bool := false
  horizontal : Bool := true
  crossStream : Bool := false
  stateMachine : Bool := false
  pairs : Array (Nat × Int) := #[]
deriving Repr, Inhabited

/-- the part of `hb_buffer_t` the driver touches (`len ≤ infos.size`, `len ≤ pos.size`) -/
structure KBuf where
  infos : Array KInfo
  pos : Array Pos
  len : Nat
  attach : Bool := false      -- scratch_flags & HAS_GPOS_ATTACHMENT
deriving Repr, Inhabited

/-- src: buffer.rs::reverse (`have_positions` holds) -/
def KBuf.reverse (b : KBuf) : KBuf :=
  { b with infos := reversePos b.infos b.len, pos := reversePos b.pos b.len }

/-- body of one iteration of the `for subtable in subtables` loop of `hb_ot_layout_kern`;
    state = (seen_cross_stream, buffer). `sm` = apply_state_machine_kerning. -/
def kernStep (requested : Bool) (kernMask : Nat) (d : Dir) (sm : KSub → KBuf → KBuf)
    (st : Bool × KBuf) (s : KSub) : M (Bool × KBuf) :=
  let (seen, b) := st
  if s.isVariable then .ok (seen, b)
  else if d.isHorizontal ≠ s.horizontal then .ok (seen, b)
  else
    let reverse := d.isBackward
    -- "Attach all glyphs into a chain": over the whole `buffer.pos` Vec, not only `..len`
    let (seen, b) :=
      if !seen && s.crossStream then
        (true, { b with pos := b.pos.map (fun q =>
            { q with atype := ATTACH_CURSIVE, chain := if d.isForward then -1 else 1 }) })
      else (seen, b)
    -- tested BEFORE the first reverse (the `continue` used to sit between the two reverses: defect D3, fixed)
    if !s.stateMachine && !requested then .ok (seen, b)
    else
      let b := if reverse then b.reverse else b
      if s.stateMachine then
        let b := sm s b
        .ok (seen, if reverse then b.reverse else b)
      else
        match machineKern b.infos b.pos b.len kernMask d s.crossStream (fmt0Kerning s.pairs) with
        | .error e => .error e
        | .ok (p, f) =>
          let b := { b with pos := p, attach := b.attach || f }
          .ok (seen, if reverse then b.reverse else b)

/-- src: kerning.rs::hb_ot_layout_kern (the face has a `kern` table with these subtables) -/
def kernDriver (subs : List KSub) (requested : Bool) (kernMask : Nat) (d : Dir)
    (sm : KSub → KBuf → KBuf) (b : KBuf) : M KBuf :=
  match subs.foldlM (kernStep requested kernMask d sm) (false, b) with
  | .error e => .error e
  | .ok st => .ok st.2

/-! ### the `kerx` subtable driver -/

/-- what `aat_layout_kerx_table.rs::apply` reads of a `kerx` subtable; `kernOf` = `glyphs_kerning(..).unwrap_or(0)`
    of a format 0 / 2 / 6 subtable (ttf-parser's reading of the table: external data) -/
structure XSub where
  isVariable : Bool := false
  horizontal : Bool := true
  crossStream : Bool := false
  format : Nat := 0                      -- 0, 1, 2, 4, 6 (ttf-parser stops at any other format)
  kernOf : Nat → Nat → Int := fun _ _ => 0

/-- `matches!(subtable.format, Format0(_) | Format2(_) | Format6(_))` -/
def XSub.isSimple (s : XSub) : Bool := s.format = 0 || s.format = 2 || s.format = 6

/-- src: aat_layout_kerx_table.rs::apply — body of one iteration of the `for subtable` loop;
    state = (seen_cross_stream, buffer). `sm` = apply_state_machine_kerning with Driver1 / Driver4.
    `apply_simple_kerning` is `machine_kern` (lookup_props = IGNORE_MARKS, the same position updates). -/
def kerxStep (requested : Bool) (kernMask : Nat) (d : Dir) (sm : XSub → KBuf → KBuf)
    (st : Bool × KBuf) (s : XSub) : M (Bool × KBuf) :=
  let (seen, b) := st
  if s.isVariable then .ok (seen, b)
  else if d.isHorizontal ≠ s.horizontal then .ok (seen, b)
  else
    let reverse := d.isBackward
    -- "Attach all glyphs into a chain": over the whole `buffer.pos` Vec, not only `..len`
    let (seen, b) :=
      if !seen && s.crossStream then
        (true, { b with pos := b.pos.map (fun q =>
            { q with atype := ATTACH_CURSIVE, chain := if d.isForward then -1 else 1 }) })
      else (seen, b)
    -- `if is_simple && !plan.requested_kerning { continue; }` BEFORE the first reverse
    if s.isSimple && !requested then .ok (seen, b)
    else
      let b := if reverse then b.reverse else b
      if s.isSimple then
        -- the match arms of formats 0 / 2 / 6 test `requested_kerning` again and `continue` from BETWEEN the two
        -- reverses: the buffer would stay reversed.  Unreachable behind the early test (`kerxStep_inner_dead`).
        if !requested then .ok (seen, b)
        else
          match machineKern b.infos b.pos b.len kernMask d s.crossStream s.kernOf with
          | .error e => .error e
          | .ok (p, f) =>
            let b := { b with pos := p, attach := b.attach || f }
            .ok (seen, if reverse then b.reverse else b)
      else
        let b := sm s b
        .ok (seen, if reverse then b.reverse else b)

/-- src: aat_layout_kerx_table.rs::apply (the face has a `kerx` table with these subtables) -/
def kerxDriver (subs : List XSub) (requested : Bool) (kernMask : Nat) (d : Dir)
    (sm : XSub → KBuf → KBuf) (b : KBuf) : M KBuf :=
  match subs.foldlM (kerxStep requested kernMask d sm) (false, b) with
  | .error e => .error e
  | .ok st => .ok st.2

end RbModel.Kern
