/-
  Model of `src/hb/ot_map.rs` (feature → mask compiler `hb_ot_map_builder_t`), of the user-feature part of
  `src/hb/ot_shape.rs` (`collect_features` for the default shaper, `initialize_masks`, `setup_masks`),
  of `buffer.rs::set_masks` / `reset_masks`, and of the alternate index extraction in
  `ot/layout/GSUB/alternate_set.rs`.
  Operational, u32 arithmetic made explicit (`% 2^32` exactly where Rust's `<<` drops bits).
  A font is data (`Font`): the answers of the ttf-parser accessors the builder calls.
  Constants of the crate come in through `Cfg` (instantiated from `RbModel.Gen.Map` by the driver and by
  the `_gen` corollaries).  Core Lean only.
-/
import RbModel.Feature
import RbModel.Gen.Map

namespace RbModel.Map

def W32 : Nat := 4294967296

/-- constants of ot_map.rs / buffer.rs (values: `RbModel.Gen.Map.cfg`, regenerated from the crate) -/
structure Cfg where
  maxBits : Nat          -- hb_ot_map_t::MAX_BITS
  globalShift : Nat      -- GLOBAL_BIT_SHIFT
  flagsDefined : Nat     -- glyph_flag::DEFINED
  fGlobal : Nat
  fHasFallback : Nat
  fManualZwnj : Nat
  fManualZwj : Nat
  fGlobalSearch : Nat
  fRandom : Nat
  fPerSyllable : Nat

/-- `u32::count_ones` (32 bit positions) -/
def popCount (n : Nat) : Nat := go 32 n
where
  go : Nat → Nat → Nat
    | 0, _ => 0
    | fuel + 1, n => n % 2 + go fuel (n / 2)

/-- `glyph_flag::DEFINED.count_ones() + 1` — the first bit handed to a feature -/
def Cfg.firstBit (c : Cfg) : Nat := popCount c.flagsDefined + 1
/-- GLOBAL_BIT_MASK -/
def Cfg.globalBit (c : Cfg) : Nat := 2 ^ c.globalShift
/-- hb_ot_map_t::MAX_VALUE -/
def Cfg.maxValue (c : Cfg) : Nat := 2 ^ c.maxBits - 1

/-- `8 * size_of_val(&v) - v.leading_zeros()` -/
def bitStorage (v : Nat) : Nat := if v = 0 then 0 else Nat.log2 v + 1

/-- src: ot_map.rs::feature_info_t -/
structure Info where
  tag : Nat
  seq : Nat
  maxValue : Nat
  flags : Nat
  defaultValue : Nat
  stage0 : Nat
  stage1 : Nat
  deriving DecidableEq, Repr

/-- src: ot_map.rs::hb_ot_map_builder_t (the fields the compiler reads; pause functions are opaque to it) -/
structure Builder where
  infos : List Info := []
  cur0 : Nat := 0
  cur1 : Nat := 0
  pauses0 : List Nat := []      -- stage_info_t.index of GSUB
  pauses1 : List Nat := []      -- stage_info_t.index of GPOS
  isSimple : Bool := false

/-- src: ot_map.rs::hb_ot_map_builder_t::add_feature -/
def Builder.addFeature (c : Cfg) (b : Builder) (tag flags value : Nat) : Builder :=
  if tag = 0 then b
  else { b with infos := b.infos ++ [{ tag, seq := b.infos.length, maxValue := value, flags,
                                       defaultValue := if flags &&& c.fGlobal ≠ 0 then value else 0,
                                       stage0 := b.cur0, stage1 := b.cur1 }] }

/-- src: ot_map.rs::hb_ot_map_builder_t::enable_feature -/
def Builder.enableFeature (c : Cfg) (b : Builder) (tag flags value : Nat) : Builder :=
  b.addFeature c tag (flags ||| c.fGlobal) value

/-- src: ot_map.rs::hb_ot_map_builder_t::disable_feature -/
def Builder.disableFeature (c : Cfg) (b : Builder) (tag : Nat) : Builder :=
  b.addFeature c tag c.fGlobal 0

/-- src: ot_map.rs::hb_ot_map_builder_t::add_pause (GSUB) -/
def Builder.pauseGsub (b : Builder) : Builder :=
  { b with pauses0 := b.pauses0 ++ [b.cur0], cur0 := b.cur0 + 1 }
/-- src: ot_map.rs::hb_ot_map_builder_t::add_pause (GPOS) -/
def Builder.pauseGpos (b : Builder) : Builder :=
  { b with pauses1 := b.pauses1 ++ [b.cur1], cur1 := b.cur1 + 1 }

/-! ### dedup_feature_infos -/

def lexLe : List Nat → List Nat → Bool
  | [], _ => true
  | _ :: _, [] => false
  | a :: xs, b :: ys => a < b || (a == b && lexLe xs ys)

/-- `#[derive(Ord)]` on feature_info_t: lexicographic in declaration order -/
def Info.key (i : Info) : List Nat :=
  [i.tag, i.seq, i.maxValue, i.flags, i.defaultValue, i.stage0, i.stage1]

/-- the `else` branch of the dedup loop: merge duplicate `i` into the kept entry `j` -/
def mergeInfo (c : Cfg) (j i : Info) : Info :=
  let j :=
    if i.flags &&& c.fGlobal ≠ 0 then
      { j with flags := j.flags ||| c.fGlobal, maxValue := i.maxValue, defaultValue := i.defaultValue }
    else
      let j := if j.flags &&& c.fGlobal ≠ 0 then { j with flags := j.flags ^^^ c.fGlobal } else j
      { j with maxValue := max j.maxValue i.maxValue }
  { j with flags := j.flags ||| (i.flags &&& c.fHasFallback),
           stage0 := min j.stage0 i.stage0, stage1 := min j.stage1 i.stage1 }

/-- the loop `for i in 1..len` with write index `j` (entries before `j` are final) -/
def dedupLoop (c : Cfg) : Info → List Info → List Info
  | j, [] => [j]
  | j, i :: rest =>
    if i.tag ≠ j.tag then j :: dedupLoop c i rest else dedupLoop c (mergeInfo c j i) rest

/-- src: ot_map.rs::hb_ot_map_builder_t::dedup_feature_infos -/
def dedupInfos (c : Cfg) (isSimple : Bool) (infos : List Info) : List Info :=
  let sorted := if isSimple then infos else infos.mergeSort (fun a b => lexLe a.key b.key)
  match sorted with
  | [] => []
  | x :: xs => dedupLoop c x xs

/-! ### the font, as the builder sees it -/

structure Font where
  present : Nat → Bool                         -- face.layout_table(t).is_some()
  required : Nat → Option (Nat × Nat)          -- get_required_language_feature under the selected script/lang: (index, tag)
  lookupCount : Nat → Nat                      -- table.lookups.len()
  langFeature : Nat → Nat → Option Nat         -- find_language_feature(script, lang, tag); none when no script was selected
  anyFeature : Nat → Nat → Option Nat          -- table.features.index(tag)
  featureLookups : Nat → Nat → Option (List Nat)  -- lookup indices of feature #i (after FeatureVariations), none if absent

/-- src: ot_map.rs::feature_map_t -/
structure FMap where
  tag : Nat
  index0 : Option Nat
  index1 : Option Nat
  stage0 : Nat
  stage1 : Nat
  shift : Nat
  mask : Nat
  oneMask : Nat
  autoZwnj : Bool
  autoZwj : Bool
  random : Bool
  perSyllable : Bool
  deriving DecidableEq, Repr

/-- loop state of collect_feature_maps -/
structure Alloc where
  feats : List FMap
  req0 : Nat
  req1 : Nat
  globalMask : Nat
  nextBit : Nat
  deriving DecidableEq, Repr

def Alloc.init (c : Cfg) : Alloc := ⟨[], 0, 0, c.globalBit, c.firstBit⟩

def usesGlobalBit (c : Cfg) (info : Info) : Bool := info.flags &&& c.fGlobal != 0 && info.maxValue == 1

def bitsNeeded (c : Cfg) (info : Info) : Nat :=
  if usesGlobalBit c info then 0 else min c.maxBits (bitStorage info.maxValue)

/-- is the feature skipped before any font access (`max_value == 0 || next_bit + bits_needed >= GLOBAL_BIT_SHIFT`) -/
def skipped (c : Cfg) (st : Alloc) (info : Info) : Bool :=
  info.maxValue == 0 || st.nextBit + bitsNeeded c info ≥ c.globalShift

/-- the two font searches of one loop iteration: (index in GSUB, index in GPOS) -/
def findFeature (c : Cfg) (font : Font) (info : Info) : Option Nat × Option Nat :=
  let i0 := if font.present 0 then font.langFeature 0 info.tag else none
  let i1 := if font.present 1 then font.langFeature 1 info.tag else none
  if (i0.isSome || i1.isSome) then (i0, i1)
  else if info.flags &&& c.fGlobalSearch ≠ 0 then
    (if font.present 0 then font.anyFeature 0 info.tag else none,
     if font.present 1 then font.anyFeature 1 info.tag else none)
  else (none, none)

/-- the `required_stage[table_index] = info.stage[table_index]` update -/
def reqUpd (font : Font) (t tag old new : Nat) : Nat :=
  if font.present t ∧ (font.required t).map (·.2) = some tag then new else old

/-- the pushed feature_map_t -/
def mkFMap (c : Cfg) (info : Info) (idx : Option Nat × Option Nat) (shift mask : Nat) : FMap :=
  { tag := info.tag, index0 := idx.1, index1 := idx.2, stage0 := info.stage0, stage1 := info.stage1,
    shift, mask, oneMask := (1 <<< shift) &&& mask,
    autoZwnj := info.flags &&& c.fManualZwnj = 0, autoZwj := info.flags &&& c.fManualZwj = 0,
    random := info.flags &&& c.fRandom ≠ 0, perSyllable := info.flags &&& c.fPerSyllable ≠ 0 }

/-- one iteration of `for info in &self.feature_infos` in collect_feature_maps -/
def allocStep (c : Cfg) (font : Font) (st : Alloc) (info : Info) : Alloc :=
  if skipped c st info then st
  else
    let st1 := { st with req0 := reqUpd font 0 info.tag st.req0 info.stage0,
                         req1 := reqUpd font 1 info.tag st.req1 info.stage1 }
    let idx := findFeature c font info
    if !(idx.1.isSome || idx.2.isSome) ∧ info.flags &&& c.fHasFallback = 0 then st1
    else if usesGlobalBit c info then
      { st1 with feats := st1.feats ++ [mkFMap c info idx c.globalShift c.globalBit] }
    else
      let bits := bitsNeeded c info
      let mask := (1 <<< (st.nextBit + bits)) - (1 <<< st.nextBit)
      { st1 with feats := st1.feats ++ [mkFMap c info idx st.nextBit mask],
                 nextBit := st.nextBit + bits,
                 globalMask := st.globalMask ||| (((info.defaultValue <<< st.nextBit) % W32) &&& mask) }

/-- the allocation loop over already deduplicated infos -/
def allocAll (c : Cfg) (font : Font) (infos : List Info) : Alloc :=
  infos.foldl (allocStep c font) (Alloc.init c)

/-- src: ot_map.rs::hb_ot_map_builder_t::collect_feature_maps -/
def collectFeatureMaps (c : Cfg) (font : Font) (isSimple : Bool) (infos : List Info) : Alloc :=
  let st := allocAll c font (dedupInfos c isSimple infos)
  if isSimple then { st with feats := st.feats.mergeSort (fun a b => a.tag ≤ b.tag) } else st

/-! ### collect_lookup_stages -/

/-- src: ot_map.rs::lookup_map_t -/
structure LMap where
  index : Nat
  autoZwnj : Bool
  autoZwj : Bool
  random : Bool
  mask : Nat
  perSyllable : Bool
  deriving DecidableEq, Repr

/-- `#[derive(Ord)]` on lookup_map_t -/
def LMap.key (l : LMap) : List Nat :=
  [l.index, l.autoZwnj.toNat, l.autoZwj.toNat, l.random.toNat, l.mask, l.perSyllable.toNat]

/-- src: ot_map.rs::hb_ot_map_builder_t::add_lookups -/
def addLookups (font : Font) (t : Nat) (fi : Nat) (mask : Nat) (zwnj zwj rnd syl : Bool) : List LMap :=
  if font.present t then
    match font.featureLookups t fi with
    | none => []
    | some ls => (ls.filter (· < font.lookupCount t)).map (fun l => ⟨l, zwnj, zwj, rnd, mask, syl⟩)
  else []

/-- merge loop over the sorted tail `lookups[last_lookup..]` -/
def mergeLookups : LMap → List LMap → List LMap
  | j, [] => [j]
  | j, i :: rest =>
    if i.index ≠ j.index then j :: mergeLookups i rest
    else mergeLookups { j with mask := j.mask ||| i.mask, autoZwnj := j.autoZwnj && i.autoZwnj,
                               autoZwj := j.autoZwj && i.autoZwj } rest

/-- "Sort lookups and merge duplicates" (only when the stage added more than one lookup) -/
def sortMergeTail (tail : List LMap) : List LMap :=
  if 1 < tail.length then
    match tail.mergeSort (fun a b => lexLe a.key b.key) with
    | [] => []
    | x :: xs => mergeLookups x xs
  else tail

structure StageState where
  lookups : List LMap        -- all lookups so far (earlier stages are final)
  stages : List Nat          -- StageMap.last_lookup
  stageIndex : Nat

/-- the lookups the required feature contributes to stage `stage` (mask = GLOBAL_BIT_MASK) -/
def stageReqLookups (c : Cfg) (font : Font) (t : Nat) (reqStage stage : Nat) : List LMap :=
  match (if font.present t then font.required t else none) with
  | some (fi, _) => if reqStage = stage then addLookups font t fi c.globalBit true true false false else []
  | none => []

/-- the lookups map entry `f` contributes to stage `stage` of table `t` (mask = the feature's mask) -/
def stageFeatLookups (font : Font) (t : Nat) (stage : Nat) (f : FMap) : List LMap :=
  match (if t = 0 then f.index0 else f.index1) with
  | some fi => if (if t = 0 then f.stage0 else f.stage1) = stage
               then addLookups font t fi f.mask f.autoZwnj f.autoZwj f.random f.perSyllable else []
  | none => []

/-- everything `add_lookups` pushed during one stage, before "Sort lookups and merge duplicates":
    a lookup index occurs once per (feature, occurrence in the feature's list) that references it -/
def stageTail (c : Cfg) (font : Font) (t : Nat) (feats : List FMap) (reqStage stage : Nat) : List LMap :=
  stageReqLookups c font t reqStage stage ++ feats.flatMap (stageFeatLookups font t stage)

/-- one iteration of `for stage in 0..self.current_stage[table_index]` -/
def stageStep (c : Cfg) (font : Font) (t : Nat) (feats : List FMap) (reqStage : Nat) (pauses : List Nat)
    (st : StageState) (stage : Nat) : StageState :=
  let lookups := st.lookups ++ sortMergeTail (stageTail c font t feats reqStage stage)
  match pauses[st.stageIndex]? with
  | some idx => if idx = stage then ⟨lookups, st.stages ++ [lookups.length], st.stageIndex + 1⟩
                else ⟨lookups, st.stages, st.stageIndex⟩
  | none => ⟨lookups, st.stages, st.stageIndex⟩

/-- src: ot_map.rs::hb_ot_map_builder_t::collect_lookup_stages (one table) -/
def collectLookupStages (c : Cfg) (font : Font) (t : Nat) (feats : List FMap) (reqStage : Nat)
    (pauses : List Nat) (curStage : Nat) : StageState :=
  (List.range curStage).foldl (stageStep c font t feats reqStage pauses) ⟨[], [], 0⟩

/-- src: ot_map.rs::hb_ot_map_t -/
structure Map where
  globalMask : Nat
  features : List FMap
  lookups0 : List LMap
  lookups1 : List LMap
  stages0 : List Nat
  stages1 : List Nat
  infos : List Info      -- the deduplicated feature infos the builder is left with

/-- src: ot_map.rs::hb_ot_map_builder_t::compile -/
def Builder.compile (c : Cfg) (font : Font) (b : Builder) : Map :=
  let a := collectFeatureMaps c font b.isSimple b.infos
  let b := b.pauseGsub.pauseGpos
  let s0 := collectLookupStages c font 0 a.feats a.req0 b.pauses0 b.cur0
  let s1 := collectLookupStages c font 1 a.feats a.req1 b.pauses1 b.cur1
  { globalMask := a.globalMask, features := a.feats, lookups0 := s0.lookups, lookups1 := s1.lookups,
    stages0 := s0.stages, stages1 := s1.stages, infos := dedupInfos c b.isSimple b.infos }

/-- src: ot_map.rs::hb_ot_map_t::get_mask — `binary_search_by_key` on the tag-sorted feature list, modelled
    by its contract (some entry with that tag; unique when tags are distinct) → (mask, shift) -/
def Map.getMask (m : Map) (tag : Nat) : Nat × Nat :=
  match m.features.find? (·.tag == tag) with
  | some f => (f.mask, f.shift)
  | none => (0, 0)

/-- src: ot_map.rs::hb_ot_map_t::get_1_mask -/
def Map.get1Mask (m : Map) (tag : Nat) : Nat :=
  match m.features.find? (·.tag == tag) with
  | some f => f.oneMask
  | none => 0

/-- src: ot_map.rs::hb_ot_map_t::stage_lookup_range + stage_lookups -/
def stageLookups (lookups : List LMap) (stages : List Nat) (stage : Nat) : List LMap :=
  let start := if stage = 0 then 0 else (stages[stage - 1]?).getD 0
  let stop := (stages[stage]?).getD lookups.length
  (lookups.take stop).drop start

/-! ### ot_shape.rs: features of the default shaper + user features -/

def tagOf (a b c d : Char) : Nat := ((a.toNat * 256 + b.toNat) * 256 + c.toNat) * 256 + d.toNat

/-- 0 = LTR, 1 = RTL, 2 = TTB, 3 = BTT -/
abbrev Dir := Nat

/-- src: ot_shape.rs::hb_ot_shape_planner_t::collect_features for a shaper without `collect_features` /
    `override_features` hooks (DEFAULT_SHAPER, DUMBER_SHAPER) -/
def planBuilder (c : Cfg) (dir : Dir) (user : List RbModel.Feature.Feature) : Builder :=
  let b : Builder := { isSimple := true }
  let b := b.enableFeature c (tagOf 'r' 'v' 'r' 'n') 0 1
  let b := b.pauseGsub
  let b := if dir = 0 then
      (b.enableFeature c (tagOf 'l' 't' 'r' 'a') 0 1).enableFeature c (tagOf 'l' 't' 'r' 'm') 0 1
    else if dir = 1 then
      (b.enableFeature c (tagOf 'r' 't' 'l' 'a') 0 1).addFeature c (tagOf 'r' 't' 'l' 'm') 0 1
    else b
  let b := b.addFeature c (tagOf 'f' 'r' 'a' 'c') 0 1
  let b := b.addFeature c (tagOf 'n' 'u' 'm' 'r') 0 1
  let b := b.addFeature c (tagOf 'd' 'n' 'o' 'm') 0 1
  let b := b.enableFeature c (tagOf 'r' 'a' 'n' 'd') c.fRandom c.maxValue
  let b := b.enableFeature c (tagOf 't' 'r' 'a' 'k') c.fHasFallback 1
  let b := b.enableFeature c (tagOf 'H' 'a' 'r' 'f') 0 1
  let b := b.enableFeature c (tagOf 'H' 'A' 'R' 'F') 0 1
  let b := b.enableFeature c (tagOf 'B' 'u' 'z' 'z') 0 1
  let b := b.enableFeature c (tagOf 'B' 'U' 'Z' 'Z') 0 1
  let mj := c.fGlobal ||| c.fManualZwnj ||| c.fManualZwj
  let b := [(tagOf 'a' 'b' 'v' 'm', c.fGlobal), (tagOf 'b' 'l' 'w' 'm', c.fGlobal), (tagOf 'c' 'c' 'm' 'p', c.fGlobal),
            (tagOf 'l' 'o' 'c' 'l', c.fGlobal), (tagOf 'm' 'a' 'r' 'k', mj), (tagOf 'm' 'k' 'm' 'k', mj),
            (tagOf 'r' 'l' 'i' 'g', c.fGlobal)].foldl (fun b p => b.addFeature c p.1 p.2 1) b
  let b := if dir ≤ 1 then
      [(tagOf 'c' 'a' 'l' 't', c.fGlobal), (tagOf 'c' 'l' 'i' 'g', c.fGlobal), (tagOf 'c' 'u' 'r' 's', c.fGlobal),
       (tagOf 'd' 'i' 's' 't', c.fGlobal), (tagOf 'k' 'e' 'r' 'n', c.fGlobal ||| c.fHasFallback),
       (tagOf 'l' 'i' 'g' 'a', c.fGlobal), (tagOf 'r' 'c' 'l' 't', c.fGlobal)].foldl
        (fun b p => b.addFeature c p.1 p.2 1) b
    else b.enableFeature c (tagOf 'v' 'e' 'r' 't') c.fGlobalSearch 1
  let b := if user.length ≠ 0 then { b with isSimple := false } else b
  user.foldl (fun b f => b.addFeature c f.tag (if RbModel.Feature.isGlobal f then c.fGlobal else 0) f.value) b

/-! ### buffer.rs: masks -/

structure Glyph where
  gid : Nat
  mask : Nat
  cluster : Nat
  deriving DecidableEq, Repr

/-- src: buffer.rs::hb_buffer_t::reset_masks -/
def resetMasks (gs : List Glyph) (mask : Nat) : List Glyph := gs.map (fun g => { g with mask })

/-- the per-glyph update of set_masks: `(info.mask & !mask) | (value & mask)`; `!mask` on u32 -/
def setMask1 (value mask : Nat) (g : Glyph) : Glyph :=
  { g with mask := (g.mask &&& (W32 - 1 - mask)) ||| (value &&& mask) }

/-- src: buffer.rs::hb_buffer_t::set_masks on `info[..len]` (glyphs beyond `len` are not visited) -/
def setMasks (gs : List Glyph) (len value mask cs ce : Nat) : List Glyph :=
  if mask = 0 then gs
  else if cs = 0 ∧ ce = RbModel.Feature.U32MAX then
    (gs.take len).map (setMask1 value mask) ++ gs.drop len
  else
    (gs.take len).map (fun g => if cs ≤ g.cluster ∧ g.cluster < ce then setMask1 value mask g else g) ++ gs.drop len

/-- src: ot_shape.rs::setup_masks (user-feature loop); `feature.value << shift` on u32 -/
def setupMasks (m : Map) (user : List RbModel.Feature.Feature) (gs : List Glyph) : List Glyph :=
  user.foldl (fun gs f =>
    if RbModel.Feature.isGlobal f then gs
    else
      let (mask, shift) := m.getMask f.tag
      setMasks gs gs.length ((f.value <<< shift) % W32) mask f.start f.stop) gs

/-! ### GSUB single / alternate substitution driven by the masks -/

/-- `u32::trailing_zeros` -/
def trailingZeros (m : Nat) : Nat :=
  if m % W32 = 0 then 32 else go 32 m
where
  go : Nat → Nat → Nat
    | 0, _ => 0
    | fuel + 1, m => if m % 2 = 1 then 0 else 1 + go fuel (m / 2)

/-- src: alternate_set.rs: `(lookup_mask & glyph_mask) >> lookup_mask.trailing_zeros()` -/
def altIndex (lookupMask glyphMask : Nat) : Nat :=
  (lookupMask &&& glyphMask) >>> trailingZeros lookupMask

/-- src: ot_layout_gsubgpos.rs::hb_ot_apply_context_t::random_number (minstd) -/
def randomNext (state : Nat) : Nat := ((state * 48271) % W32) % 2147483647

/-- src: alternate_set.rs::<AlternateSet as Apply>::apply → (replacement glyph or none, random state) -/
def altApply (c : Cfg) (alts : List Nat) (lookupMask glyphMask : Nat) (random : Bool) (rs : Nat) : Option Nat × Nat :=
  if alts.length = 0 then (none, rs)
  else
    let ai := altIndex lookupMask glyphMask
    let (ai, rs) := if ai = c.maxValue ∧ random then
        let rs := randomNext rs
        (rs % alts.length + 1, rs)
      else (ai, rs)
    if ai > 65535 ∨ ai = 0 then (none, rs) else (alts[ai - 1]?, rs)

inductive Lookup where
  | single (m : List (Nat × Nat))
  | alternate (m : List (Nat × List Nat))

/-- one position of apply_forward for a type-1 / type-3 lookup without lookup flags: a glyph whose mask
    meets the lookup mask and that is covered is replaced (mask and cluster are kept) -/
def applyGlyph (c : Cfg) (lk : Lookup) (lm : LMap) (g : Glyph) (rs : Nat) : Glyph × Nat :=
  if g.mask &&& lm.mask ≠ 0 then
    match lk with
    | .single m =>
      (match m.find? (·.1 == g.gid) with
       | some p => ({ g with gid := p.2 }, rs)
       | none => (g, rs))
    | .alternate m =>
      (match m.find? (·.1 == g.gid) with
       | some p =>
         let r := altApply c p.2 lm.mask g.mask lm.random rs
         (match r.1 with
          | some x => ({ g with gid := x }, r.2)
          | none => (g, r.2))
       | none => (g, rs))
  else (g, rs)

/-- src: ot_layout.rs::apply_forward (left to right, threading the random state) -/
def applyLookup (c : Cfg) (lk : Lookup) (lm : LMap) (st : List Glyph × Nat) : List Glyph × Nat :=
  st.1.foldl (fun acc g =>
    let r := applyGlyph c lk lm g acc.2
    (acc.1 ++ [r.1], r.2)) ([], st.2)

/-- the GSUB part of `shape()` for the default shaper, LTR, a font whose GSUB holds only single and
    alternate lookups: plan → initialize_masks → setup_masks → lookups in map order -/
def shapeFeatures (c : Cfg) (font : Font) (lookups : Nat → Option Lookup)
    (user : List RbModel.Feature.Feature) (text : List (Nat × Nat)) : List Glyph :=
  let m := (planBuilder c 0 user).compile c font
  let gs := text.map (fun p => (⟨p.1, 0, p.2⟩ : Glyph))
  let gs := resetMasks gs m.globalMask
  let gs := setupMasks m user gs
  if gs.isEmpty then gs
  else
    (m.lookups0.foldl (fun st lm =>
      if lm.mask % W32 = 0 then st
      else match lookups lm.index with
        | some lk => applyLookup c lk lm st
        | none => st) (gs, 1)).1

/-- the constants of the compiled crate (regenerated on every run) -/
def genCfg : Cfg :=
  { maxBits := RbModel.Gen.Map.maxBits, globalShift := RbModel.Gen.Map.globalBitShift,
    flagsDefined := RbModel.Gen.Map.glyphFlagDefined, fGlobal := RbModel.Gen.Map.fGlobal,
    fHasFallback := RbModel.Gen.Map.fHasFallback, fManualZwnj := RbModel.Gen.Map.fManualZwnj,
    fManualZwj := RbModel.Gen.Map.fManualZwj, fGlobalSearch := RbModel.Gen.Map.fGlobalSearch,
    fRandom := RbModel.Gen.Map.fRandom, fPerSyllable := RbModel.Gen.Map.fPerSyllable }

end RbModel.Map
