/-
  Model of the Hangul shaper's text preprocessing (`preprocess_text_hangul`) and of the buffer primitives it
  calls, over a list zipper: `out` = out_info[0 .. out_len], `inp` = info[idx .. len].
  A glyph carries (code point, cluster, hangul_shaping_feature); masks / glyph flags are NOT modelled here
  (`unsafe_to_break*` calls only write flag bits; `set_cluster` additionally clears flag bits) — HangulBuf.lean runs the
  same routine statement by statement on the buffer model of Buf.lean WITH the masks (property C03).
  `none` = the Rust code would panic (index out of bounds / failed assert) or loop forever; `preprocess_keys`
  (Lemmas, = `C12_model_refines_spec`) shows that this never happens.
  Not modelled: `make_room_for`/`ensure` refusing (needs out_len + n > max_len ≥ 64·len; the shaper at most
  triples the text), and the in-place vs. separate out-buffer representation (list zipper abstracts it).
  Core Lean only.
-/
import RbModel.Gen.Hangul

namespace RbModel.Hangul
open RbModel.Gen.Hangul

/-- one `hb_glyph_info_t`: glyph_id (still a code point at this stage), cluster, hangul_shaping_feature -/
structure G where
  cp : Nat
  cl : Nat
  tag : Nat
deriving DecidableEq, Repr, Inhabited

/-- what the shaper asks of the face / buffer configuration -/
structure Cfg where
  /-- `face.has_glyph(c)` -/
  has : Nat → Bool
  /-- `is_zero_width_char(face, c)`: nominal glyph exists and its h-advance is 0 -/
  zeroW : Nat → Bool
  /-- `BufferFlags::DO_NOT_INSERT_DOTTED_CIRCLE` -/
  noDotted : Bool
  /-- cluster level 0 (monotone graphemes) / 1 (monotone characters) / 2 (characters) -/
  level : Nat

def inRanges (rs : List (Nat × Nat)) (u : Nat) : Bool :=
  rs.any fun r => decide (r.1 ≤ u) && decide (u ≤ r.2)

-- src: ot_shaper_hangul.rs::is_combining_l
def isCombiningL (u : Nat) : Bool := decide (LBase ≤ u) && decide (u ≤ LBase + LCount - 1)
-- src: ot_shaper_hangul.rs::is_combining_v
def isCombiningV (u : Nat) : Bool := decide (VBase ≤ u) && decide (u ≤ VBase + VCount - 1)
-- src: ot_shaper_hangul.rs::is_combining_t
def isCombiningT (u : Nat) : Bool := decide (TBase + 1 ≤ u) && decide (u ≤ TBase + TCount - 1)
-- src: ot_shaper_hangul.rs::is_combined_s
def isCombinedS (u : Nat) : Bool := decide (SBase ≤ u) && decide (u ≤ SBase + SCount - 1)
-- src: ot_shaper_hangul.rs::is_l   (literal ranges in the source; scanned from the compiled crate)
def isL (u : Nat) : Bool := inRanges lRanges u
-- src: ot_shaper_hangul.rs::is_v
def isV (u : Nat) : Bool := inRanges vRanges u
-- src: ot_shaper_hangul.rs::is_t
def isT (u : Nat) : Bool := inRanges tRanges u
-- src: ot_shaper_hangul.rs::is_hangul_tone
def isTone (u : Nat) : Bool := inRanges toneRanges u

def DOTTED_CIRCLE : Nat := 0x25CC

def setCl (c : Nat) (g : G) : G := { g with cl := c }
def setCp (c : Nat) (g : G) : G := { g with cp := c }
def setTag (t : Nat) (g : G) : G := { g with tag := t }

/-- running minimum of clusters, seeded with `c` -/
def minCl (gs : List G) (c : Nat) : Nat := gs.foldl (fun m g => min m g.cl) c

/-- apply `f` to the longest prefix whose elements satisfy `p` (the `while … cluster == …` walks) -/
def mapWhile (p : G → Bool) (f : G → G) : List G → List G
  | [] => []
  | g :: gs => if p g then f g :: mapWhile p f gs else g :: gs

/-- same, walking backwards from the end of the list -/
def mapWhileBack (p : G → Bool) (f : G → G) (l : List G) : List G := (mapWhile p f l.reverse).reverse

-- src: buffer.rs::merge_clusters + merge_clusters_impl, for start = idx, end = idx + n  (n = num_in)
-- * level CHARACTERS: flags only.
-- * "Extend end": `while end < len && info[end-1].cluster == info[end].cluster` — a chain of equalities,
--   i.e. the longest run after the segment with the cluster of the segment's last glyph.
-- * "Extend start": the guard `end < start` is never true (D4) — nothing happens.
-- * `idx == start`: continue into the out-buffer while the cluster equals info[start].cluster.
def mergeIn (lvl n : Nat) (out inp : List G) : Option (List G × List G) :=
  if n < 2 then some (out, inp)
  else if lvl = 2 then some (out, inp)
  else if inp.length < n then none
  else
    let rest := inp.drop n
    match inp.take n with
    | [] => none
    | g0 :: tl =>
      let seg := g0 :: tl
      let gl := seg.getLast (List.cons_ne_nil g0 tl)
      let cluster := minCl seg g0.cl
      let rest' := if cluster != gl.cl then mapWhile (fun g => g.cl == gl.cl) (setCl cluster) rest else rest
      let out' := if g0.cl != cluster then mapWhileBack (fun g => g.cl == g0.cl) (setCl cluster) out else out
      some (out', seg.map (setCl cluster) ++ rest')

-- src: buffer.rs::merge_out_clusters
-- `end - start` on usize with end < start: overflow panic (debug) / wrap then index panic → `none`.
def mergeOut (lvl start end_ : Nat) (out inp : List G) : Option (List G × List G) :=
  if lvl = 2 then some (out, inp)
  else if end_ < start then none
  else if end_ - start < 2 then some (out, inp)
  else if out.length < end_ then none
  else
    let a := out.take start
    let b := out.drop end_
    match (out.take end_).drop start with
    | [] => none
    | g0 :: tl =>
      let seg := g0 :: tl
      let gl := seg.getLast (List.cons_ne_nil g0 tl)
      let cluster := minCl seg g0.cl
      let a' := mapWhileBack (fun g => g.cl == g0.cl) (setCl cluster) a
      let b' := mapWhile (fun g => g.cl == gl.cl) (setCl cluster) b
      -- "if end == out_len" after extension: every glyph of b was walked
      let inp' := if b.all (fun g => g.cl == gl.cl) then mapWhile (fun g => g.cl == gl.cl) (setCl cluster) inp
                  else inp
      some (a' ++ seg.map (setCl cluster) ++ b', inp')

-- src: buffer.rs::replace_glyphs   (assert!(idx + num_in <= len); info[idx] is read: len > idx needed)
def replaceGlyphs (lvl n : Nat) (data : List Nat) (out inp : List G) : Option (List G × List G) :=
  if inp.length < n then none
  else match mergeIn lvl n out inp with
    | none => none
    | some (out1, inp1) =>
      match inp1 with
      | [] => none
      | g0 :: _ => some (out1 ++ data.map (fun c => setCp c g0), inp1.drop n)

/-- `out_info_mut()[i] = f(out_info()[i])`; `none` when `i` is out of bounds -/
def modAt (f : G → G) : Nat → List G → Option (List G)
  | _, [] => none
  | 0, g :: gs => some (f g :: gs)
  | i + 1, g :: gs => (modAt f i gs).map (g :: ·)

-- src: ot_shaper_hangul.rs::preprocess_text_hangul, the tone-mark move:
--   tone = out[end]; out[start+1 ..= end] = out[start .. end]; out[start] = tone
def rotateTone (start end_ : Nat) (out : List G) : Option (List G) :=
  if end_ < start then none
  else match out.drop end_ with
    | [] => none
    | tone :: after => some (out.take start ++ tone :: (out.take end_).drop start ++ after)

/-- loop state: the zipper plus the two locals `start`, `end` of `preprocess_text_hangul` -/
structure St where
  out : List G
  inp : List G
  start : Nat
  end_ : Nat
deriving DecidableEq, Repr

/-- the statements `start = end = out_len; continue` closing the tone-mark branch -/
def afterTone (out inp : List G) : St := { out := out, inp := inp, start := out.length, end_ := out.length }

-- src: ot_shaper_hangul.rs::preprocess_text_hangul, tone-mark branch (`is_hangul_tone(u)`), g = cur(0)
def stepTone (c : Cfg) (st : St) (g : G) (rest : List G) : Option St :=
  if st.start < st.end_ ∧ st.end_ = st.out.length then
    -- tone mark follows a valid syllable; next_glyph, then move it in front unless zero width
    let out1 := st.out ++ [g]
    if !c.zeroW g.cp then
      match mergeOut c.level st.start (st.end_ + 1) out1 rest with
      | none => none
      | some (out2, inp2) =>
        match rotateTone st.start st.end_ out2 with
        | none => none
        | some out3 => some (afterTone out3 inp2)
    else some (afterTone out1 rest)
  else if !c.noDotted && c.has DOTTED_CIRCLE then
    let chars := if !c.zeroW g.cp then [g.cp, DOTTED_CIRCLE] else [DOTTED_CIRCLE, g.cp]
    match replaceGlyphs c.level 1 chars st.out (g :: rest) with
    | none => none
    | some (out1, inp1) => some (afterTone out1 inp1)
  else some (afterTone (st.out ++ [g]) rest)

/-- the final `buffer.next_glyph()` of the loop body: no syllable recognised, `end` keeps its old value -/
def fallThrough (st : St) (g : G) (rest : List G) : St :=
  { out := st.out ++ [g], inp := rest, start := st.out.length, end_ := st.end_ }

/-- `if level == MONOTONE_GRAPHEMES { merge_out_clusters(start, end) }; continue` -/
def closeSyllable (c : Cfg) (start end_ : Nat) (out inp : List G) : Option St :=
  if c.level = 0 then
    match mergeOut c.level start end_ out inp with
    | none => none
    | some (out', inp') => some { out := out', inp := inp', start := start, end_ := end_ }
  else some { out := out, inp := inp, start := start, end_ := end_ }

-- src: preprocess_text_hangul, branch `is_l(u) && idx + 1 < len`, `is_v(v)`:  gl = cur(0), gv = cur(1), rest2 = info[idx+2..]
def stepLV (c : Cfg) (st : St) (gl gv : G) (rest2 : List G) : Option St :=
  let start := st.out.length
  let l := gl.cp
  let v := gv.cp
  -- t = cur(2).glyph_id if idx + 2 < len and is_t, else 0;  tindex = t - T_BASE only in the first case
  let t := match rest2 with
    | gt :: _ => if isT gt.cp then gt.cp else 0
    | [] => 0
  let tindex := if t != 0 then t - TBase else 0
  let s := SBase + (l - LBase) * NCount + (v - VBase) * TCount + tindex
  if (isCombiningL l && isCombiningV v && (t == 0 || isCombiningT t)) && c.has s then
    match replaceGlyphs c.level (if t != 0 then 3 else 2) [s] st.out (gl :: gv :: rest2) with
    | none => none
    | some (out1, inp1) => some { out := out1, inp := inp1, start := start, end_ := start + 1 }
  else
    -- not composed: tag the jamo and advance past them
    match rest2 with
    | gt :: rest3 =>
      if t != 0 then
        closeSyllable c start (start + 3) (st.out ++ [setTag LJMO gl, setTag VJMO gv, setTag TJMO gt]) rest3
      else closeSyllable c start (start + 2) (st.out ++ [setTag LJMO gl, setTag VJMO gv]) rest2
    | [] => closeSyllable c start (start + 2) (st.out ++ [setTag LJMO gl, setTag VJMO gv]) rest2

-- src: preprocess_text_hangul, "We decomposed S: apply jamo features to the individual glyphs":
--   out_info_mut()[start + 0] = LJMO; [start + 1] = VJMO; if start + 2 < end { [start + 2] = TJMO }
def tagOut (start end_ : Nat) (out : List G) : Option (List G) :=
  match modAt (setTag LJMO) start out with
  | none => none
  | some out3 =>
    match modAt (setTag VJMO) (start + 1) out3 with
    | none => none
    | some out4 => if start + 2 < end_ then modAt (setTag TJMO) (start + 2) out4 else some out4

/-- `end = start + s_len;` tag; merge clusters at level 0; `continue` -/
def finishDecomposed (c : Cfg) (start sLen : Nat) (out inp : List G) : Option St :=
  match tagOut start (start + sLen) out with
  | none => none
  | some out' => closeSyllable c start (start + sLen) out' inp

-- src: preprocess_text_hangul, branch `is_combined_s(u)`:  g = cur(0)
def stepS (c : Cfg) (st : St) (g : G) (rest : List G) : Option St :=
  let start := st.out.length
  let s := g.cp
  let hasS := c.has s
  let lindex := (s - SBase) / NCount
  let nindex := (s - SBase) % NCount
  let vindex := nindex / TCount
  let tindex := nindex % TCount
  -- cur(1).glyph_id when idx + 1 < len
  let nextT := match rest with | gt :: _ => isT gt.cp | [] => false
  -- <LV,T>: `tindex == 0 && idx + 1 < len && is_combining_t(cur(1))` and the font has s + (t - T_BASE)
  let newS : Option Nat :=
    if tindex == 0 then
      match rest with
      | gt :: _ => if isCombiningT gt.cp && c.has (s + (gt.cp - TBase)) then some (s + (gt.cp - TBase)) else none
      | [] => none
    else none
  match newS with
  | some newS =>
    -- <LV,T> composes
    match replaceGlyphs c.level 2 [newS] st.out (g :: rest) with
    | none => none
    | some (out1, inp1) => some { out := out1, inp := inp1, start := start, end_ := start + 1 }
  | none =>
    let dec := [LBase + lindex, VBase + vindex, TBase + tindex]
    if (!hasS || (tindex == 0 && nextT))
        && (c.has (LBase + lindex) && c.has (VBase + vindex) && (tindex == 0 || c.has (TBase + tindex))) then
      let sLen := if tindex != 0 then 3 else 2
      match replaceGlyphs c.level 1 (dec.take sLen) st.out (g :: rest) with
      | none => none
      | some (out1, inp1) =>
        -- a following non-combining T joins the syllable only if the LV glyph exists (`has_glyph && tindex == 0`)
        if hasS && tindex == 0 then
          match inp1 with
          | gt :: r => finishDecomposed c start (sLen + 1) (out1 ++ [gt]) r     -- next_glyph; s_len += 1
          | [] => none
        else finishDecomposed c start sLen out1 inp1
    else if hasS then
      some { out := st.out ++ [g], inp := rest, start := start, end_ := start + 1 }
    else some (fallThrough st g rest)

-- src: ot_shaper_hangul.rs::preprocess_text_hangul, one iteration of `while buffer.idx < buffer.len`
def step (c : Cfg) (st : St) : Option St :=
  match st.inp with
  | [] => some st
  | g :: rest =>
    if isTone g.cp then stepTone c st g rest
    else if isL g.cp && !rest.isEmpty then
      match rest with
      | gv :: rest2 => if isV gv.cp then stepLV c st g gv rest2 else some (fallThrough st g rest)
      | [] => some (fallThrough st g rest)
    else if isCombinedS g.cp then stepS c st g rest
    else some (fallThrough st g rest)

-- src: ot_shaper_hangul.rs::preprocess_text_hangul, the `while buffer.idx < buffer.len` loop
-- The recursion is justified by the loop's own variant `len - idx`: an iteration that does not consume
-- input would be an endless loop in Rust and is a `none` here (`run_sim` in Lemmas shows it never happens).
def run (c : Cfg) (st : St) : Option St :=
  if st.inp = [] then some st
  else
    match step c st with
    | none => none
    | some st' => if st'.inp.length < st.inp.length then run c st' else none
termination_by st.inp.length

-- src: ot_shaper_hangul.rs::preprocess_text_hangul  (clear_output; loop; sync)
def preprocess (c : Cfg) (text : List G) : Option (List G) :=
  (run c { out := [], inp := text, start := 0, end_ := 0 }).map fun st => st.out ++ st.inp

/-! ## which shaper is in charge: the planner's choice (`hb_ot_shape_planner_t::new`)

  The Hangul preprocessing above runs only when the plan's shaper is the Hangul shaper.  The planner starts from
  the shaper `hb_ot_shape_complex_categorize` gives for the script (a parameter here: `cat`) and replaces it by the
  "dumber" shaper exactly when AAT `morx` is going to be APPLIED.  `Gen.Hangul.plannerProbe` is what the compiled
  crate answers on the 16 table environments × directions (theorem `C12_gen_planner_probe`). -/

/-- a shaper record as the planner sees it (`&'static hb_ot_shaper_t`, compared by address) -/
inductive Shaper where
  /-- `DEFAULT_SHAPER` -/
  | default
  /-- `DUMBER_SHAPER` (no normalization-dependent work, used under AAT) -/
  | dumber
  /-- `HANGUL_SHAPER` -/
  | hangul
  /-- any other shaper record -/
  | other (k : Nat)
deriving DecidableEq, Repr, Inhabited

/-- the code used by `Gen.Hangul.plannerProbe` and by the driver: position in `shaperNames` -/
def Shaper.code : Shaper → Nat
  | .default => 0
  | .dumber => 1
  | .hangul => 2
  | .other k => k + 3

def Shaper.ofCode : Nat → Shaper
  | 0 => .default
  | 1 => .dumber
  | 2 => .hangul
  | k + 3 => .other k

/-- what `hb_ot_shape_planner_t::new` reads of the face and of the run -/
structure PlanEnv where
  /-- `face.tables().morx.is_some()` -/
  hasMorx : Bool
  /-- `face.gsub.is_some()` -/
  hasGsub : Bool
  /-- `direction.is_horizontal()` -/
  horizontal : Bool
deriving DecidableEq, Repr

-- src: ot_shape.rs::hb_ot_shape_planner_t::new  `let apply_morx = morx.is_some() && (direction.is_horizontal() || gsub.is_none())`
def applyMorx (e : PlanEnv) : Bool := e.hasMorx && (e.horizontal || !e.hasGsub)

-- src: ot_shape.rs::hb_ot_shape_planner_t::new  `if apply_morx && shaper != &DEFAULT_SHAPER { shaper = &DUMBER_SHAPER }`
def planShaper (cat : Shaper) (e : PlanEnv) : Shaper :=
  if applyMorx e && cat != Shaper.default then Shaper.dumber else cat

/-- direction codes of the probe / the driver: 0 LTR, 1 RTL, 2 TTB, 3 BTT -/
def dirHorizontal (d : Nat) : Bool := decide (d < 2)

end RbModel.Hangul
