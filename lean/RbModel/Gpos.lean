/-
  Model of the GPOS positioning arithmetic of rustybuzz (core Lean only, no imports).
    src/hb/buffer.rs                       GlyphPosition (x/y advance, x/y offset, attach_chain : i16, attach_type : u8)
    src/hb/ot_layout_gpos_table.rs         ValueRecord::apply_to_pos, propagate_attachment_offsets,
                                           GPOS::position_start, GPOS::position_finish_offsets
    src/hb/ot/layout/GPOS/mark_array.rs    MarkArray::apply
    src/hb/ot/layout/GPOS/cursive_pos.rs   CursiveAdjustment::apply (position part), reverse_cursive_minor_offset
    src/hb/ot_shape.rs                     position_default, zero_mark_widths_by_gdef, the final reverse of `position`

  Conventions
  * operational: every Rust statement that indexes / asserts is an `Except` step, in the Rust order;
  * `i32` fields are `Int` (unbounded).  Every operation on them in this file is `+`, `-`, negation or
    assignment, i.e. a ring homomorphism to Z/2^32, so the release build's wrapping result is
    `wrap32` of the model's result (the driver prints `wrap32`); `attach_chain` is an `i16` and is
    wrapped (`wrap16`) exactly where Rust casts `as i16` or negates an `i16` — since the i16 guard in
    MarkArray / CursivePos (D13b fixed) those casts are exact (`Lemmas: ChainOK`);
  * `propagate_attachment_offsets` carries HarfBuzz's `nesting_level` budget (D13 fixed): the model recursion
    is structural on it.  `reverse_cursive_minor_offset` is two loops over a heap work list (no recursion since
    the fix); the first loop terminates because each iteration zeroes one non-zero `attach_chain`; its model is
    structural on a `fuel` argument and `Lemmas/Gpos.lean` proves that `fuel = (number of non-zero chains) + 1`
    is always enough (so `.fuel` is never observed) and that the two loops compute exactly what the former
    recursion computed (`reverseCursive_eq`).
-/
namespace RbModel.Gpos

/-- src: common.rs::Direction (Invalid included: `is_backward` is `!is_forward`, so Invalid is backward
    and vertical). -/
inductive Dir where
  | ltr | rtl | ttb | btt | invalid
deriving DecidableEq, Repr, Inhabited

/-- src: common.rs::Direction::is_horizontal -/
def Dir.isHorizontal : Dir → Bool
  | .ltr => true | .rtl => true | _ => false
/-- src: common.rs::Direction::is_forward -/
def Dir.isForward : Dir → Bool
  | .ltr => true | .ttb => true | _ => false
/-- src: common.rs::Direction::is_backward -/
def Dir.isBackward (d : Dir) : Bool := !d.isForward

/-- src: buffer.rs::GlyphPosition -/
structure Pos where
  xa : Int := 0
  ya : Int := 0
  xo : Int := 0
  yo : Int := 0
  chain : Int := 0      -- i16
  atype : Nat := 0      -- u8
deriving DecidableEq, Repr, Inhabited

inductive Err where
  | oob      -- slice index out of bounds
  | assert   -- `assert!(j < i)` in propagate_attachment_offsets
  | fuel     -- model artefact, proved unreachable
deriving DecidableEq, Repr, Inhabited

abbrev M := Except Err

/-- `x as i16` (two's complement wrap) -/
def wrap16 (x : Int) : Int := (x + 32768) % 65536 - 32768
/-- `x as i32` of an unbounded result (what the release build holds) -/
def wrap32 (x : Int) : Int := (x + 2147483648) % 4294967296 - 2147483648

def ATTACH_MARK : Nat := 1
def ATTACH_CURSIVE : Nat := 2

/-- `pos[i]` (read) -/
def get (p : Array Pos) (i : Nat) : M Pos :=
  match p[i]? with
  | some x => .ok x
  | none => .error .oob

/-- `pos[i] = v` (the index was read before in every use, so no separate bound check is needed;
    `setIfInBounds` is the identity out of range). -/
def put (p : Array Pos) (i : Nat) (v : Pos) : Array Pos := p.setIfInBounds i v

/-- `Σ pos[k].{x,y}_advance` for `k` in `lo .. lo+n`, in loop order. -/
def sumAdv (p : Array Pos) : Nat → Nat → M (Int × Int)
  | _, 0 => .ok (0, 0)
  | lo, n + 1 => do
    let q ← get p lo
    let r ← sumAdv p (lo + 1) n
    .ok (q.xa + r.1, q.ya + r.2)

/-- `(i as isize + isize::from(chain)) as usize` compared against `len`: `none` when the target is
    negative (wraps to a huge usize) or `≥ len`. -/
def target (i : Nat) (chain : Int) (len : Nat) : Option Nat :=
  let jz : Int := (i : Int) + chain
  if jz < 0 then none else if jz.toNat ≥ len then none else some jz.toNat

/-- the `match kind { MARK => .., CURSIVE => .., _ => {} }` tail of `propagate_attachment_offsets`
    (after the nested call returned): `pos[i]` accumulates the offset of `pos[j]`. -/
def attachStep (d : Dir) (kind : Nat) (p : Array Pos) (i j : Nat) : M (Array Pos) :=
  if kind = ATTACH_MARK then
    match get p i, get p j with
    | .error e, _ => .error e
    | _, .error e => .error e
    | .ok qi, .ok qj =>
      if ¬ (j < i) then .error .assert
      else if d.isForward then
        match sumAdv p j (i - j) with
        | .error e => .error e
        | .ok s => .ok (put p i { qi with xo := qi.xo + qj.xo - s.1, yo := qi.yo + qj.yo - s.2 })
      else
        match sumAdv p (j + 1) (i - j) with
        | .error e => .error e
        | .ok s => .ok (put p i { qi with xo := qi.xo + qj.xo + s.1, yo := qi.yo + qj.yo + s.2 })
  else if kind = ATTACH_CURSIVE then
    match get p i, get p j with
    | .error e, _ => .error e
    | _, .error e => .error e
    | .ok qi, .ok qj =>
      if d.isHorizontal then .ok (put p i { qi with yo := qi.yo + qj.yo })
      else .ok (put p i { qi with xo := qi.xo + qj.xo })
  else .ok p

/-- src: ot_layout.rs::MAX_NESTING_LEVEL (tied to the crate's value by `C07_consts`) -/
def MAX_NESTING_LEVEL : Nat := 64

/-- src: ot_layout_gpos_table.rs::propagate_attachment_offsets (with HarfBuzz's `nesting_level` budget).
    The recursion is structural on that budget — Lean's termination check is the code's own argument.
    Result: new positions and the number of nested frames this call used (1 = no recursion).
    When the budget is exhausted the link of `i` has already been zeroed and `i` is left un-accumulated. -/
def propagate (p : Array Pos) (len i : Nat) (d : Dir) (nl : Nat) : M (Array Pos × Nat) :=
  match get p i with
  | .error e => .error e
  | .ok pi =>
    if pi.chain = 0 then .ok (p, 1)
    else
      let p1 := put p i { pi with chain := 0 }
      match target i pi.chain len with
      | none => .ok (p1, 1)
      | some j =>
        match nl with
        | 0 => .ok (p1, 1)                       -- `if nesting_level == 0 { return; }`
        | nl' + 1 =>
          match propagate p1 len j d nl' with
          | .error e => .error e
          | .ok (p2, dep) =>
            match attachStep d pi.atype p2 i j with
            | .error e => .error e
            | .ok q => .ok (q, dep + 1)

/-- number of entries with a non-zero `attach_chain` — the termination measure of `reverse_cursive_minor_offset` -/
def nz (p : Array Pos) : Nat := p.countP (fun q => q.chain != 0)

/-- the fuel the model hands to every top-level `reverse_cursive_minor_offset` call (always enough) -/
def fuelFor (p : Array Pos) : Nat := p.size + 1

/-- `for i in 0..len { propagate_attachment_offsets(pos, len, i, direction, MAX_NESTING_LEVEL) }`;
    second component: the deepest recursion seen. -/
def finishLoop (p : Array Pos) (len : Nat) (d : Dir) : Nat → Nat → Nat → M (Array Pos × Nat)
  | _, 0, dmax => .ok (p, dmax)
  | i, n + 1, dmax => do
    let (p, dep) ← propagate p len i d MAX_NESTING_LEVEL
    finishLoop p len d (i + 1) n (max dmax dep)

/-- src: ot_layout_gpos_table.rs::GPOS::position_finish_offsets
    (`hasAttachment` = `scratch_flags & HAS_GPOS_ATTACHMENT != 0`, `len` = `buffer.len`) -/
def positionFinishOffsets (p : Array Pos) (len : Nat) (d : Dir) (hasAttachment : Bool) :
    M (Array Pos × Nat) :=
  if hasAttachment then finishLoop p len d 0 len 0 else .ok (p, 0)

/-- src: ot_layout_gpos_table.rs::GPOS::position_start (`&mut buffer.pos[..len]` panics if `len > pos.len()`) -/
def positionStart (p : Array Pos) (len : Nat) : M (Array Pos) :=
  if len > p.size then .error .oob
  else .ok (p.mapIdx (fun k q => if k < len then { q with chain := 0, atype := 0 } else q))

/-! ### value records, mark attachment -/

/-- the four plain fields of a ValueRecord (with the device tables: `ValueRecordD` below) -/
structure ValueRecord where
  xPlacement : Int := 0
  yPlacement : Int := 0
  xAdvance : Int := 0
  yAdvance : Int := 0
deriving DecidableEq, Repr, Inhabited

/-- src: ot_layout_gpos_table.rs::ValueRecordExt::apply_to_pos (no devices) -/
def valueApplyToPos (v : ValueRecord) (d : Dir) (q : Pos) : Pos × Bool :=
  let h := d.isHorizontal
  let (q, w) := if v.xPlacement ≠ 0 then ({ q with xo := q.xo + v.xPlacement }, true) else (q, false)
  let (q, w) := if v.yPlacement ≠ 0 then ({ q with yo := q.yo + v.yPlacement }, true) else (q, w)
  let (q, w) := if v.xAdvance ≠ 0 ∧ h then ({ q with xa := q.xa + v.xAdvance }, true) else (q, w)
  let (q, w) := if v.yAdvance ≠ 0 ∧ ¬ h then ({ q with ya := q.ya - v.yAdvance }, true) else (q, w)
  (q, w)

/-- src: ot_layout_gpos_table.rs::ValueRecordExt::apply -/
def valueApply (v : ValueRecord) (d : Dir) (p : Array Pos) (idx : Nat) : M (Array Pos × Bool) := do
  let q ← get p idx
  let r := valueApplyToPos v d q
  .ok (put p idx r.1, r.2)

/-- src: ot_layout_gpos_table.rs::ValueRecordExt::is_empty (no devices) -/
def ValueRecord.isEmpty (v : ValueRecord) : Bool :=
  v.xPlacement = 0 ∧ v.yPlacement = 0 ∧ v.xAdvance = 0 ∧ v.yAdvance = 0

/-- src: GPOS/pair_pos.rs `bail`: `flag1 = has1 && r1.apply(idx)`, `flag2 = has2 && r2.apply(second)` -/
def pairApply (v1 v2 : ValueRecord) (d : Dir) (p : Array Pos) (i j : Nat) : M (Array Pos × Bool × Bool) := do
  let (p, f1) ← if !v1.isEmpty then valueApply v1 d p i else .ok (p, false)
  let (p, f2) ← if !v2.isEmpty then valueApply v2 d p j else .ok (p, false)
  .ok (p, f1, f2)

/-! #### value records with Device / VariationIndex tables

The delta a device yields (`get_x_delta(face).unwrap_or(0)` / `get_y_delta`: ttf-parser's reading of the table at the
face's ppem, or the GDEF variation store at the face's coordinates) is external data: a parameter.  What is modelled is
which deltas `apply_to_pos` uses, on which field, under which direction and face state. -/

/-- a value record with its four optional device tables; `some δ` = the offset is present and parses,
    `δ` = what `device.get_{x,y}_delta(face).unwrap_or(0)` returns (x for the X fields, y for the Y fields) -/
structure ValueRecordD extends ValueRecord where
  xPlaDevice : Option Int := none
  yPlaDevice : Option Int := none
  xAdvDevice : Option Int := none
  yAdvDevice : Option Int := none
deriving DecidableEq, Repr, Inhabited

/-- src: ot_layout_gpos_table.rs::ValueRecordExt::apply_to_pos, whole function.
    `useX` = `ppem_x != 0 || coords != 0`, `useY` = `ppem_y != 0 || coords != 0`. -/
def valueApplyToPosD (v : ValueRecordD) (useX useY : Bool) (d : Dir) (q : Pos) : Pos × Bool :=
  let h := d.isHorizontal
  let (q, w) := valueApplyToPos v.toValueRecord d q
  let (q, w) :=
    if useX then
      match v.xPlaDevice with
      | some δ => ({ q with xo := q.xo + δ }, true)          -- "TODO: even when 0?"
      | none => (q, w)
    else (q, w)
  let (q, w) :=
    if useY then
      match v.yPlaDevice with
      | some δ => ({ q with yo := q.yo + δ }, true)
      | none => (q, w)
    else (q, w)
  let (q, w) :=
    if h && useX then
      match v.xAdvDevice with
      | some δ => ({ q with xa := q.xa + δ }, true)
      | none => (q, w)
    else (q, w)
  let (q, w) :=
    if !h && useY then
      match v.yAdvDevice with
      | some δ => ({ q with ya := q.ya - δ }, true)           -- grows downward, hence the negation
      | none => (q, w)
    else (q, w)
  (q, w)

/-- src: ot_layout_gpos_table.rs::ValueRecordExt::apply -/
def valueApplyD (v : ValueRecordD) (useX useY : Bool) (d : Dir) (p : Array Pos) (idx : Nat) : M (Array Pos × Bool) := do
  let q ← get p idx
  let r := valueApplyToPosD v useX useY d q
  .ok (put p idx r.1, r.2)

/-- src: ot_layout_gpos_table.rs::ValueRecordExt::is_empty -/
def ValueRecordD.isEmpty (v : ValueRecordD) : Bool :=
  v.toValueRecord.isEmpty && v.xPlaDevice.isNone && v.yPlaDevice.isNone && v.xAdvDevice.isNone && v.yAdvDevice.isNone

/-- src: GPOS/pair_pos.rs `bail` -/
def pairApplyD (v1 v2 : ValueRecordD) (useX useY : Bool) (d : Dir) (p : Array Pos) (i j : Nat) :
    M (Array Pos × Bool × Bool) := do
  let (p, f1) ← if !v1.isEmpty then valueApplyD v1 useX useY d p i else .ok (p, false)
  let (p, f2) ← if !v2.isEmpty then valueApplyD v2 useX useY d p j else .ok (p, false)
  .ok (p, f1, f2)

/-- `i16::MAX`: the largest distance an `attach_chain` link may span -/
def CHAIN_MAX : Nat := 32767

/-- src: GPOS/mark_array.rs::MarkArrayExt::apply (position part; `idx` = buffer.idx, the mark;
    `glyphPos` = the base / ligature / mark2 it attaches to).  `none` = `return None`: a glyph more than
    `i16::MAX` positions away is not attached (the `as i16` cast below is then exact). -/
def markArrayApply (p : Array Pos) (idx glyphPos : Nat) (markX markY baseX baseY : Int) : M (Option (Array Pos)) :=
  if ((glyphPos : Int) - (idx : Int)).natAbs > CHAIN_MAX then .ok none
  else
    match get p idx with
    | .error e => .error e
    | .ok q =>
      .ok (some (put p idx { q with xo := baseX - markX, yo := baseY - markY, atype := ATTACH_MARK,
                                    chain := wrap16 ((glyphPos : Int) - (idx : Int)) }))

/-! ### cursive attachment -/

/-- one entry of the work list of `reverse_cursive_minor_offset`: (i, chain, attach_type) as read on the way down -/
abbrev Frame := Nat × Int × Nat

/-- src: GPOS/cursive_pos.rs::reverse_cursive_minor_offset — first loop: down the old chain, zeroing every
    link on the way and pushing the glyph on the work list (a heap `Vec`, no recursion since the fix).
    `j = (i + chain) as usize`: a negative target wraps, is never equal to `new_parent`, is pushed, and the
    next iteration indexes out of bounds.  The loop ends because every iteration zeroes one non-zero link:
    `fuel` = (number of non-zero links) + 1 is always enough (`Lemmas/Gpos.lean`). -/
def reverseDescend (np : Nat) : Nat → Array Pos → Nat → List Frame → M (Array Pos × List Frame)
  | 0, _, _, _ => .error .fuel
  | fuel + 1, p, i, work =>
    match get p i with
    | .error e => .error e
    | .ok pi =>
      if pi.chain = 0 ∨ pi.atype &&& ATTACH_CURSIVE = 0 then .ok (p, work)
      else
        let p1 := put p i { pi with chain := 0 }
        let jz : Int := (i : Int) + pi.chain
        if jz < 0 then .error .oob
        else
          let j := jz.toNat
          if j = np then .ok (p1, work)
          else reverseDescend np fuel p1 j ((i, pi.chain, pi.atype) :: work)

/-- src: GPOS/cursive_pos.rs::reverse_cursive_minor_offset — second loop: `while let Some(..) = work.pop()`,
    attaching every glyph of the old chain to the one that used to hang on it. -/
def reverseUnwind (d : Dir) : Array Pos → List Frame → M (Array Pos)
  | p, [] => .ok p
  | p, (i, chain, ty) :: rest =>
    let j := ((i : Int) + chain).toNat
    match get p i, get p j with
    | .error e, _ => .error e
    | _, .error e => .error e
    | .ok qi, .ok qj =>
      let qj := if d.isHorizontal then { qj with yo := - qi.yo } else { qj with xo := - qi.xo }
      reverseUnwind d (put p j { qj with chain := wrap16 (- chain), atype := ty }) rest

/-- src: GPOS/cursive_pos.rs::reverse_cursive_minor_offset.  Second component: length of the walk
    (= work list length + 1; it was the recursion depth before the fix). -/
def reverseCursiveMinorOffset (fuel : Nat) (p : Array Pos) (i : Nat) (d : Dir) (newParent : Nat) :
    M (Array Pos × Nat) :=
  match reverseDescend newParent fuel p i [] with
  | .error e => .error e
  | .ok (p1, work) =>
    match reverseUnwind d p1 work with
    | .error e => .error e
    | .ok q => .ok (q, work.length + 1)

/-- src: GPOS/cursive_pos.rs::CursiveAdjustment::apply — the `match direction` block (main axis).
    `i` = previous (exit side) glyph found by `iter.prev`, `j` = `buffer.idx` (entry side). -/
def cursiveMain (p : Array Pos) (i j : Nat) (d : Dir) (entryX entryY exitX exitY : Int) : M (Array Pos) :=
  match get p i, get p j with
  | .error e, _ => .error e
  | _, .error e => .error e
  | .ok pi, .ok _ =>
    match d with
    | .ltr =>
      let p1 := put p i { pi with xa := exitX + pi.xo }
      match get p1 j with
      | .error e => .error e
      | .ok pj =>
        let dd := entryX + pj.xo
        .ok (put p1 j { pj with xa := pj.xa - dd, xo := pj.xo - dd })
    | .rtl =>
      let dd := exitX + pi.xo
      let p1 := put p i { pi with xa := pi.xa - dd, xo := pi.xo - dd }
      match get p1 j with
      | .error e => .error e
      | .ok pj => .ok (put p1 j { pj with xa := entryX + pj.xo })
    | .ttb =>
      let p1 := put p i { pi with ya := exitY + pi.yo }
      match get p1 j with
      | .error e => .error e
      | .ok pj =>
        let dd := entryY + pj.yo
        .ok (put p1 j { pj with ya := pj.ya - dd, yo := pj.yo - dd })
    | .btt =>
      let dd := exitY + pi.yo
      let p1 := put p i { pi with ya := pi.ya - dd, yo := pi.yo - dd }
      match get p1 j with
      | .error e => .error e
      | .ok pj => .ok (put p1 j { pj with ya := entryY })       -- NB: no `+ pos[j].y_offset` (as in HarfBuzz)
    | .invalid => .ok p

/-- src: GPOS/cursive_pos.rs::CursiveAdjustment::apply — from `reverse_cursive_minor_offset(pos, child, ..)`
    to the end, for given `child`, `parent` and cross-axis offsets. -/
def cursiveAttach (p : Array Pos) (child parent : Nat) (d : Dir) (xOff yOff : Int) : M (Array Pos × Nat) :=
  match reverseCursiveMinorOffset (fuelFor p) p child d parent with
  | .error e => .error e
  | .ok (p, dep) =>
    match get p child with
    | .error e => .error e
    | .ok pc =>
      let cchain := wrap16 ((parent : Int) - (child : Int))
      let pc := { pc with atype := ATTACH_CURSIVE, chain := cchain }
      let pc := if d.isHorizontal then { pc with yo := yOff } else { pc with xo := xOff }
      let p := put p child pc
      match get p parent with
      | .error e => .error e
      | .ok pp =>
        if pp.chain = wrap16 (- cchain) then
          let pp := { pp with chain := 0 }
          let pp := if d.isHorizontal then { pp with yo := 0 } else { pp with xo := 0 }
          .ok (put p parent pp, dep)
        else .ok (p, dep)

/-- src: GPOS/cursive_pos.rs::CursiveAdjustment::apply — "Cross-direction adjustment": who is child, who is
    parent (`rtlFlag` = `lookup_props & RIGHT_TO_LEFT != 0`). Second component: depth of the chain reversal. -/
def cursiveCross (p : Array Pos) (i j : Nat) (d : Dir) (rtlFlag : Bool)
    (entryX entryY exitX exitY : Int) : M (Array Pos × Nat) :=
  if rtlFlag then cursiveAttach p i j d (entryX - exitX) (entryY - exitY)
  else cursiveAttach p j i d (-(entryX - exitX)) (-(entryY - exitY))

/-- src: GPOS/cursive_pos.rs::CursiveAdjustment::apply — everything after `iter.prev` found `i`.
    `none` = `return None`: glyphs more than `i16::MAX` positions apart are not joined
    (`ctx.buffer.idx - i` is a usize subtraction: it wraps to a huge value when `i > j`). -/
def cursiveApply (p : Array Pos) (i j : Nat) (d : Dir) (rtlFlag : Bool)
    (entryX entryY exitX exitY : Int) : M (Option (Array Pos × Nat)) :=
  if i > j ∨ j - i > CHAIN_MAX then .ok none
  else
    match cursiveMain p i j d entryX entryY exitX exitY with
    | .error e => .error e
    | .ok p1 =>
      match cursiveCross p1 i j d rtlFlag entryX entryY exitX exitY with
      | .error e => .error e
      | .ok r => .ok (some r)

/-! ### the rest of `position` -/

/-- src: ot_shape.rs::zero_mark_widths_by_gdef (`marks[k]` = `_hb_glyph_info_is_mark(info[k])`) -/
def zeroMarkWidths (p : Array Pos) (marks : Array Bool) (len : Nat) (adjust : Bool) : M (Array Pos) :=
  if len > p.size ∨ len > marks.size then .error .oob
  else .ok (p.mapIdx (fun k q =>
    if k < len ∧ marks[k]? = some true then
      let q := if adjust then { q with xo := q.xo - q.xa, yo := q.yo - q.ya } else q
      { q with xa := 0, ya := 0 }
    else q))

/-- src: buffer.rs::reverse restricted to positions (`pos[0..len].reverse()`; `have_positions` holds
    during positioning). -/
def reversePos {α} (p : Array α) (len : Nat) : Array α :=
  if len < 2 then p else (p.extract 0 len).reverse ++ p.extract len p.size

/-- src: ot_shape.rs::position — the final `if direction.is_backward() { buffer.reverse() }` -/
def finalReverse {α} (p : Array α) (len : Nat) (d : Dir) : Array α :=
  if d.isBackward then reversePos p len else p

end RbModel.Gpos
