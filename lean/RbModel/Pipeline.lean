/-
  Model of the default-shaper pipeline of `shape()` for fonts WITHOUT layout tables
  (no GSUB/GPOS/GDEF/kern/kerx/morx/trak, no glyf/raster/COLR outlines, not variable, no cmap
  format 14): cmap lookup, unicode props, grapheme clusters, native direction, rotation, the
  normalizer restricted to texts it cannot change, glyph classes, default positioning for the four
  directions, mark / default-ignorable zeroing, hiding or deleting default ignorables.

  Operational: every definition mirrors a Rust function (`-- src:`), loop by loop; where a Rust
  loop over indices is written here as a list recursion the comment says which loop it is.
  External data (Unicode properties, the parsed font) are parameters (`Ucd`, `Font`).
  Core Lean only (plus the generated constants) so that the line-protocol driver links.

  What is NOT modelled (the model answers `Err.oos`, rbshim answers `oos`): characters that have a
  canonical decomposition, marks that are the second element of a canonical composition, marks
  with a non-zero (modified) combining class -- the normalizer (C09's core) could act on them.
  The HIDDEN bit is computed by `initProps` but its later updates (CGJ unhide) are not tracked: no
  modelled step reads it.  Glyph flags / masks are not modelled (C03/C04).
-/
import RbModel.Gen.DI
import RbModel.Gen.Pipeline
import RbModel.Gen.Cmap

namespace RbModel.Pipeline
open RbModel.Gen.Pipeline

/-! ## data -/

/-- Unicode data as the shaper sees them (functions of the code point). -/
structure Ucd where
  gc : Nat → Nat                 -- general category (hb_gc numbering)
  mcc : Nat → Nat                -- modified combining class
  isDI : Nat → Bool              -- unicode.rs::is_default_ignorable
  extPict : Nat → Bool           -- is_emoji_extended_pictographic
  spaceFb : Nat → Nat            -- space_fallback (0 = NOT_SPACE)
  mirror : Nat → Option Nat      -- mirrored
  vert : Nat → Option Nat        -- vertical
  norm : Nat → Bool              -- decomposes, or is the second element of a canonical composition

/-- One cmap subtable as parsed by ttf-parser: ids + its `glyph_index` function. -/
structure CmapSub where
  platform : Nat
  encoding : Nat
  map : Nat → Option Nat

/-- A parsed font without layout tables. -/
structure Font where
  subs : List CmapSub
  upem : Nat
  hmtx : Option (Nat → Option Nat)    -- ttf-parser `glyph_hor_advance`; `none` = no hmtx table
  vmtx : Option (Nat → Option Nat)    -- ttf-parser `glyph_ver_advance`; `none` = no vmtx table
  ascender : Int                       -- ttf-parser `ascender()` (i16)
  descender : Int
  vorg : Option (Nat → Int)           -- ttf-parser `glyph_y_origin` (VORG); `none` = no VORG table
  /-- outline font (`glyf`): glyph ↦ (yMin, yMax) of its header, `none` inside = empty glyph; outer `none` = no outlines -/
  glyf : Option (Nat → Option (Int × Int)) := none
  /-- top side bearing of `vmtx` (ttf-parser `glyph_ver_side_bearing`, 0 when absent) -/
  vsb : Nat → Int := fun _ => 0

inductive Dir | ltr | rtl | ttb | btt
  deriving DecidableEq, Repr, Inhabited

def Dir.isHorizontal : Dir → Bool | .ltr | .rtl => true | _ => false
def Dir.isVertical (d : Dir) : Bool := !d.isHorizontal
def Dir.isBackward : Dir → Bool | .rtl | .btt => true | _ => false
def Dir.isForward (d : Dir) : Bool := !d.isBackward
/-- src: common.rs::Direction::reverse -/
def Dir.reverse : Dir → Dir | .ltr => .rtl | .rtl => .ltr | .ttb => .btt | .btt => .ttb

structure Cfg where
  dir : Dir                 -- requested (target) direction
  nat : Option Dir          -- Direction::from_script(script): horizontal direction of the script
  flags : Nat               -- BufferFlags bits
  level : Nat               -- cluster level 0 / 1 / 2
  preLen : Nat              -- context_len[0]

/-- `unicode_props()` split into its fields; the top byte `hi` is shared (as in Rust) by the
    modified combining class (marks), the space fallback type (Zs) and the Cf bits (ZWJ 1, ZWNJ 2, VS 4). -/
structure UProps where
  gc : Nat := 0
  ign : Bool := false      -- IGNORABLE 0x20
  hid : Bool := false      -- HIDDEN 0x40
  cont : Bool := false     -- CONTINUATION 0x80
  hi : Nat := 0
  deriving DecidableEq, Repr, Inhabited

def UProps.pack (p : UProps) : Nat :=
  p.gc + (if p.ign then 32 else 0) + (if p.hid then 64 else 0) + (if p.cont then 128 else 0) + 256 * p.hi

def UProps.unpack (n : Nat) : UProps :=
  { gc := n % 32, ign := n / 32 % 2 == 1, hid := n / 64 % 2 == 1, cont := n / 128 % 2 == 1, hi := n / 256 }

/-- One buffer slot: `hb_glyph_info_t` + `GlyphPosition` (the two arrays always move together in the
    modelled steps).  `cp0` is a ghost field (the character the slot was created from); no model
    function reads it, it only lets theorems speak about "the glyph of character c". -/
structure G where
  cp0 : Nat := 0
  gid : Nat := 0           -- glyph_id: code point before map_glyphs_fast, glyph id after
  cluster : Nat := 0
  props : UProps := {}
  var1 : Nat := 0          -- glyph_index during normalization, glyph_props afterwards
  xa : Int := 0
  ya : Int := 0
  xo : Int := 0
  yo : Int := 0
  deriving DecidableEq, Repr, Inhabited

/-- the scratch flags the modelled steps read -/
structure Scratch where
  nonAscii : Bool := false
  hasDI : Bool := false
  hasSpaceFb : Bool := false
  hasCGJ : Bool := false
  hasVSFb : Bool := false
  deriving DecidableEq, Repr, Inhabited

def Scratch.pack (s : Scratch) : Nat :=
  (if s.nonAscii then 1 else 0) + (if s.hasDI then 2 else 0) + (if s.hasSpaceFb then 4 else 0) +
  (if s.hasCGJ then 16 else 0) + (if s.hasVSFb then 128 else 0)

inductive Err | oos
  deriving DecidableEq, Repr

def hasFlag (flags bit : Nat) : Bool := flags / bit % 2 == 1

/-! ## default ignorables -/

def inRanges (rs : List (Nat × Nat)) (c : Nat) : Bool := rs.any fun r => r.1 ≤ c && c ≤ r.2

/-- `is_default_ignorable` of the compiled crate (generated ranges). -/
def genIsDI (c : Nat) : Bool := inRanges RbModel.Gen.DI.ranges c

/-! ## cmap -/

/-- src: face.rs::find_cmap_subtable -/
def findSub (subs : List CmapSub) (p e : Nat) : Option Nat :=
  subs.findIdx? fun s => s.platform == p && s.encoding == e

/-- src: face.rs::find_best_cmap_subtable (the `or_else` chain, in source order) -/
def bestSub (subs : List CmapSub) : Option Nat :=
  (findSub subs 3 0).orElse fun _ =>        -- Windows Symbol
  (findSub subs 3 10).orElse fun _ =>       -- Windows Unicode full
  (findSub subs 0 6).orElse fun _ =>        -- Unicode full
  (findSub subs 0 4).orElse fun _ =>        -- Unicode 2.0 full
  (findSub subs 3 1).orElse fun _ =>        -- Windows Unicode BMP
  (findSub subs 0 3).orElse fun _ =>        -- Unicode 2.0 BMP
  (findSub subs 0 2).orElse fun _ =>        -- Unicode ISO
  (findSub subs 0 1).orElse fun _ =>        -- Unicode 1.1
  (findSub subs 0 0).orElse fun _ =>        -- Unicode 1.0
  findSub subs 1 0                          -- MacRoman

/-- src: face.rs::unicode_to_macroman (`c as u16`, position in the table, else 0) -/
def toMacRoman (c : Nat) : Nat :=
  match macRoman.idxOf? (c % 65536) with
  | some i => 0x80 + i
  | none => 0

/-- src: face.rs::get_nominal_glyph, below the selection of the subtable.  The three numeric constants (`c > 0x7F`,
    `c <= 0x00FF`, `0xF000 + c`) are the values the compiled crate has (`Gen/Cmap.lean`, probed by tools/gens/cmap.py;
    `C16_gen_cmap_consts` states them).  The Rust function calls itself on `0xF000 + c`; the generator guarantees
    `symbolAliasBase > symbolAliasMax`, so the inner call can neither alias again nor (platform 3) take the MacRoman
    branch: it is the plain lookup written here. -/
def nominalIn (s : CmapSub) (c : Nat) : Option Nat :=
  let c := if s.platform == 1 && c > RbModel.Gen.Cmap.macAsciiMax then toMacRoman c else c
  match s.map c with
  | some g => some g
  | none =>
    -- Windows Symbol: U+F000..F0FF duplicated at U+0000..00FF (one level of recursion)
    if s.platform == 3 && s.encoding == 0 && c ≤ RbModel.Gen.Cmap.symbolAliasMax
    then s.map (RbModel.Gen.Cmap.symbolAliasBase + c) else none

/-- src: face.rs::get_nominal_glyph -/
def nominal (f : Font) (c : Nat) : Option Nat :=
  match bestSub f.subs with
  | none => none
  | some i =>
    match f.subs[i]? with
    | none => none
    | some s => nominalIn s c

/-! ## metrics -/

/-- src: face.rs::glyph_h_advance -/
def hAdvance (f : Font) (g : Nat) : Int :=
  match f.hmtx with
  | some h => (((h g).getD 0 : Nat) : Int)        -- `unwrap_or(0)`
  | none => ((f.upem : Nat) : Int)

/-- src: face.rs::glyph_v_advance  (`-(glyph_advance(glyph, true) as i32)`; without vmtx the
    advance is `i32::from(ascender) - i32::from(descender)`: computed in i32, no i16 wrap) -/
def vAdvance (f : Font) (g : Nat) : Int :=
  match f.vmtx with
  | some v => -(((v g).getD 0 : Nat) : Int)
  | none => -(f.ascender - f.descender)

/-- src: face.rs::glyph_h_origin -/
def hOrigin (f : Font) (g : Nat) : Int := (hAdvance f g).tdiv 2

/-- src: face.rs::glyph_extents for a `glyf` font without bitmaps / COLR: (y_bearing, height) = (yMax, yMin - yMax),
    zero extents for an empty glyph; `none` without outlines -/
def glyphExtentsY (f : Font) (g : Nat) : Option (Int × Int) :=
  match f.glyf with
  | none => none
  | some bb =>
    match bb g with
    | some (ymin, ymax) => some (ymax, ymin - ymax)
    | none => some (0, 0)

/-- src: face.rs::glyph_v_origin: VORG; else from the glyph extents — with `vmtx` the top of the box plus the top side
    bearing, without it the box centred in the line `ascender - descender` (`diff >> 1`: rounds DOWN, `/` on `Int`
    is floor division for the divisor 2); else the ascender -/
def vOrigin (f : Font) (g : Nat) : Int :=
  match f.vorg with
  | some y => y g
  | none =>
    match glyphExtentsY f g with
    | some (yBearing, height) =>
      if f.vmtx.isSome then yBearing + f.vsb g
      else yBearing + ((f.ascender - f.descender) + height) / 2
    | none => f.ascender

/-! ## unicode props -/

def isMarkGc (gc : Nat) : Bool :=
  gc == GC_SPACING_MARK || gc == GC_ENCLOSING_MARK || gc == GC_NON_SPACING_MARK
def isLetterGc (gc : Nat) : Bool :=
  gc == GC_LOWERCASE_LETTER || gc == GC_MODIFIER_LETTER || gc == GC_OTHER_LETTER ||
  gc == GC_TITLECASE_LETTER || gc == GC_UPPERCASE_LETTER

def G.isMark (g : G) : Bool := isMarkGc g.props.gc
/-- src: ot_layout.rs::_hb_glyph_info_get_modified_combining_class -/
def G.mcc (g : G) : Nat := if g.isMark then g.props.hi else 0
/-- src: ot_layout.rs::_hb_glyph_info_is_zwj -/
def G.isZwj (g : G) : Bool := g.props.gc == GC_FORMAT && g.props.hi % 2 == 1
/-- src: ot_layout.rs::_hb_glyph_info_is_default_ignorable (SUBSTITUTED 0x10 of glyph_props) -/
def G.isDI (g : G) : Bool := g.props.ign && !(g.var1 / 16 % 2 == 1)
def G.cont (g : G) : Bool := g.props.cont
def G.setCont (g : G) : G := { g with props := { g.props with cont := true } }

def inRI (c : Nat) : Bool := 0x1F1E6 ≤ c && c ≤ 0x1F1FF
/-- src: unicode.rs::is_variation_selector -/
def isVS (c : Nat) : Bool := (0xFE00 ≤ c && c ≤ 0xFE0F) || (0xE0100 ≤ c && c ≤ 0xE01EF)

/-- the `match u as u32` inside the default-ignorable branch of `init_unicode_props` -/
def diExtra (c : Nat) (p : UProps) : UProps :=
  if c == 0x200C then { p with hi := p.hi ||| 2 }                              -- CF_ZWNJ
  else if c == 0x200D then { p with hi := p.hi ||| 1 }                         -- CF_ZWJ
  else if (0x180B ≤ c && c ≤ 0x180D) || c == 0x180F then { p with hid := true }   -- Mongolian FVS
  else if 0xE0020 ≤ c && c ≤ 0xE007F then { p with hid := true }               -- TAG characters
  else if c == 0x034F then { p with hid := true }                              -- CGJ
  else p

/-- src: buffer.rs::hb_glyph_info_t::init_unicode_props — the props it computes for code point `c` -/
def initP (u : Ucd) (c : Nat) : UProps :=
  let p : UProps := { gc := u.gc c }
  if c < 0x80 then p else
  let p := if u.isDI c then diExtra c { p with ign := true } else p
  if isMarkGc (u.gc c) then { p with cont := true, hi := p.hi ||| u.mcc c } else p

/-- src: buffer.rs::hb_glyph_info_t::init_unicode_props — the scratch flags it raises -/
def initS (u : Ucd) (c : Nat) (s : Scratch) : Scratch :=
  if c < 0x80 then s else
  let s := { s with nonAscii := true }
  if u.isDI c then { s with hasDI := true, hasCGJ := s.hasCGJ || c == 0x034F } else s

def initProps (u : Ucd) (c : Nat) (s : Scratch) : UProps × Scratch := (initP u c, initS u c s)

def G.init (u : Ucd) (g : G) (s : Scratch) : G × Scratch :=
  ({ g with props := initP u g.gid }, initS u g.gid s)

/-- the categories `set_unicode_props` passes over without further tests -/
def skipGc (gc : Nat) : Bool :=
  gc == GC_LOWERCASE_LETTER || gc == GC_UPPERCASE_LETTER || gc == GC_TITLECASE_LETTER ||
  gc == GC_OTHER_LETTER || gc == GC_SPACE_SEPARATOR

/-- the tests `set_unicode_props` applies to one slot after `init_unicode_props`
    (`prev` = `info[i-1]` as already processed, `none` when `i == 0`). -/
def classifyCont (prev : Option G) (g : G) : G :=
  let gc := g.props.gc
  if skipGc gc then g
  else if gc == GC_MODIFIER_SYMBOL && 0x1F3FB ≤ g.gid && g.gid ≤ 0x1F3FF then g.setCont
  else if prev.isSome && inRI g.gid then
    match prev with
    | some p => if inRI p.gid && !p.cont then g.setCont else g
    | none => g
  else if g.isZwj then g.setCont
  else if (0xFF9E ≤ g.gid && g.gid ≤ 0xFF9F) || (0xE0020 ≤ g.gid && g.gid ≤ 0xE007F) then g.setCont
  else g

/-- does the slot take the ZWJ branch of `set_unicode_props`? -/
def takesZwjBranch (prev : Option G) (g : G) : Bool :=
  !skipGc g.props.gc
  && !(g.props.gc == GC_MODIFIER_SYMBOL && 0x1F3FB ≤ g.gid && g.gid ≤ 0x1F3FF)
  && !(prev.isSome && inRI g.gid)
  && g.isZwj

/-- src: ot_shape.rs::set_unicode_props — the `while i < len` loop; `prev` is `info[i-1]` as already
    processed, the list is `info[i..len]`.  The ZWJ branch also consumes the following character
    when it is Extended_Pictographic (`init_unicode_props`, continuation, `i += 1`): `afterZwj`
    says that the previous slot took that branch, so an Extended_Pictographic slot is handled
    there and skips the ordinary tests. -/
def setUnicodeProps (u : Ucd) : Option G → Bool → List G → Scratch → List G × Scratch
  | _, _, [], s => ([], s)
  | prev, afterZwj, g :: rest, s =>
    let r := g.init u s
    if afterZwj && u.extPict g.gid then
      let g := r.1.setCont
      let t := setUnicodeProps u (some g) false rest r.2
      (g :: t.1, t.2)
    else
      let g := classifyCont prev r.1
      let t := setUnicodeProps u (some g) (takesZwjBranch prev r.1) rest r.2
      (g :: t.1, t.2)

/-! ## dotted circle -/

/-- src: ot_shape.rs::insert_dotted_circle (`output_info` of a fresh info before `info[0]`, then `sync`) -/
def insertDottedCircle (u : Ucd) (f : Font) (c : Cfg) (l : List G) (s : Scratch) : List G × Scratch :=
  match l with
  | [] => (l, s)
  | g0 :: _ =>
    if !hasFlag c.flags BF_NO_DOTTED && hasFlag c.flags BF_BOT && c.preLen == 0 && g0.isMark
        && (nominal f 0x25CC).isSome then
      let d : G := { cp0 := 0x25CC, gid := 0x25CC, cluster := g0.cluster }
      let r := d.init u s
      (r.1 :: l, r.2)
    else (l, s)

/-! ## clusters -/

def setCluster (c : Nat) (g : G) : G := { g with cluster := c }

/-- src: buffer.rs::merge_clusters_impl at cluster levels 0 / 1, for `pre = info[0..start]`,
    `seg = info[start..end]` (non-empty) and `post = info[end..len]`, in a buffer without out-part
    (`idx = out_len = 0`).
    * `cluster` = minimum over the segment;
    * "extend end": `while end < len && info[end-1].cluster == info[end].cluster` — the equality chain
      is `takeWhile (cluster == last cluster of seg)` on `post`;
    * "extend start": `while idx < start && info[start-1].cluster == info[start].cluster` (the guard
      after the D4 fix; `idx = 0`) — the trailing run of `pre` whose cluster is that of `seg`'s first slot;
    * the out-buffer continuation loop runs over `out_len = 0` slots.
    Returns the new `pre` and the new `seg ++ post`. -/
def mergeSeg (pre seg post : List G) : List G × List G :=
  match seg with
  | [] => (pre, post)
  | g0 :: tl =>
    let cluster := tl.foldl (fun c g => min c g.cluster) g0.cluster
    let lastC := (seg.getLast?.getD g0).cluster
    let ext := if cluster != lastC then post.takeWhile (fun g => g.cluster == lastC) else []
    let k := if cluster != g0.cluster then (pre.reverse.takeWhile fun g => g.cluster == g0.cluster).length else 0
    (pre.take (pre.length - k) ++ (pre.drop (pre.length - k)).map (setCluster cluster),
     (seg ++ ext).map (setCluster cluster) ++ post.drop ext.length)

/-- src: buffer.rs::merge_clusters (+ `_impl`): no-op for fewer than two slots; at level 2 only glyph
    flags are touched (not modelled). -/
def mergeClusters (level : Nat) (pre seg post : List G) : List G × List G :=
  if seg.length < 2 then (pre, seg ++ post)
  else if level == 2 then (pre, seg ++ post)
  else mergeSeg pre seg post

/-- `foreach_grapheme!` / `reverse_groups` over the physical buffer: `done` = `info[0..start]` as it
    stands, the list = `info[start..len]`.  The group is `group_end` with `_hb_grapheme_group_func`
    ("next is a continuation"); it is optionally merged (`merge_clusters(start, end)`, which may
    rewrite clusters before and after it) and, for `reverse_groups`, reversed in place.
    `fuel` is only there for structural recursion (callers pass the length). -/
def graphemeWalk (merge : Bool) (level : Nat) (rev : Bool) : Nat → List G → List G → List G
  | 0, done, rest => done ++ rest
  | _, done, [] => done
  | fuel + 1, done, g :: tl =>
    let seg := g :: tl.takeWhile G.cont
    let post := tl.dropWhile G.cont
    let r := if merge then mergeClusters level done seg post else (done, seg ++ post)
    let segNew := r.2.take seg.length
    graphemeWalk merge level rev fuel (r.1 ++ (if rev then segNew.reverse else segNew)) (r.2.drop seg.length)

/-- src: ot_shape.rs::form_clusters (level 0 merges graphemes; levels 1, 2 only set glyph flags) -/
def formClusters (c : Cfg) (l : List G) (s : Scratch) : List G :=
  if s.nonAscii && c.level == 0 then graphemeWalk true c.level false l.length [] l else l

/-- src: ot_layout.rs::_hb_ot_layout_reverse_graphemes = buffer.rs::reverse_groups(grapheme, level == 1):
    every group is merged (level 1) and reversed in place, then the whole buffer is reversed:
    the groups appear in reverse order, each in its own order. -/
def reverseGraphemes (level : Nat) (l : List G) : List G :=
  (graphemeWalk (level == 1) level true l.length [] l).reverse

/-- src: ot_shape.rs::ensure_native_direction — `hor`: the script's horizontal direction, reset to LTR
    for a natively-RTL script when the run has digits or regional indicators and no letters
    (the scan stops at the first letter, so `found_letter` = "there is a letter"). -/
def effectiveHor (c : Cfg) (l : List G) : Option Dir :=
  if c.nat == some .rtl && c.dir == .ltr then
    let hasLetter := l.any fun g => isLetterGc g.props.gc
    let hasNumber := l.any fun g => g.props.gc == GC_DECIMAL_NUMBER
    let hasRI := l.any fun g => g.props.gc != GC_DECIMAL_NUMBER && !isLetterGc g.props.gc && inRI g.gid
    if (hasNumber || hasRI) && !hasLetter then some .ltr else c.nat
  else c.nat

/-- src: ot_shape.rs::ensure_native_direction — the final test -/
def needsReverse (c : Cfg) (l : List G) : Bool :=
  (c.dir.isHorizontal && (effectiveHor c l).isSome && some c.dir != effectiveHor c l)
    || (c.dir.isVertical && c.dir != .ttb)

/-- src: ot_shape.rs::ensure_native_direction.  Returns the buffer and `buffer.direction`. -/
def ensureNativeDirection (c : Cfg) (l : List G) : List G × Dir :=
  if needsReverse c l then (reverseGraphemes c.level l, c.dir.reverse) else (l, c.dir)

/-! ## substitution side -/

/-- one slot of the mirroring loop of `rotate_chars` -/
def mirror1 (u : Ucd) (f : Font) (g : G) : G :=
  match u.mirror g.gid with
  | some m => if (nominal f m).isSome then { g with gid := m } else g
  | none => g

/-- one slot of the vertical-forms loop of `rotate_chars` -/
def vert1 (u : Ucd) (f : Font) (g : G) : G :=
  match u.vert g.gid with
  | some v => if (nominal f v).isSome then { g with gid := v } else g
  | none => g

/-- src: ot_shape.rs::rotate_chars (`has_vert` is false: there is no GSUB) -/
def rotateChars (u : Ucd) (f : Font) (c : Cfg) (l : List G) : List G :=
  let l := if c.dir.isBackward then l.map (mirror1 u f) else l
  if c.dir.isVertical then l.map (vert1 u f) else l

/-- src: ot_shape_normalize.rs::set_glyph -/
def setGlyph (f : Font) (g : G) : G :=
  match nominal f g.gid with
  | some gl => { g with var1 := gl }
  | none => g

/-- src: ot_shape_normalize.rs::decompose_current_character when `decompose` finds nothing
    (also the `might_short_circuit` fast path, which gives the same result when the glyph exists). -/
def decomposeCurrent (u : Ucd) (f : Font) (g : G) (s : Scratch) : G × Scratch :=
  match nominal f g.gid with
  | some gl => ({ g with var1 := gl }, s)
  | none =>
    let sp := if g.props.gc == GC_SPACE_SEPARATOR && u.spaceFb g.gid != 0 then nominal f 0x20 else none
    match sp with
    | some spg =>
      -- _hb_glyph_info_set_unicode_space_fallback_type, next_char(space_glyph)
      ({ g with props := { g.props with hi := u.spaceFb g.gid }, var1 := spg }, { s with hasSpaceFb := true })
    | none =>
      if g.gid == 0x2011 then
        match nominal f 0x2010 with
        | some o => ({ g with var1 := o }, s)
        | none => ({ g with var1 := 0 }, s)
      else ({ g with var1 := 0 }, s)

/-- src: ot_layout.rs::_hb_glyph_info_set_variation_selector(info, true) -/
def customizeVS (g : G) : G :=
  { g with props := { g.props with gc := GC_FORMAT, hi := 4 } }

/-- src: ot_shape_normalize.rs::handle_variation_selector_cluster on `info[idx..end]`, the font having no
    variation sequences (`glyph_variation_index` = None) and `not_found_variation_selector` = None.
    `a :: b :: rest` is `idx < end - 1`. Returns the slots and whether the VS-fallback flag was raised. -/
def vsCluster (f : Font) : Nat → List G → List G × Bool
  | 0, l => (l, false)
  | _, [] => ([], false)
  | _, [a] => ([setGlyph f a], false)
  | fuel + 1, a :: b :: rest =>
    if isVS b.gid then
      let a := setGlyph f a
      let b := setGlyph f (customizeVS b)
      let more := (rest.takeWhile fun g => isVS g.gid).map (setGlyph f)
      let r := vsCluster f fuel (rest.dropWhile fun g => isVS g.gid)
      (a :: b :: more ++ r.1, true)
    else
      let r := vsCluster f fuel (b :: rest)
      (setGlyph f a :: r.1, r.2)

def mapAccum (fn : G → Scratch → G × Scratch) : List G → Scratch → List G × Scratch
  | [], s => ([], s)
  | g :: tl, s =>
    let r := fn g s
    let r' := mapAccum fn tl r.2
    (r.1 :: r'.1, r'.2)

/-- src: ot_shape_normalize.rs::decompose_multi_char_cluster -/
def multiCharCluster (u : Ucd) (f : Font) (cl : List G) (s : Scratch) : List G × Scratch :=
  if cl.any fun g => isVS g.gid then
    let r := vsCluster f cl.length cl
    (r.1, if r.2 then { s with hasVSFb := true } else s)
  else mapAccum (decomposeCurrent u f) cl s

/-- src: ot_shape_normalize.rs::_hb_ot_shape_normalize, first round (the `loop`): a run of simple
    characters (everything up to, but excluding, the last slot before the next mark), then one
    base + marks cluster.  Rounds two and three do nothing on in-scope texts (all ccc = 0, nothing
    composes).  `fuel` for structural recursion. -/
def normalizeRound1 (u : Ucd) (f : Font) : Nat → List G → Scratch → List G × Scratch
  | 0, l, s => (l, s)
  | _, [], s => ([], s)
  | fuel + 1, g0 :: rest, s =>
    let nm := rest.takeWhile fun g => !g.isMark
    let after := rest.dropWhile fun g => !g.isMark
    match after with
    | [] => mapAccum (decomposeCurrent u f) (g0 :: nm) s
    | _ :: _ =>
      -- "Leave one base for the marks to cluster with."
      let run := g0 :: nm
      let simple := run.dropLast
      let base := run.getLast?.getD g0
      let r1 := mapAccum (decomposeCurrent u f) simple s
      let marks := after.takeWhile G.isMark
      let r2 := multiCharCluster u f (base :: marks) r1.2
      let r3 := normalizeRound1 u f fuel (after.dropWhile G.isMark) r2.2
      (r1.1 ++ r2.1 ++ r3.1, r3.2)

def inScope (u : Ucd) (l : List G) : Bool :=
  l.all fun g => !u.norm g.gid && u.mcc g.gid == 0

/-- src: ot_shape.rs::map_glyphs_fast; ot_layout.rs::_hb_ot_layout_set_glyph_props (no GDEF: 0);
    ot_shape.rs::hb_synthesize_glyph_classes (BASE_GLYPH 2, MARK 8) — one slot -/
def mapGlyph1 (g : G) : G :=
  let g := { g with gid := g.var1, var1 := 0 }
  let cls := if g.props.gc != GC_NON_SPACING_MARK || g.isDI then 2 else 8
  { g with var1 := cls }

def mapGlyphsAndClasses (l : List G) : List G := l.map mapGlyph1

/-! ## positioning -/

/-- src: ot_shape.rs::position_default (after `clear_positions`) — one slot -/
def posDefault1 (f : Font) (dir : Dir) (g : G) : G :=
  if dir.isHorizontal then { g with xa := hAdvance f g.gid, ya := 0, xo := 0, yo := 0 }
  else { g with xa := 0, ya := vAdvance f g.gid, xo := 0 - hOrigin f g.gid, yo := 0 - vOrigin f g.gid }

def positionDefault (f : Font) (dir : Dir) (l : List G) : List G := l.map (posDefault1 f dir)

/-- the first digit '0'..'9' the font maps (SPACE_FIGURE) -/
def firstDigitGlyph (f : Font) : Option Nat :=
  (List.range 10).findSome? fun i => nominal f (0x30 + i)

/-- write an advance on the axis of the direction -/
def setAdvance (dir : Dir) (g : G) (len : Int) : G :=
  if dir.isHorizontal then { g with xa := len } else { g with ya := -len }

/-- advance of glyph `d` on the axis of the direction -/
def copyAdvance (f : Font) (dir : Dir) (g : G) (d : Nat) : G :=
  if dir.isHorizontal then { g with xa := hAdvance f d } else { g with ya := vAdvance f d }

/-- src: ot_shape_fallback.rs::_hb_ot_shape_fallback_spaces — one slot -/
def fallbackSpace1 (f : Font) (dir : Dir) (g : G) : G :=
  if g.props.gc == GC_SPACE_SEPARATOR then   -- (never ligated: there is no GSUB)
    let t := g.props.hi
    if t == SPACE_EM || t == SPACE_EM_2 || t == SPACE_EM_3 || t == SPACE_EM_4 || t == SPACE_EM_5
        || t == SPACE_EM_6 || t == SPACE_EM_16 then
      setAdvance dir g ((((f.upem + t / 2) / t : Nat) : Int))
    else if t == SPACE_4_EM_18 then setAdvance dir g (((f.upem * 4 / 18 : Nat) : Int))
    else if t == SPACE_FIGURE then
      match firstDigitGlyph f with
      | some d => copyAdvance f dir g d
      | none => g
    else if t == SPACE_PUNCTUATION then
      match (nominal f 0x2E).orElse fun _ => nominal f 0x2C with
      | some d => copyAdvance f dir g d
      | none => g
    else if t == SPACE_NARROW then
      if dir.isHorizontal then { g with xa := g.xa.tdiv 2 } else { g with ya := g.ya.tdiv 2 }
    else g
  else g

def fallbackSpaces (f : Font) (dir : Dir) (l : List G) : List G := l.map (fallbackSpace1 f dir)

/-- the zeroing both mark passes apply to one slot -/
def zeroMark (adjust : Bool) (g : G) : G :=
  if adjust then { g with xo := g.xo - g.xa, yo := g.yo - g.ya, xa := 0, ya := 0 }
  else { g with xa := 0, ya := 0 }

/-- src: ot_shape.rs::zero_mark_widths_by_gdef (glyph class MARK = 8) -/
def zeroGdef1 (adjust : Bool) (g : G) : G := if g.var1 / 8 % 2 == 1 then zeroMark adjust g else g

def zeroMarkWidthsByGdef (adjust : Bool) (l : List G) : List G := l.map (zeroGdef1 adjust)

def zeroDI1 (g : G) : G := if g.isDI then { g with xa := 0, ya := 0, xo := 0, yo := 0 } else g

/-- src: ot_shape.rs::zero_width_default_ignorables -/
def zeroWidthDI (c : Cfg) (s : Scratch) (l : List G) : List G :=
  if s.hasDI && !hasFlag c.flags BF_PRESERVE && !hasFlag c.flags BF_REMOVE then l.map zeroDI1 else l

/-- src: ot_shape_fallback.rs::position_marks → position_cluster → position_around_base →
    zero_mark_advances, for a font whose `glyph_extents` fails (no outlines): the clusters start at
    every non-mark; inside a cluster the first non-mark is the base and every NonspacingMark after
    it is zeroed.  `seen` = "a non-mark occurred before this slot" (the leading marks of the buffer
    have no base and stay untouched). -/
def positionMarksFb (adjust : Bool) : Bool → List G → List G
  | _, [] => []
  | seen, g :: tl =>
    if g.isMark then
      (if seen && g.props.gc == GC_NON_SPACING_MARK then zeroMark adjust g else g)
        :: positionMarksFb adjust seen tl
    else g :: positionMarksFb adjust true tl

/-- `i + 1 < len && cluster == info[i + 1].cluster` -/
def sameClusterNext (g : G) : List G → Bool
  | n :: _ => n.cluster == g.cluster
  | [] => false

/-- "Merge cluster backward": the trailing run of `out` whose cluster is `old` takes cluster `c` -/
def mergeBackward (c old : Nat) (out : List G) : List G :=
  let k := (out.reverse.takeWhile fun x => x.cluster == old).length
  out.take (out.length - k) ++ (out.drop (out.length - k)).map (setCluster c)

/-- "Merge cluster forward" (`merge_clusters(i, i + 2)` while nothing has been kept yet), then the
    deleted slot `info[i]` is dropped: what remains of `info[i+1..len]`.  The slots before `i` are all
    dead at that point (`j == 0`), so what "extend start" writes there is never read: `pre = []`. -/
def mergeForwardDrop (level : Nat) (g : G) : List G → List G
  | n :: tl' => (mergeClusters level [] [g, n] tl').2.drop 1
  | [] => []

/-- src: buffer.rs::delete_glyphs_inplace(_hb_glyph_info_is_default_ignorable).
    `out` = `info[0..j]` (kept so far), the list = `info[i..len]`. -/
def deleteDI (level : Nat) : Nat → List G → List G → List G
  | 0, out, rest => out ++ rest
  | _, out, [] => out
  | fuel + 1, out, g :: tl =>
    if g.isDI then
      if sameClusterNext g tl then deleteDI level fuel out tl                -- cluster survives
      else
        match out.getLast? with
        | some last =>
          deleteDI level fuel (if g.cluster < last.cluster then mergeBackward g.cluster last.cluster out else out) tl
        | none => deleteDI level fuel out (mergeForwardDrop level g tl)      -- j == 0
    else deleteDI level fuel (out ++ [g]) tl

def hide1 (sp : Nat) (g : G) : G := if g.isDI then { g with gid := sp } else g

/-- src: ot_shape.rs::hide_default_ignorables (`buffer.invisible` is None) -/
def hideDI (f : Font) (c : Cfg) (s : Scratch) (l : List G) : List G :=
  if s.hasDI && !hasFlag c.flags BF_PRESERVE then
    match (if !hasFlag c.flags BF_REMOVE then nominal f 0x20 else none) with
    | some sp => l.map (hide1 sp)
    | none => deleteDI c.level l.length [] l
  else l

/-! ## the whole thing -/

/-- `UnicodeBuffer::add` of every (code point, cluster) -/
def initial (text : List (Nat × Nat)) : List G :=
  text.map fun t => { cp0 := t.1, gid := t.1, cluster := t.2 }

/-! src: ot_shape.rs::shape_internal for a plan compiled on a font without layout tables and the
    default shaper: zero_marks (BY_GDEF_LATE), fallback_glyph_classes, fallback_mark_positioning,
    adjust_mark_positioning_when_zeroing are on; GSUB / GPOS / kern / kerx / morx / trak are absent. -/

/-- set_unicode_props; insert_dotted_circle; form_clusters; ensure_native_direction.
    Returns the buffer, the scratch flags and `buffer.direction`. -/
def prepare (u : Ucd) (f : Font) (c : Cfg) (l : List G) : List G × Scratch × Dir :=
  let r := setUnicodeProps u none false l {}
  let r := insertDottedCircle u f c r.1 r.2
  let e := ensureNativeDirection c (formClusters c r.1 r.2)
  (e.1, r.2, e.2)

/-- substitute_pre: rotate_chars; normalize; map_glyphs_fast; glyph classes (there is no GSUB) -/
def substitute (u : Ucd) (f : Font) (c : Cfg) (l : List G) (s : Scratch) : List G × Scratch :=
  let r := normalizeRound1 u f l.length (rotateChars u f c l) s
  (mapGlyphsAndClasses r.1, r.2)

/-- position_default; (fallback spaces); position_complex — without the final reversal -/
def position (f : Font) (c : Cfg) (bdir : Dir) (s : Scratch) (l : List G) : List G :=
  let l := positionDefault f bdir l
  let l := if s.hasSpaceFb then fallbackSpaces f bdir l else l
  let l := zeroMarkWidthsByGdef bdir.isForward l
  let l := zeroWidthDI c s l
  positionMarksFb bdir.isForward false l

/-- the reversal at the end of `position`; substitute_post (hide_default_ignorables) -/
def finish (f : Font) (c : Cfg) (bdir : Dir) (s : Scratch) (l : List G) : List G :=
  hideDI f c s (if bdir.isBackward then l.reverse else l)

def shapeCore (u : Ucd) (f : Font) (c : Cfg) (l : List G) : List G :=
  let p := prepare u f c l
  let q := substitute u f c p.1 p.2.1
  finish f c p.2.2 q.2 (position f c p.2.2 q.2 q.1)

/-- src: shape.rs::shape / shape_with_plan (direction and script already set by the caller) -/
def shape (u : Ucd) (f : Font) (c : Cfg) (text : List (Nat × Nat)) : Except Err (List G) :=
  let l := initial text
  if !inScope u l then .error .oos
  else if l.isEmpty then .ok []
  else .ok (shapeCore u f c l)

end RbModel.Pipeline
