import RbModel.Drv.Digest

/-! rbmodel — the model's executable definitions behind the same line protocol as `rbshim`. -/

def dispatch (ts : List String) : Option String :=
  match ts with
  | [] => some ""
  | "flush" :: _ => some "ok"
  | "digest" :: rest => RbModel.Drv.Digest.handle rest
  | _ => none

partial def loop (hin hout : IO.FS.Stream) : IO Unit := do
  let line ← hin.getLine
  if line.isEmpty then return ()
  let ts := (line.trimAscii.toString.splitOn " ").filter (· ≠ "")
  match dispatch ts with
  | some s => hout.putStrLn s
  | none => hout.putStrLn "bad-op"
  loop hin hout

def main : IO Unit := do
  let hin ← IO.getStdin
  let hout ← IO.getStdout
  loop hin hout
  hout.flush
