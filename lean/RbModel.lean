import RbModel.Digest
